(* C05 proofs on the C12 variogram model (general solution 1: Vario::_calculateGeneralSolution1 + finish) *)
From Coq Require Import List ZArith QArith Qabs Bool Lqa Lia Permutation Sorted.
From Gst Require Import lib.QAux C12.Model C12.Spec C12.Proofs_enum C05.Reindex C05.Spec_vario.
Import ListNotations.
Local Open Scope Q_scope.

(* ---------- the selection test of the loops is isActive ---------- *)
Lemma skip_active cf s : negb (skip cf s) = is_active cf s.
Proof. unfold skip, is_active. destruct (c_hasSel cf); cbn [negb andb orb]; [apply negb_involutive|reflexivity]. Qed.

(* ---------- the stable sort on the first coordinate commutes with the removal ---------- *)
Lemma insert_front a l : Forall (le_x1 a) l -> insert a l = a :: l.
Proof.
  intro H. destruct l as [|b r]; [reflexivity|]. cbn [insert].
  inversion H as [|? ? Hb _]; subst. unfold le_x1 in Hb.
  rewrite (proj2 (qleb_true (x1 a) (x1 b)) Hb). reflexivity.
Qed.
Lemma filter_insert (f : sample -> bool) a l :
  StronglySorted le_x1 l -> filter f (insert a l) = if f a then insert a (filter f l) else filter f l.
Proof.
  induction l as [|b r IH]; intro Hs.
  - cbn [insert filter]. destruct (f a); reflexivity.
  - inversion Hs as [|? ? Hr Hall]; subst. cbn [insert].
    destruct (qleb_spec (x1 a) (x1 b)) as [H|H].
    + cbn [filter]. destruct (f a) eqn:Fa; [|reflexivity].
      symmetry. apply insert_front.
      assert (G : Forall (le_x1 a) (b :: r)).
      { constructor; [exact H|]. eapply Forall_impl; [|exact Hall]. intros c Hc. unfold le_x1 in *. lra. }
      destruct (f b); [|inversion G; subst].
      * constructor; [exact H|]. inversion G as [|? ? _ G2]; subst.
        apply Forall_forall. intros c Hc. apply filter_In in Hc. rewrite Forall_forall in G2. apply G2. tauto.
      * apply Forall_forall. intros c Hc. apply filter_In in Hc. rewrite Forall_forall in H3. apply H3. tauto.
    + cbn [filter]. rewrite (IH Hr). destruct (f b) eqn:Fb; destruct (f a) eqn:Fa; try reflexivity.
      cbn [insert]. rewrite (proj2 (qleb_false (x1 a) (x1 b)) (Qnot_le_lt _ _ H)). reflexivity.
Qed.
Lemma sort_filter (f : sample -> bool) l : sort_x1 (filter f l) = filter f (sort_x1 l).
Proof.
  induction l as [|a r IH]; [reflexivity|].
  change (sort_x1 (a :: r)) with (insert a (sort_x1 r)).
  rewrite (filter_insert f a (sort_x1 r) (sort_sorted r)). cbn [filter].
  destruct (f a); [|exact IH]. change (sort_x1 (a :: filter f r)) with (insert a (sort_x1 (filter f r))).
  rewrite IH. reflexivity.
Qed.

(* ---------- pairs ---------- *)
Lemma all_pairs_filter {A} (f : A -> bool) (l : list A) :
  filter (fun p => f (fst p) && f (snd p)) (all_pairs l) = all_pairs (filter f l).
Proof.
  induction l as [|a r IH]; [reflexivity|]. cbn [all_pairs filter]. rewrite filter_app, IH.
  destruct (f a) eqn:Fa.
  - cbn [all_pairs]. f_equal. rewrite filter_map_comm. cbn [fst snd]. rewrite Fa. reflexivity.
  - assert (E : filter (fun p : A * A => f (fst p) && f (snd p)) (map (pair a) r) = []).
    { clear IH. induction r as [|x r IHr]; [reflexivity|]. cbn [map filter fst snd]. rewrite Fa. cbn [andb]. exact IHr. }
    rewrite E. reflexivity.
Qed.
Lemma filter_idem {A} (f : A -> bool) l : filter f (filter f l) = filter f l.
Proof. rewrite <- filter_and. apply filter_ext. intro x. destruct (f x); reflexivity. Qed.

Lemma reached1_active cf d l :
  c_dateLoop cf = false -> 0 < d_dpas d -> 0 <= d_tol d ->
  reached1 cf d l = all_pairs (filter (is_active cf) (sort_x1 l)).
Proof.
  intros Hd H1 H2. rewrite (reached1_all_pairs cf d l Hd H1 H2). rewrite <- all_pairs_filter.
  apply filter_ext. intros [a b]. unfold unskipped. cbn [fst snd]. rewrite !skip_active. reflexivity.
Qed.

(* the pairs handed to keepPair are those of the reduced Db; a pair with a masked end never gets there *)
Lemma reached1_reduce cf d l :
  c_dateLoop cf = false -> 0 < d_dpas d -> 0 <= d_tol d ->
  reached1 cf d l = reached1 cf d (vreduce cf l).
Proof.
  intros Hd H1 H2. rewrite (reached1_active cf d l Hd H1 H2), (reached1_active cf d (vreduce cf l) Hd H1 H2).
  unfold vreduce. rewrite sort_filter, filter_idem. reflexivity.
Qed.
Lemma reached1_only_active cf d l p :
  c_dateLoop cf = false -> 0 < d_dpas d -> 0 <= d_tol d ->
  In p (reached1 cf d l) -> is_active cf (fst p) = true /\ is_active cf (snd p) = true.
Proof.
  intros Hd H1 H2 H. rewrite (reached1_all_pairs cf d l Hd H1 H2) in H. apply filter_In in H. destruct H as [_ H].
  unfold unskipped in H. rewrite !skip_active in H. apply andb_true_iff in H. exact H.
Qed.

(* ---------- statistics used by the centring / C(0) patch ---------- *)
Lemma gstats_reduce cf l iv jv : gstats cf l iv jv = gstats cf (vreduce cf l) iv jv.
Proof.
  unfold gstats, vreduce. apply fold_left_skip. intros t s H. rewrite H. reflexivity.
Qed.

(* ---------- the updates do not depend on the global means, except for the Poisson estimator ---------- *)
Lemma pair_updates_means cf d m1 m2 a b : c_calc cf <> Poisson -> pair_updates cf d m1 a b = pair_updates cf d m2 a b.
Proof.
  intro H. unfold pair_updates.
  destruct (isOK d (is_asym (c_calc cf)) (geo_of (d_codir d) (vsub (s_x b) (s_x a)))); [reflexivity|].
  destruct (c_dateChk cf && negb (date_ok d a b)); [reflexivity|].
  destruct (lag_rank d (g_d2 (geo_of (d_codir d) (vsub (s_x b) (s_x a))))); [|reflexivity].
  unfold evaluate. destruct (c_calc cf); try reflexivity. contradiction H; reflexivity.
Qed.

Lemma accumulate1_reduce cf d l :
  c_dateLoop cf = false -> 0 < d_dpas d -> 0 <= d_tol d -> c_calc cf <> Poisson ->
  accumulate1 cf d l = accumulate1 cf d (vreduce cf l).
Proof.
  intros Hd H1 H2 Hc. unfold accumulate1. rewrite <- (reached1_reduce cf d l Hd H1 H2). f_equal.
  apply flat_map_ext. intro p. apply pair_updates_means. exact Hc.
Qed.

Lemma finish_reduce cf d l arr : finish cf d l arr = finish cf d (vreduce cf l) arr.
Proof.
  unfold finish. apply map_ext. intros [iv jv]. rewrite <- gstats_reduce. reflexivity.
Qed.

(* ---------- the whole of solution 1 ---------- *)
Lemma solution1_reduce cf d l :
  c_dateLoop cf = false -> 0 < d_dpas d -> 0 <= d_tol d -> c_calc cf <> Poisson ->
  solution1 cf d l = solution1 cf d (vreduce cf l).
Proof.
  intros Hd H1 H2 Hc. unfold solution1. rewrite <- (accumulate1_reduce cf d l Hd H1 H2 Hc). apply finish_reduce.
Qed.

(* ---------- once reduced, the selection column can be dropped ---------- *)
Lemma fold_left_ext_in' {A S} (f g : S -> A -> S) l s :
  (forall s x, In x l -> f s x = g s x) -> fold_left f l s = fold_left g l s.
Proof.
  revert s. induction l as [|x r IH]; intros s H; [reflexivity|]. cbn [fold_left].
  rewrite (H s x) by (left; reflexivity). apply IH. intros s' y Hy. apply H. right; exact Hy.
Qed.
Lemma filter_all {A} (f : A -> bool) l : (forall x, In x l -> f x = true) -> filter f l = l.
Proof.
  induction l as [|x r IH]; intro H; [reflexivity|]. cbn [filter]. rewrite (H x) by (left; reflexivity).
  f_equal. apply IH. intros y Hy. apply H. right; exact Hy.
Qed.
Lemma firstn_In_local {A} (l : list A) n x : In x (firstn n l) -> In x l.
Proof. rewrite <- (firstn_skipn n l) at 2. intro H. apply in_or_app. left; exact H. Qed.
Lemma solution1_nosel cf d l :
  c_dateLoop cf = false -> 0 < d_dpas d -> 0 <= d_tol d ->
  (forall s, In s l -> is_active cf s = true) ->
  solution1 cf d l = solution1 (cfg_nosel cf) d l.
Proof.
  intros Hd H1 H2 Hall.
  assert (HS : forall s, In s (sort_x1 l) -> is_active cf s = true)
    by (intros s Hs; apply Hall; apply (Permutation_in s (sort_perm l) Hs)).
  assert (ER : reached1 cf d l = reached1 (cfg_nosel cf) d l).
  { rewrite (reached1_active cf d l Hd H1 H2), (reached1_active (cfg_nosel cf) d l Hd H1 H2).
    rewrite (filter_all (is_active cf) (sort_x1 l) HS). rewrite filter_all by (intros; reflexivity). reflexivity. }
  unfold solution1, accumulate1. rewrite ER.
  assert (EM : stat_means cf l = stat_means (cfg_nosel cf) l).
  { unfold stat_means. apply map_ext. intro iv. unfold stat_mean. cbn [c_nvar cfg_nosel].
    rewrite (filter_all (is_active cf)) by (intros s Hs; apply Hall; apply (firstn_In_local l (c_nvar cf) s Hs)).
    rewrite (filter_all (is_active (cfg_nosel cf))) by (intros; reflexivity). reflexivity. }
  rewrite EM.
  unfold finish. apply map_ext. intros [iv jv].
  assert (EG : gstats cf l iv jv = gstats (cfg_nosel cf) l iv jv).
  { unfold gstats. apply fold_left_ext_in'. intros t s Hs. rewrite (Hall s Hs). reflexivity. }
  rewrite EG. reflexivity.
Qed.

(* C05 — generic lemmas about "physically removing" elements of an indexed collection:
   the list K of kept indices (increasing), the renaming a |-> nth a K, filters and folds that skip
   the removed elements.  No model-specific content.  (Candidate for coq/lib.) *)
From Coq Require Import List Arith Lia Bool Sorted.
Import ListNotations.

(* kept indices among 0..n-1 *)
Definition kidx (keep : nat -> bool) (n : nat) : list nat := filter keep (seq 0 n).
(* old index of the a-th kept element *)
Definition ren (K : list nat) (a : nat) : nat := nth a K 0.
(* physical reduction of a list to the indices K *)
Definition lsub {A} (d : A) (K : list nat) (l : list A) : list A := map (fun i => nth i l d) K.

Lemma kidx_In keep n i : In i (kidx keep n) <-> i < n /\ keep i = true.
Proof. unfold kidx. rewrite filter_In, in_seq. split; intros [H1 H2]; split; try assumption; lia. Qed.

Lemma map_ren_seq K : map (ren K) (seq 0 (length K)) = K.
Proof.
  unfold ren. induction K as [|x r IH]; [reflexivity|].
  cbn [length]. rewrite <- cons_seq. cbn [map nth]. f_equal.
  rewrite <- seq_shift, map_map. exact IH.
Qed.

Lemma filter_map_comm {A B} (f : A -> B) (P : B -> bool) l :
  filter P (map f l) = map f (filter (fun x => P (f x)) l).
Proof. induction l as [|x r IH]; [reflexivity|]. cbn [map filter]. destruct (P (f x)); cbn [map]; rewrite IH; reflexivity. Qed.

Lemma filter_and {A} (P Q : A -> bool) l : filter (fun x => P x && Q x) l = filter P (filter Q l).
Proof.
  induction l as [|x r IH]; [reflexivity|]. cbn [filter].
  destruct (Q x); cbn [filter]; destruct (P x); cbn [andb]; rewrite IH; reflexivity.
Qed.

Lemma filter_flat_map {A B} (f : A -> list B) (P : B -> bool) l :
  filter P (flat_map f l) = flat_map (fun x => filter P (f x)) l.
Proof. induction l as [|x r IH]; [reflexivity|]. cbn [flat_map]. rewrite filter_app, IH. reflexivity. Qed.

Lemma flat_map_ext_in {A B} (f g : A -> list B) l : (forall x, In x l -> f x = g x) -> flat_map f l = flat_map g l.
Proof.
  induction l as [|x r IH]; intro H; [reflexivity|]. cbn [flat_map].
  rewrite (H x) by (left; reflexivity). rewrite IH by (intros y Hy; apply H; right; exact Hy). reflexivity.
Qed.

Lemma map_flat_map {A B C} (g : B -> C) (f : A -> list B) l : map g (flat_map f l) = flat_map (fun x => map g (f x)) l.
Proof. induction l as [|x r IH]; [reflexivity|]. cbn [flat_map]. rewrite map_app, IH. reflexivity. Qed.

(* a filter that implies [keep] only sees the kept indices *)
Lemma filter_sub (keep P : nat -> bool) n :
  (forall i, i < n -> P i = true -> keep i = true) ->
  filter P (seq 0 n) =
  map (ren (kidx keep n)) (filter (fun a => P (ren (kidx keep n) a)) (seq 0 (length (kidx keep n)))).
Proof.
  intro H. set (K := kidx keep n).
  rewrite <- filter_map_comm. rewrite map_ren_seq. unfold K, kidx.
  rewrite <- filter_and. apply filter_ext_in. intros i Hi. apply in_seq in Hi.
  destruct (P i) eqn:E; [|reflexivity]. rewrite (H i) by (try lia; exact E). reflexivity.
Qed.

(* seq as blocks and shifts *)
Lemma seq_shift_add s n : seq s n = map (fun i => i + s) (seq 0 n).
Proof.
  revert s. induction n as [|n IH]; intro s; [reflexivity|].
  cbn [seq map]. f_equal. rewrite (IH (S s)), (IH 1). rewrite map_map. apply map_ext. intro i. lia.
Qed.

Lemma seq_blocks nv n : seq 0 (nv * n) = flat_map (fun iv => seq (iv * n) n) (seq 0 nv).
Proof.
  induction nv as [|nv IH]; [reflexivity|].
  rewrite seq_S, flat_map_app. cbn [flat_map]. rewrite app_nil_r. rewrite <- IH.
  replace (S nv * n) with (nv * n + n) by lia. rewrite seq_app. reflexivity.
Qed.

(* K increasing *)
Lemma filter_seq_sorted P s n : StronglySorted lt (filter P (seq s n)).
Proof.
  revert s. induction n as [|n IH]; intro s; cbn [seq filter]; [constructor|].
  destruct (P s).
  - constructor; [apply IH|]. apply Forall_forall. intros x Hx. apply filter_In in Hx. destruct Hx as [Hx _].
    apply in_seq in Hx. lia.
  - apply IH.
Qed.
Lemma kidx_sorted keep n : StronglySorted lt (kidx keep n).
Proof. apply filter_seq_sorted. Qed.

Lemma sorted_nth_lt K a b : StronglySorted lt K -> a < b -> b < length K -> nth a K 0 < nth b K 0.
Proof.
  intro S. revert a b. induction S as [|x r S IH F]; intros a b Hab Hb; [cbn in Hb; lia|].
  destruct b as [|b]; [lia|]. cbn [length] in Hb. destruct a as [|a].
  - cbn [nth]. rewrite Forall_forall in F. apply F. apply nth_In. lia.
  - cbn [nth]. apply IH; lia.
Qed.
Lemma ren_mono K a b : StronglySorted lt K -> a < b -> b < length K -> ren K a < ren K b.
Proof. apply sorted_nth_lt. Qed.
Lemma ren_inj K a b : StronglySorted lt K -> a < length K -> b < length K -> ren K a = ren K b -> a = b.
Proof.
  intros S Ha Hb E. destruct (Nat.lt_trichotomy a b) as [H|[H|H]]; [|exact H|].
  - pose proof (ren_mono K a b S H Hb). lia.
  - pose proof (ren_mono K b a S H Ha). lia.
Qed.
Lemma ren_ltb K a b : StronglySorted lt K -> a < length K -> b < length K -> Nat.ltb (ren K a) (ren K b) = Nat.ltb a b.
Proof.
  intros S Ha Hb. destruct (Nat.ltb_spec a b) as [H|H].
  - apply Nat.ltb_lt. apply ren_mono; assumption.
  - apply Nat.ltb_ge. destruct (Nat.eq_dec a b) as [E|E]; [subst; lia|].
    assert (b < a) by lia. pose proof (ren_mono K b a S H0 Ha). lia.
Qed.
Lemma ren_eqb K a b : StronglySorted lt K -> a < length K -> b < length K -> Nat.eqb (ren K a) (ren K b) = Nat.eqb a b.
Proof.
  intros S Ha Hb. destruct (Nat.eqb_spec a b) as [H|H].
  - subst. apply Nat.eqb_refl.
  - apply Nat.eqb_neq. intro E. apply H. apply (ren_inj K a b S Ha Hb E).
Qed.
Lemma ren_kidx_lt keep n a : a < length (kidx keep n) -> ren (kidx keep n) a < n.
Proof. intro H. assert (In (ren (kidx keep n) a) (kidx keep n)) by (apply nth_In; exact H). apply kidx_In in H0. lia. Qed.
Lemma ren_kidx_keep keep n a : a < length (kidx keep n) -> keep (ren (kidx keep n) a) = true.
Proof. intro H. assert (In (ren (kidx keep n) a) (kidx keep n)) by (apply nth_In; exact H). apply kidx_In in H0. tauto. Qed.
Lemma filter_len_le {A} (P : A -> bool) l : length (filter P l) <= length l.
Proof. induction l as [|x r IH]; [apply le_n|]. cbn [filter]. destruct (P x); cbn [length]; lia. Qed.
Lemma kidx_length_le keep n : length (kidx keep n) <= n.
Proof. unfold kidx. rewrite <- (seq_length n 0) at 2. apply filter_len_le. Qed.

Lemma nth_lsub {A} (d : A) K l a : a < length K -> nth a (lsub d K l) d = nth (ren K a) l d.
Proof.
  intro H. unfold lsub, ren.
  rewrite (nth_indep _ d ((fun i => nth i l d) 0)) by (rewrite map_length; exact H).
  rewrite (map_nth (fun i => nth i l d) K 0 a). reflexivity.
Qed.
Lemma length_lsub {A} (d : A) K l : length (lsub d K l) = length K.
Proof. apply map_length. Qed.

(* reduction of a list by a predicate on elements = sub-list on the kept indices *)
Lemma filter_as_lsub {A} (d : A) (P : A -> bool) l :
  filter P l = lsub d (kidx (fun i => P (nth i l d)) (length l)) l.
Proof.
  unfold lsub, kidx. induction l as [|x r IH] using rev_ind; [reflexivity|].
  rewrite app_length. cbn [length]. rewrite Nat.add_1_r. rewrite seq_S. cbn [Nat.add].
  rewrite !filter_app, map_app. f_equal.
  - rewrite IH at 1.
    assert (E : filter (fun i => P (nth i (r ++ [x]) d)) (seq 0 (length r)) =
                filter (fun i => P (nth i r d)) (seq 0 (length r))).
    { apply filter_ext_in. intros i Hi. apply in_seq in Hi. rewrite app_nth1 by lia. reflexivity. }
    rewrite E. apply map_ext_in. intros i Hi. apply filter_In in Hi. destruct Hi as [Hi _]. apply in_seq in Hi.
    rewrite app_nth1 by lia. reflexivity.
  - cbn [filter]. rewrite app_nth2 by lia. rewrite Nat.sub_diag. cbn [nth].
    destruct (P x); [|reflexivity]. cbn [map]. rewrite app_nth2 by lia. rewrite Nat.sub_diag. reflexivity.
Qed.

(* a fold that ignores the elements failing P only sees the reduced list *)
Lemma fold_left_skip {A S} (step : S -> A -> S) (P : A -> bool) l s :
  (forall s x, P x = false -> step s x = s) ->
  fold_left step l s = fold_left step (filter P l) s.
Proof.
  intro H. revert s. induction l as [|x r IH]; intro s; [reflexivity|].
  cbn [fold_left filter]. destruct (P x) eqn:E; cbn [fold_left].
  - apply IH.
  - rewrite (H s x E). apply IH.
Qed.

Lemma flat_map_skip {A B} (f : A -> list B) (P : A -> bool) l :
  (forall x, P x = false -> f x = []) -> flat_map f l = flat_map f (filter P l).
Proof.
  intro H. induction l as [|x r IH]; [reflexivity|]. cbn [flat_map filter].
  destruct (P x) eqn:E; cbn [flat_map]; rewrite IH; [reflexivity|]. rewrite (H x E). reflexivity.
Qed.

(* two strictly increasing lists with the same elements are equal *)
Lemma sorted_same_elements (l1 l2 : list nat) :
  StronglySorted lt l1 -> StronglySorted lt l2 -> (forall i, In i l1 <-> In i l2) -> l1 = l2.
Proof.
  intro S1. revert l2. induction S1 as [|x r S1 IH F1]; intros l2 S2 H.
  - destruct l2 as [|y r2]; [reflexivity|]. exfalso. apply (proj2 (H y)). left; reflexivity.
  - destruct S2 as [|y r2 S2 F2].
    + exfalso. apply (proj1 (H x)). left; reflexivity.
    + rewrite Forall_forall in F1, F2.
      assert (E : x = y).
      { destruct (proj1 (H x) (or_introl eq_refl)) as [E|Hx]; [symmetry; exact E|].
        destruct (proj2 (H y) (or_introl eq_refl)) as [E|Hy]; [exact E|].
        pose proof (F1 y Hy). pose proof (F2 x Hx). lia. }
      subst y. f_equal. apply IH; [exact S2|].
      intro i. split; intro Hi.
      * destruct (proj1 (H i) (or_intror Hi)) as [E|Hi2]; [|exact Hi2]. pose proof (F1 i Hi). lia.
      * destruct (proj2 (H i) (or_intror Hi)) as [E|Hi2]; [|exact Hi2]. pose proof (F2 i Hi). lia.
Qed.

Lemma map_sorted_mono (g : nat -> nat) l n :
  (forall a b, a < b -> b < n -> g a < g b) -> (forall a, In a l -> a < n) ->
  StronglySorted lt l -> StronglySorted lt (map g l).
Proof.
  intros Hg Hl S. induction S as [|x r S IH F]; cbn [map]; [constructor|].
  constructor.
  - apply IH. intros a Ha. apply Hl. right; exact Ha.
  - rewrite Forall_forall in *. intros y Hy. apply in_map_iff in Hy. destruct Hy as [a [E Ha]]. subst y.
    apply Hg; [apply F; exact Ha|apply Hl; right; exact Ha].
Qed.

(* C05 proofs on the turning-bands models *)
From Coq Require Import List Arith ZArith QArith Bool Lia.
From Gst Require Import lib.QAux lib.LinAlgQ C13.Model C13.Proofs_cond C13.Proofs_krige C14.L2 C14.TB C05.Reindex C05.Spec_simu.
Import ListNotations.

(* ---------- _updateData2ToTarget: a masked datum never gives its value to a coinciding target ---------- *)
Lemma update_reduce nbsimu nvar icase eps2 data ta c r :
  update_point_target nbsimu nvar icase eps2 (filter d_active data) ta c r =
  update_point_target nbsimu nvar icase eps2 data ta c r.
Proof.
  unfold update_point_target. destruct ta; cbn [negb]; [|reflexivity].
  rewrite find_close_compressed0.
  destruct (find_close eps2 c data 0) as [k|] eqn:E; [|reflexivity].
  apply find_close_spec0 in E. destruct E as [Hk [Hc _]].
  rewrite Nat.sub_0_r in Hc. unfold is_close in Hc. apply andb_true_iff in Hc. destruct Hc as [Ha _].
  assert (Hlt : (k < length data)%nat) by lia.
  destruct (masked_sample d_active data no_datum k Hlt Ha) as [M _]. rewrite M. reflexivity.
Qed.
Lemma update_masked_only nbsimu nvar icase eps2 data c r :
  (forall d, In d data -> d_active d = false) -> update_point_target nbsimu nvar icase eps2 data true c r = r.
Proof.
  intro H. rewrite <- update_reduce.
  assert (E : filter d_active data = []).
  { induction data as [|x t IH]; [reflexivity|]. cbn [filter]. rewrite (H x) by (left; reflexivity). apply IH. intros y Hy. apply H. right; exact Hy. }
  rewrite E. reflexivity.
Qed.

(* ---------- _difference ---------- *)
Lemma nb_rows_difference nbsimu nvar icase l :
  nb_rows (difference_all nbsimu nvar icase l) =
  map (fun x => difference_row nbsimu nvar icase (d_z (fst x)) (snd x)) (filter dact l).
Proof.
  unfold nb_rows, difference_all. induction l as [|x t IH]; [reflexivity|]. cbn [map filter].
  destruct (dact x) eqn:E.
  - unfold dact at 1. cbn [fst]. fold (dact x). rewrite E. cbn [map snd]. rewrite IH. reflexivity.
  - rewrite E. exact IH.
Qed.
Lemma nb_rows_reduce nbsimu nvar icase l :
  nb_rows (difference_all nbsimu nvar icase (reduce_data l)) = nb_rows (difference_all nbsimu nvar icase l).
Proof. rewrite !nb_rows_difference. unfold reduce_data. rewrite <- filter_and.
  f_equal. apply filter_ext. intro x. destruct (dact x); reflexivity. Qed.
Lemma difference_masked_untouched nbsimu nvar icase l x :
  In x l -> dact x = false -> In x (difference_all nbsimu nvar icase l).
Proof. intros Hin Ha. unfold difference_all. apply in_map_iff. exists x. rewrite Ha. split; [reflexivity|exact Hin]. Qed.

(* ---------- one conditioned target ---------- *)
Lemma map_fst_reduce (l : list drow) : map fst (reduce_data l) = filter d_active (map fst l).
Proof. unfold reduce_data. rewrite filter_map_comm. reflexivity. Qed.
Lemma cond_target_reduce nbsimu nvar icase eps2 l wgt ta c trow :
  cond_target nbsimu nvar icase eps2 (reduce_data l) wgt ta c trow = cond_target nbsimu nvar icase eps2 l wgt ta c trow.
Proof.
  unfold cond_target. destruct ta; cbn [negb]; [|reflexivity].
  rewrite nb_rows_reduce, map_fst_reduce. apply update_reduce.
Qed.
Lemma cond_target_masked nbsimu nvar icase eps2 l wgt c trow : cond_target nbsimu nvar icase eps2 l wgt false c trow = trow.
Proof. reflexivity. Qed.

(* ---------- non-conditional part (band tables as oracles) ---------- *)
Lemma nc_masked nvar ncov nb T correc A norme act j x : nth x act false = false -> nc_value nvar ncov nb T correc A norme act j x = None.
Proof. intro H. unfold nc_value. rewrite H. reflexivity. Qed.
Lemma nc_reduce nvar ncov nb T correc A norme act j a :
  (a < length (act_kept act))%nat ->
  nc_value nvar ncov nb (fun i s b x => T i s b (ren (act_kept act) x)) correc A norme
           (lsub false (act_kept act) act) j a =
  nc_value nvar ncov nb T correc A norme act j (ren (act_kept act) a) /\
  nc_value nvar ncov nb T correc A norme act j (ren (act_kept act) a) = Some (tb_out nvar ncov nb T correc A norme j (ren (act_kept act) a)).
Proof.
  intro Ha. unfold nc_value. rewrite (nth_lsub false (act_kept act) act a Ha).
  pose proof (ren_kidx_keep (fun i => nth i act false) (length act) a Ha) as K. fold (act_kept act) in K. rewrite K.
  split; reflexivity.
Qed.

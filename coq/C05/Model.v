(* C05 model (self-contained part): the "is this sample usable" filters and the loops that apply them, as written in
     Db::getSelection / isActive / isActiveAndDefined      /repo/src/Db/Db.cpp:2703 / 2928 / 2933
     Db::getWeight                                          Db.cpp:2802
     Db::getRanksActive / getMultipleRanksActive            Db.cpp:3536 / 3517   (selection read through isActive(), optional useCoord)
     dbStatisticsMono (accept[], per-variable loop)         /repo/src/Stats/Classical.cpp:480
     dbStatisticsMulti (cell icol1,icol2; weights)          Classical.cpp:1605
     ACov::evalCovMatrix / evalCovMatrixSymmetric           /repo/src/Covariances/ACov.cpp:872 / 1082
     ACovAnisoList::evalCovMatrixOptim / SymmetricOptim     /repo/src/Covariances/ACovAnisoList.cpp:191 / 270  (same index lists)
     DriftList::evalDriftMatrix                             /repo/src/Drifts/DriftList.cpp:466
     ACalcDbVarCreator::_addVariableDb(..., TEST) + CalcKriging::_run loop + KrigingSystem::estimate's
       "if (! _dbout->isActive(_iechOut)) return 0;"        ACalcDbVarCreator.cpp:64, CalcKriging.cpp:_run, KrigingSystem.cpp:1775
     CalcSimuTurningBands::_minmax / _isSampleUsable / _simulatePoint (activeArray) / _run (masked targets reset to TEST)
                                                            /repo/src/Simulation/CalcSimuTurningBands.cpp:280, 301, 1100, 1954
   The models of C01 (kriging system), C06 (moving neighbourhood) and C12 (variogram pair loops) are imported by
   the Spec_*/Proofs_* files.  Executable definitions only; exact rational arithmetic; None = TEST. *)
From Coq Require Import List Arith ZArith QArith Qabs Bool.
From Gst Require Import lib.QAux.
Import ListNotations.
Local Open Scope Q_scope.

Definition oq := option Q.
Definition isdef (o : oq) : bool := match o with Some _ => true | None => false end.

(* ------------------------------------------------------------------ one row of a Db *)
Record row := { r_sel : oq;            (* value of the ELoc::SEL column (meaningful when the Db has one) *)
                r_w   : oq;            (* value of the ELoc::W column *)
                r_coords : list oq;    (* coordinates (ELoc::X columns) *)
                r_vals : list oq;      (* the variables looked at (Z locators or named columns) *)
                r_verr : list oq }.    (* ELoc::V columns *)
Definition coords_defined (r : row) : bool := forallb isdef (r_coords r).

Definition eps10 : Q := 1 # 10000000000.
(* Db::getSelection: no SEL locator -> 1; TEST -> 0; else !isZero(value) *)
Definition get_selection (hasSel : bool) (r : row) : bool :=
  if hasSel then match r_sel r with None => false | Some v => negb (qleb (Qabs v) eps10) end else true.
Definition is_active (hasSel : bool) (r : row) : bool := get_selection hasSel r.   (* no domain reference *)
Definition is_active_and_defined (hasSel : bool) (item : nat) (r : row) : bool :=
  is_active hasSel r && isdef (nth item (r_vals r) None).
(* Db::getWeight *)
Definition get_weight (hasW : bool) (r : row) : Q :=
  if hasW then match r_w r with None => 1 | Some w => if qltb w 0 then 0 else w end else 1.

(* ------------------------------------------------------------------ dbStatisticsMono *)
Definition accept (hasSel iso : bool) (r : row) : bool :=
  is_active hasSel r && (negb iso || forallb isdef (r_vals r)).
Record mono_st := { m_neff : nat; m_sum : Q; m_sum2 : Q; m_min : Q; m_max : Q }.
Definition big30 : Q := inject_Z (10 ^ 30).
Definition mono_init : mono_st := {| m_neff := 0; m_sum := 0; m_sum2 := 0; m_min := big30; m_max := - big30 |}.
Definition mono_add (st : mono_st) (v : Q) : mono_st :=
  {| m_neff := S (m_neff st); m_sum := Qred (m_sum st + v); m_sum2 := Qred (m_sum2 st + v * v);
     m_min := if qltb v (m_min st) then v else m_min st;
     m_max := if qltb (m_max st) v then v else m_max st |}.
Definition mono_step (hasSel iso : bool) (iv : nat) (st : mono_st) (r : row) : mono_st :=
  if accept hasSel iso r then
    match nth iv (r_vals r) None with Some v => mono_add st v | None => st end
  else st.
Definition mono_loop (hasSel iso : bool) (iv : nat) (l : list row) : mono_st :=
  fold_left (mono_step hasSel iso iv) l mono_init.
Record mono_out := { o_num : nat; o_mean : oq; o_var : oq; o_min : oq; o_max : oq; o_sum : oq }.
Definition mono_finish (st : mono_st) : mono_out :=
  match m_neff st with
  | O => {| o_num := 0; o_mean := None; o_var := None; o_min := None; o_max := None; o_sum := None |}
  | S _ =>
      let n := inject_Z (Z.of_nat (m_neff st)) in
      let mean := m_sum st / n in
      {| o_num := m_neff st; o_mean := Some mean; o_var := Some (m_sum2 st / n - mean * mean);
         o_min := Some (m_min st); o_max := Some (m_max st); o_sum := Some (m_sum st) |}
  end.
Definition stat_mono (hasSel iso : bool) (iv : nat) (l : list row) : mono_out :=
  mono_finish (mono_loop hasSel iso iv l).

(* ------------------------------------------------------------------ dbStatisticsMulti, cell (i1, i2) *)
Record multi_st := { u_num : Q; u_m1 : Q; u_m2 : Q; u_v1 : Q; u_v2 : Q; u_v12 : Q; u_min : Q; u_max : Q;
                     u_plus : nat; u_moins : nat; u_zero : nat }.
Definition multi_init : multi_st :=
  {| u_num := 0; u_m1 := 0; u_m2 := 0; u_v1 := 0; u_v2 := 0; u_v12 := 0; u_min := big30; u_max := - big30;
     u_plus := 0; u_moins := 0; u_zero := 0 |}.
Definition multi_step (hasSel hasW : bool) (i1 i2 : nat) (st : multi_st) (r : row) : multi_st :=
  if is_active hasSel r then
    match nth i1 (r_vals r) None, nth i2 (r_vals r) None with
    | Some a, Some b =>
        let w := get_weight hasW r in
        {| u_num := Qred (u_num st + w); u_m1 := Qred (u_m1 st + w * a); u_m2 := Qred (u_m2 st + w * b);
           u_v1 := Qred (u_v1 st + w * a * a); u_v2 := Qred (u_v2 st + w * b * b); u_v12 := Qred (u_v12 st + w * a * b);
           u_min := if qltb a (u_min st) then a else u_min st;
           u_max := if qltb (u_max st) a then a else u_max st;
           u_plus := if qltb 0 a then S (u_plus st) else u_plus st;
           u_moins := if qltb a 0 then S (u_moins st) else u_moins st;
           u_zero := if qeqb a 0 then S (u_zero st) else u_zero st |}
    | _, _ => st
    end
  else st.
Definition multi_loop (hasSel hasW : bool) (i1 i2 : nat) (l : list row) : multi_st :=
  fold_left (multi_step hasSel hasW i1 i2) l multi_init.
Record multi_out := { x_num : Q; x_mean : oq; x_var : oq; x_min : oq; x_max : oq; x_plus : option nat; x_moins : option nat; x_zero : option nat }.
Definition multi_finish (st : multi_st) : multi_out :=
  if qleb (u_num st) 0 then
    {| x_num := u_num st; x_mean := None; x_var := None; x_min := None; x_max := None; x_plus := None; x_moins := None; x_zero := None |}
  else
    let m1 := u_m1 st / u_num st in let m2 := u_m2 st / u_num st in
    {| x_num := u_num st; x_mean := Some m1; x_var := Some (u_v12 st / u_num st - m1 * m2);
       x_min := Some (u_min st); x_max := Some (u_max st);
       x_plus := Some (u_plus st); x_moins := Some (u_moins st); x_zero := Some (u_zero st) |}.
Definition stat_multi (hasSel hasW : bool) (i1 i2 : nat) (l : list row) : multi_out :=
  multi_finish (multi_loop hasSel hasW i1 i2 l).

(* ------------------------------------------------------------------ Db::getRanksActive *)
Definition dummy_row : row := {| r_sel := None; r_w := None; r_coords := []; r_vals := []; r_verr := [] |}.
Definition nth_row (db : list row) (i : nat) : row := nth i db dummy_row.
Definition verr_pass (item : nat) (r : row) : bool :=
  match nth item (r_verr r) None with None => false | Some v => negb (qltb v 0) end.
(* nz = number of Z locators, nv = number of V locators; item : Z (negative = none).
   "if (icol >= 0) { if (! isActive(iech)) continue; }"  then  "if (useCoord) { ... FFFF(getCoordinate) ... continue; }" *)
Definition ranks_active (hasSel : bool) (nz nv : nat) (nbgh : list nat) (item : Z) (useSel useVerr useCoord : bool)
                        (db : list row) : list nat :=
  let init := match nbgh with [] => seq 0 (length db) | _ => nbgh end in
  let icol := useSel && hasSel in
  let item' := if (nz =? 0)%nat then (-1)%Z else item in
  let useV := useVerr && (0 <=? item')%Z && (Z.to_nat item' <? nv)%nat in
  filter (fun iech =>
            let r := nth_row db iech in
            (negb icol || is_active hasSel r) &&
            (negb useCoord || coords_defined r) &&
            ((item' <? 0)%Z || isdef (nth (Z.to_nat item') (r_vals r) None)) &&
            (negb useV || verr_pass (Z.to_nat item') r)) init.
Definition multiple_ranks_active (hasSel : bool) (nz nv : nat) (ivars : list nat) (nbgh : list nat) (useSel useVerr useCoord : bool)
                                 (db : list row) : list (list nat) :=
  let jvars := match ivars with [] => seq 0 nz | _ => ivars end in
  map (fun jv => ranks_active hasSel nz nv nbgh (Z.of_nat jv) useSel useVerr useCoord db) jvars.

(* ------------------------------------------------------------------ matrices built on the index lists *)
(* rows: for ivar, for iech in index1[ivar]; columns: for jvar, for jech in index2[jvar] *)
Definition mat_on {A} (ivars jvars : list nat) (index1 index2 : list (list nat)) (f : nat -> nat -> nat -> nat -> A)
  : list (list A) :=
  flat_map (fun vi : nat * list nat =>
              map (fun iech =>
                     flat_map (fun vj : nat * list nat => map (fun jech => f (fst vi) iech (fst vj) jech) (snd vj))
                              (combine jvars index2))
                  (snd vi))
           (combine ivars index1).
Section Matrices.
  Variable cov : nat -> nat -> nat -> nat -> Q.        (* cov ivar iech jvar jech : value of eval(p1,p2,ivar,jvar) *)
  Variable drift : nat -> nat -> nat -> Q.             (* drift ivar iech jb : evalDriftValue *)
  Variable hasSel : bool. Variable nz nv : nat.
  (* ACov::evalCovMatrix(db1, db2 = db1, ivars, jvars): getMultipleRanksActive(ivars, nbgh, true, false, true) *)
  Definition cov_matrix (ivars jvars : list nat) (db : list row) : list (list Q) :=
    mat_on ivars jvars (multiple_ranks_active hasSel nz nv ivars [] true false true db)
           (multiple_ranks_active hasSel nz nv jvars [] true false true db) cov.
  (* evalCovMatrixSymmetric: (ivars, nbgh, true, true, true) (the measurement-error update of the diagonal is not modelled) *)
  Definition cov_matrix_sym (ivars : list nat) (db : list row) : list (list Q) :=
    mat_on ivars ivars (multiple_ranks_active hasSel nz nv ivars [] true true true db)
           (multiple_ranks_active hasSel nz nv ivars [] true true true db) cov.
  (* evalDriftMatrix (not linked): getMultipleRanksActive(ivars, nbgh, true, useVerr, true);
     one row per (ivar, iech in index[ivar]), columns jb = 0..ncols-1 *)
  Definition drift_matrix (ivars : list nat) (ncols : nat) (useVerr : bool) (db : list row) : list (list Q) :=
    flat_map (fun vi : nat * list nat => map (fun iech => map (fun jb => drift (fst vi) iech jb) (seq 0 ncols)) (snd vi))
             (combine ivars (multiple_ranks_active hasSel nz nv ivars [] true useVerr true db)).
End Matrices.

(* ------------------------------------------------------------------ output initialisation + target loop *)
(* a target row: active flag and its cells (pre-existing columns first) *)
Record trow := { t_active : bool; t_cells : list oq }.
(* addColumnsByConstant(nnew, TEST) *)
Definition add_columns (nnew : nat) (t : trow) : trow :=
  {| t_active := t_active t; t_cells := t_cells t ++ repeat None nnew |}.
(* one call of KrigingSystem::estimate(iech_out): nothing happens at an inactive target, otherwise the nnew cells
   after the nold pre-existing ones are overwritten with the result [res] (None entries = TEST results) *)
Definition estimate_at (nold : nat) (res : list oq) (t : trow) : trow :=
  if t_active t then {| t_active := true; t_cells := firstn nold (t_cells t) ++ res |} else t.
Definition run_targets (nold nnew : nat) (est : nat -> list oq) (ts : list trow) : list trow :=
  map (fun it => estimate_at nold (est (fst it)) (add_columns nnew (snd it))) (combine (seq 0 (length ts)) ts).

(* ------------------------------------------------------------------ turning bands: which samples count *)
(* _isSampleUsable: coordinates defined and, when the Db carries variables, at least one of them defined *)
Definition simu_usable (nz : nat) (r : row) : bool :=
  coords_defined r && ((nz =? 0)%nat || existsb isdef (r_vals r)).
(* _minmax on a set of points, one band: extent [tmin, tmax] of the projections (proj = _codirs[ibs].projectPoint) of
   the samples that are active and usable *)
Definition band_step (hasSel : bool) (nz : nat) (proj : row -> Q) (st : Q * Q) (r : row) : Q * Q :=
  if is_active hasSel r && simu_usable nz r then
    let t := proj r in
    (if qltb t (fst st) then t else fst st, if qltb (snd st) t then t else snd st)
  else st.
Definition band_minmax (hasSel : bool) (nz : nat) (proj : row -> Q) (init : Q * Q) (l : list row) : Q * Q :=
  fold_left (band_step hasSel nz proj) l init.
(* _simulatePoint: the non-conditional simulation is computed at the samples of activeArray only *)
Definition simu_active_array (hasSel : bool) (nz : nat) (l : list row) : list bool :=
  map (fun r => is_active hasSel r && simu_usable nz r) l.

(* the output variables of a simulation are created with 0 (values are accumulated band after band at the active
   targets), and the last step of _run writes TEST at every masked target *)
Definition simu_at (nold nnew : nat) (res : list oq) (t : trow) : trow :=
  let t0 := {| t_active := t_active t; t_cells := t_cells t ++ repeat (Some 0) nnew |} in        (* _addVariableDb(.., 0.) *)
  let t1 := if t_active t then {| t_active := true; t_cells := firstn nold (t_cells t0) ++ res |} else t0 in
  if t_active t1 then t1 else {| t_active := false; t_cells := firstn nold (t_cells t1) ++ repeat None nnew |}.
Definition run_simu_targets (nold nnew : nat) (sim : nat -> list oq) (ts : list trow) : list trow :=
  map (fun it => simu_at nold nnew (sim (fst it)) (snd it)) (combine (seq 0 (length ts)) ts).

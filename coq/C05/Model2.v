(* C05 model, second part: further algorithms that read samples through the selection / definedness filters
     CalcSimpleInterpolation::_pointInvdist (exponent 2)      /repo/src/Estimation/CalcSimpleInterpolation.cpp:599
     CalcMigrate::_expandPointToPoint (nearest sample)        /repo/src/Calculators/CalcMigrate.cpp:2019
     regression (mode 0) + _regressionLoad                    /repo/src/Stats/Regression.cpp:252 / 134
     dbStatisticsPerCell (accumulation loop)                  /repo/src/Stats/Classical.cpp:1353
   (movingAverage / movingMedian / nearestNeighbor / leastSquares are functions of the samples returned by the
   neighbourhood search: they are covered through the C06 model, theorem C05_neigh_values.)
   Executable definitions only; exact rational arithmetic on squared distances; None = TEST. *)
From Coq Require Import List Arith ZArith QArith Qabs Bool.
From Gst Require Import lib.QAux lib.LinAlgQ C05.Model.
Import ListNotations.
Local Open Scope Q_scope.

(* squared distance between a target and a sample; None when a coordinate of the sample is undefined *)
Fixpoint sqdist (t : list Q) (c : list oq) : option Q :=
  match t, c with
  | x :: t', Some y :: c' => match sqdist t' c' with Some d => Some ((x - y) * (x - y) + d) | None => None end
  | _ :: _, None :: _ => None
  | _, _ => Some 0
  end.
Definition zval0 (r : row) : oq := nth 0 (r_vals r) None.

(* ------------------------------------------------------------------ inverse (squared) distance *)
(* state of the loop over the data of one target: exact hit ("dist < dmin": the datum alone, weight 1, break) or the two sums *)
Record idw_st := { i_hit : option Q; i_sw : Q; i_swz : Q; i_n : nat }.
Definition idw_init : idw_st := {| i_hit := None; i_sw := 0; i_swz := 0; i_n := 0 |}.
Definition idw_step (hasSel : bool) (dmin2 : Q) (dmax2 : option Q) (t : list Q) (st : idw_st) (r : row) : idw_st :=
  match i_hit st with
  | Some _ => st                                              (* after the break *)
  | None =>
      if negb (is_active hasSel r) then st                    (* if (!dbin->isActive(iech_in)) continue; *)
      else match zval0 r with
           | None => st                                       (* if (FFFF(val_neigh)) continue; *)
           | Some z =>
               match sqdist t (r_coords r) with
               | None => st                                   (* distance of the order of 1e30: weight below 1e-60, dropped *)
               | Some d2 =>
                   if match dmax2 with Some m => qltb m d2 | None => false end then st
                   else if qltb d2 dmin2 then {| i_hit := Some z; i_sw := i_sw st; i_swz := i_swz st; i_n := i_n st |}
                   else {| i_hit := None; i_sw := Qred (i_sw st + / d2); i_swz := Qred (i_swz st + z / d2); i_n := S (i_n st) |}
               end
           end
  end.
Definition idw_loop hasSel dmin2 dmax2 t (l : list row) : idw_st := fold_left (idw_step hasSel dmin2 dmax2 t) l idw_init.
(* _saveResults: TEST when no neighbour; weights normalised to 1 *)
Definition idw_result (st : idw_st) : oq :=
  match i_hit st with
  | Some z => Some z
  | None => match i_n st with O => None | S _ => Some (i_swz st / i_sw st) end
  end.
Definition invdist hasSel dmin2 dmax2 t l : oq := idw_result (idw_loop hasSel dmin2 dmax2 t l).
Definition idw_usable (hasSel : bool) (r : row) : bool := is_active hasSel r && isdef (zval0 r).

(* ------------------------------------------------------------------ migration point -> point (nearest active sample with a value) *)
(* distmin = 1e30; "if (!db1->isActive(iech1)) continue; if (FFFF(db1->getArray(iech1, iatt))) continue;" then
   "if (dist < distmin)": the first of the nearest samples wins *)
Record near_st := { n_d : Q; n_v : option oq }.        (* n_v = None: no sample found (iechmin < 0) *)
Definition near_init : near_st := {| n_d := big30 * big30; n_v := None |}.
Definition near_step (hasSel : bool) (dmax2 : option Q) (t : list Q) (st : near_st) (r : row) : near_st :=
  if negb (is_active hasSel r) then st
  else if negb (isdef (zval0 r)) then st
  else match sqdist t (r_coords r) with
       | None => st                                           (* distance ~1e30, never below distmin = 1e30 *)
       | Some d2 =>
           if match dmax2 with Some m => qltb m d2 | None => false end then st
           else if qltb d2 (n_d st) then {| n_d := d2; n_v := Some (zval0 r) |} else st
       end.
Definition migrate_value hasSel dmax2 t (l : list row) : oq :=
  match n_v (fold_left (near_step hasSel dmax2 t) l near_init) with Some v => v | None => None end.
(* the loop as it was before the correction e745a596c (regression examples only): the value copied could be undefined *)
Definition near_step_old (hasSel : bool) (dmax2 : option Q) (t : list Q) (st : near_st) (r : row) : near_st :=
  if negb (is_active hasSel r) then st
  else match sqdist t (r_coords r) with
       | None => st
       | Some d2 =>
           if match dmax2 with Some m => qltb m d2 | None => false end then st
           else if qltb d2 (n_d st) then {| n_d := d2; n_v := Some (zval0 r) |} else st
       end.
Definition migrate_value_old hasSel dmax2 t (l : list row) : oq :=
  match n_v (fold_left (near_step_old hasSel dmax2 t) l near_init) with Some v => v | None => None end.

(* ------------------------------------------------------------------ regression, mode 0 *)
(* variable 0 of the row = response, the others = explanatory variables *)
Definition regr_x (cst : bool) (r : row) : list oq := (if cst then [Some 1] else []) ++ tl (r_vals r).
Fixpoint all_def (l : list oq) : option (list Q) :=
  match l with
  | [] => Some []
  | Some x :: t => match all_def t with Some xs => Some (x :: xs) | None => None end
  | None :: _ => None
  end.
Record regr_st := { g_num : nat; g_prod : Q; g_mean : Q; g_b : list Q; g_a : list (list Q) }.
Definition regr_init (size : nat) : regr_st :=
  {| g_num := 0; g_prod := 0; g_mean := 0; g_b := repeat 0 size; g_a := repeat (repeat 0 size) size |}.
Definition regr_step (hasSel cst : bool) (st : regr_st) (r : row) : regr_st :=
  if negb (is_active hasSel r) then st
  else match zval0 r, all_def (regr_x cst r) with
       | Some v, Some x =>
           {| g_num := S (g_num st); g_prod := Qred (g_prod st + v * v); g_mean := Qred (g_mean st + v);
              g_b := map (fun p => Qred (fst p + v * snd p)) (combine (g_b st) x);
              g_a := map (fun p => map (fun q => Qred (fst q + snd p * snd q)) (combine (fst p) x)) (combine (g_a st) x) |}
       | _, _ => st                                            (* _regressionLoad returns true: continue *)
       end.
Definition regr_acc (hasSel cst : bool) (naux : nat) (l : list row) : regr_st :=
  fold_left (regr_step hasSel cst) l (regr_init ((if cst then 1 else 0) + naux)%nat).
(* the coefficients: exact solution of the normal equations, accepted only after A.x = b has been checked *)
Definition regr_coeffs (st : regr_st) : option (list Q) :=
  match g_num st with
  | O => None
  | S _ =>
      let n := length (g_b st) in
      match solve_checked n 1 (g_a st) (map (fun v => [v]) (g_b st)) with
      | Some X => Some (map (fun rw => nth 0 rw 0) X)
      | None => None
      end
  end.
Definition regr_usable (hasSel cst : bool) (r : row) : bool :=
  is_active hasSel r && isdef (zval0 r) && match all_def (regr_x cst r) with Some _ => true | None => false end.

(* ------------------------------------------------------------------ statistics per cell *)
(* cell : the grid cell that contains the sample (coordinateToRank), None when outside; one accumulator per cell *)
Record cell_st := { c_nn : nat; c_s1 : Q; c_v1 : Q; c_min : oq; c_max : oq }.
Definition cell_init : cell_st := {| c_nn := 0; c_s1 := 0; c_v1 := 0; c_min := None; c_max := None |}.
Definition cell_add (c : cell_st) (z : Q) : cell_st :=
  {| c_nn := S (c_nn c); c_s1 := Qred (c_s1 c + z); c_v1 := Qred (c_v1 c + z * z);
     c_min := match c_min c with Some m => Some (if qltb z m then z else m) | None => Some z end;
     c_max := match c_max c with Some m => Some (if qltb m z then z else m) | None => Some z end |}.
Fixpoint upd_cell (k : nat) (f : cell_st -> cell_st) (l : list cell_st) : list cell_st :=
  match l with [] => [] | c :: t => match k with O => f c :: t | S k' => c :: upd_cell k' f t end end.
Definition percell_step (hasSel : bool) (cell : row -> option nat) (acc : list cell_st) (r : row) : list cell_st :=
  if negb (is_active hasSel r) then acc
  else match zval0 r with
       | None => acc
       | Some z => match cell r with Some k => upd_cell k (fun c => cell_add c z) acc | None => acc end
       end.
Definition percell (hasSel : bool) (cell : row -> option nat) (ncell : nat) (l : list row) : list cell_st :=
  fold_left (percell_step hasSel cell) l (repeat cell_init ncell).

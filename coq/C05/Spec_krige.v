(* C05 spec on the C01 kriging model: physical removal of the samples that give no equation. *)
From Coq Require Import List Arith ZArith QArith Bool.
From Gst Require Import lib.QAux lib.LinAlgQ C01.Model C05.Reindex.
Import ListNotations.

(* a sample gives at least one equation iff its coordinates and external drifts are defined (sample_ok, the
   first two loops and the external-drift loop of _flagDefine) and one of its variables is defined *)
Definition keep_sample (k : kcase) (s : sample) : bool :=
  sample_ok k s && existsb (fun iv => defined (nth iv (s_z s) None)) (seq 0 (k_nvar k)).

(* ranks (in the neighbourhood) of the samples kept, in increasing order *)
Definition kkept (k : kcase) : list nat := kidx (fun i => keep_sample k (nth_s k i)) (nech k).

(* the kriging case of the reduced data set: samples, and the covariance oracles of the kept samples / pairs *)
Definition kreduce (k : kcase) : kcase :=
  let K := kkept k in
  {| k_nvar := k_nvar k; k_monos := k_monos k; k_nfex := k_nfex k;
     k_samples := map (nth_s k) K;
     k_means := k_means k; k_tcoord := k_tcoord k; k_tfext := k_tfext k; k_flag_verr := k_flag_verr k;
     k_clhs := map (fun a => map (fun b => clhs_at k (ren K a) (ren K b)) (seq 0 (S a))) (seq 0 (length K));
     k_crhs := map (fun i => nth i (k_crhs k) []) K;
     k_c00 := k_c00 k |}.

(* equation i' of the reduced case is equation [eqren k i'] of the original one:
   datum (sample a, variable iv) |-> (sample K[a], variable iv);  drift equation ib |-> drift equation ib *)
Definition eqren (k : kcase) (i' : nat) : nat :=
  let K := kkept k in let n' := length K in let n := nech k in
  if Nat.ltb i' (k_nvar k * n') then ren K (i' mod n') + (i' / n') * n
  else i' - k_nvar k * n' + k_nvar k * n.

(* per-variable view: the value of variable ivar at sample iech is absent *)
Definition value_absent (k : kcase) (iech ivar : nat) : Prop := nth ivar (s_z (nth_s k iech)) None = None.

(* C05 spec on the C06 moving-neighbourhood model: physical removal of the samples that can never be candidates. *)
From Coq Require Import List Arith ZArith QArith Bool.
From Gst Require Import lib.QAux C06.Model C06.Spec C05.Reindex.
Import ListNotations.

(* masked samples (isActive) and samples where every variable is undefined (_discardUndefined) *)
Definition nkeep (s : sample) : bool := s_active s && negb (discard_undefined s).
Definition nreduce (samples : list sample) : list sample := filter nkeep samples.
(* ranks of the kept samples in the original Db *)
Definition nkept (samples : list sample) : list nat :=
  kidx (fun i => nkeep (nth i samples dummy_sample)) (length samples).
(* a candidate of the reduced Db seen in the original Db: same distance and sector, rank renamed *)
Definition cren (K : list nat) (c : cand) : cand := {| c_idx := ren K (c_idx c); c_d2 := c_d2 c; c_sect := c_sect c |}.
Definition stren (K : list nat) (ca : cand * bool) : cand * bool := (cren K (fst ca), snd ca).

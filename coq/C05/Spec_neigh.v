(* C05 spec on the C06 moving-neighbourhood model: physical removal of the samples that can never be candidates. *)
From Coq Require Import List Arith ZArith QArith Bool.
From Gst Require Import lib.QAux C06.Model C06.Spec C05.Reindex.
Import ListNotations.

(* masked samples (isActive) and samples where every variable is undefined (_discardUndefined) *)
Definition nkeep (s : sample) : bool := s_active s && negb (discard_undefined s).
Definition nreduce (samples : list sample) : list sample := filter nkeep samples.
(* ranks of the kept samples in the original Db *)
Definition nkept (samples : list sample) : list nat :=
  kidx (fun i => nkeep (nth i samples dummy_sample)) (length samples).
(* a candidate of the reduced Db seen in the original Db: same distance and sector, rank renamed *)
Definition cren (K : list nat) (c : cand) : cand := {| c_idx := ren K (c_idx c); c_d2 := c_d2 c; c_sect := c_sect c |}.
Definition stren (K : list nat) (ca : cand * bool) : cand * bool := (cren K (fst ca), snd ca).

(* ---- samples whose coordinates / external drifts may be undefined (the C06 model has total coordinates and no external drift) ----
   The corrected ANeigh::_discardUndefined returns 1 (discard) first of all when a coordinate or an external drift of the
   sample is undefined; it is called right after the isActive test in NeighUnique::_unique and NeighMoving::_moving,
   before any coordinate is read.  Such a sample is rendered in the C06 model as an inactive one. *)
Definition odef (o : option Q) : bool := match o with Some _ => true | None => false end.
Record nrow := { n_coords : list (option Q); n_fext : list (option Q); n_s : sample }.
Definition nembed (x : nrow) : sample :=
  {| s_active := s_active (n_s x) && forallb odef (n_coords x) && forallb odef (n_fext x);
     s_coords := map (fun o => match o with Some v => v | None => 0%Q end) (n_coords x);
     s_vars := s_vars (n_s x); s_code := s_code (n_s x) |}.
Definition nusable (x : nrow) : bool := nkeep (nembed x).

(* C05 spec (self-contained part): what "physically removing" the unusable samples means for a table of rows. *)
From Coq Require Import List Arith ZArith QArith Bool.
From Gst Require Import lib.QAux C05.Reindex C05.Model.
Import ListNotations.
Local Open Scope Q_scope.

(* Db::createReduce without explicit ranks: the masked samples are dropped *)
Definition reduce_rows (hasSel : bool) (l : list row) : list row := filter (is_active hasSel) l.
(* ... and, for a statistic on one variable, the samples where that variable (or, with flagIso, any variable) is undefined *)
Definition usable_for (hasSel iso : bool) (iv : nat) (r : row) : bool :=
  accept hasSel iso r && isdef (nth iv (r_vals r) None).
Definition reduce_var (hasSel iso : bool) (iv : nat) (l : list row) : list row := filter (usable_for hasSel iso iv) l.
(* for a two-variable cell of dbStatisticsMulti *)
Definition usable_for2 (hasSel : bool) (i1 i2 : nat) (r : row) : bool :=
  is_active hasSel r && isdef (nth i1 (r_vals r) None) && isdef (nth i2 (r_vals r) None).
Definition reduce_var2 (hasSel : bool) (i1 i2 : nat) (l : list row) : list row := filter (usable_for2 hasSel i1 i2) l.

(* the same reduction seen through ranks: kept ranks K and the sub-table on K.  With useCoord (covariance and drift
   matrices) the samples without coordinates are removed as well *)
Definition row_kept (hasSel useCoord : bool) (r : row) : bool :=
  is_active hasSel r && (negb useCoord || coords_defined r).
Definition kept_rows (hasSel useCoord : bool) (db : list row) : list nat :=
  kidx (fun i => row_kept hasSel useCoord (nth_row db i)) (length db).
Definition reduce_db (hasSel useCoord : bool) (db : list row) : list row := lsub dummy_row (kept_rows hasSel useCoord db) db.

(* turning bands: the samples that count *)
Definition simu_kept (hasSel : bool) (nz : nat) (r : row) : bool := is_active hasSel r && simu_usable nz r.
Definition reduce_simu (hasSel : bool) (nz : nat) (l : list row) : list row := filter (simu_kept hasSel nz) l.

(* targets: the state of the output Db before the calculation *)
Definition old_cells (t : trow) : list oq := t_cells t.

(* C05 proofs, second part *)
From Coq Require Import List Arith ZArith QArith Qabs Bool Lia.
From Gst Require Import lib.QAux lib.LinAlgQ C05.Reindex C05.Model C05.Spec C05.Model2.
Import ListNotations.
Local Open Scope Q_scope.

Lemma idw_step_skip hasSel dmin2 dmax2 t st r : idw_usable hasSel r = false -> idw_step hasSel dmin2 dmax2 t st r = st.
Proof.
  unfold idw_usable, idw_step. intro H. destruct (i_hit st); [reflexivity|].
  destruct (is_active hasSel r); cbn [negb andb] in *; [|reflexivity].
  destruct (zval0 r); cbn [isdef] in H; [discriminate|reflexivity].
Qed.
Lemma invdist_reduce hasSel dmin2 dmax2 t l :
  invdist hasSel dmin2 dmax2 t l = invdist hasSel dmin2 dmax2 t (filter (idw_usable hasSel) l) /\
  invdist hasSel dmin2 dmax2 t l = invdist hasSel dmin2 dmax2 t (reduce_rows hasSel l).
Proof.
  unfold invdist, idw_loop, reduce_rows. split; f_equal; apply fold_left_skip; intros st r H.
  - apply idw_step_skip. exact H.
  - unfold idw_step. rewrite H. destruct (i_hit st); reflexivity.
Qed.
(* nothing usable: the undefined value *)
Lemma invdist_none hasSel dmin2 dmax2 t l : (forall r, In r l -> idw_usable hasSel r = false) -> invdist hasSel dmin2 dmax2 t l = None.
Proof.
  intro H. rewrite (proj1 (invdist_reduce hasSel dmin2 dmax2 t l)).
  assert (E : filter (idw_usable hasSel) l = []).
  { induction l as [|x r IH]; [reflexivity|]. cbn [filter]. rewrite (H x) by (left; reflexivity). apply IH. intros y Hy. apply H. right; exact Hy. }
  rewrite E. reflexivity.
Qed.

Lemma migrate_reduce hasSel dmax2 t l :
  migrate_value hasSel dmax2 t l = migrate_value hasSel dmax2 t (reduce_rows hasSel l) /\
  migrate_value hasSel dmax2 t l = migrate_value hasSel dmax2 t (filter (idw_usable hasSel) l).
Proof.
  unfold migrate_value, reduce_rows. split.
  - rewrite (fold_left_skip (near_step hasSel dmax2 t) (is_active hasSel) l near_init); [reflexivity|].
    intros st r H. unfold near_step. rewrite H. reflexivity.
  - rewrite (fold_left_skip (near_step hasSel dmax2 t) (idw_usable hasSel) l near_init); [reflexivity|].
    intros st r H. unfold near_step. unfold idw_usable in H.
    destruct (is_active hasSel r); cbn [negb andb] in *; [|reflexivity]. rewrite H. reflexivity.
Qed.
(* the value migrated is never undefined when some sample is found *)
Lemma near_defined hasSel dmax2 t l st :
  (forall v, n_v st = Some v -> isdef v = true) ->
  forall v, n_v (fold_left (near_step hasSel dmax2 t) l st) = Some v -> isdef v = true.
Proof.
  revert st. induction l as [|r rest IH]; intros st H; [exact H|]. cbn [fold_left]. apply IH.
  unfold near_step. destruct (is_active hasSel r); cbn [negb]; [|exact H].
  destruct (isdef (zval0 r)) eqn:D; cbn [negb]; [|exact H].
  destruct (sqdist t (r_coords r)); [|exact H].
  destruct (match dmax2 with Some m => qltb m q | None => false end); [exact H|].
  destruct (qltb q (n_d st)); [|exact H]. cbn [n_v]. intros v E. injection E as E. subst v. exact D.
Qed.
Lemma migrate_old_reduce hasSel dmax2 t l :
  migrate_value_old hasSel dmax2 t l = migrate_value_old hasSel dmax2 t (reduce_rows hasSel l).
Proof.
  unfold migrate_value_old, reduce_rows.
  rewrite (fold_left_skip (near_step_old hasSel dmax2 t) (is_active hasSel) l near_init); [reflexivity|].
  intros st r H. unfold near_step_old. rewrite H. reflexivity.
Qed.

Lemma regr_step_skip hasSel cst st r : regr_usable hasSel cst r = false -> regr_step hasSel cst st r = st.
Proof.
  unfold regr_usable, regr_step. intro H. destruct (is_active hasSel r); cbn [negb andb] in *; [|reflexivity].
  destruct (zval0 r); cbn [isdef andb] in H; [|reflexivity].
  destruct (all_def (regr_x cst r)); [discriminate|reflexivity].
Qed.
Lemma regr_reduce hasSel cst naux l :
  regr_acc hasSel cst naux l = regr_acc hasSel cst naux (filter (regr_usable hasSel cst) l) /\
  regr_acc hasSel cst naux l = regr_acc hasSel cst naux (reduce_rows hasSel l).
Proof.
  unfold regr_acc, reduce_rows. split; apply fold_left_skip; intros st r H.
  - apply regr_step_skip. exact H.
  - unfold regr_step. rewrite H. reflexivity.
Qed.
Lemma regr_count_gen hasSel cst l st :
  g_num (fold_left (regr_step hasSel cst) l st) = (g_num st + length (filter (regr_usable hasSel cst) l))%nat.
Proof.
  revert st. induction l as [|x r IH]; intro st; cbn [fold_left filter length]; [lia|].
  rewrite IH. unfold regr_step, regr_usable. destruct (is_active hasSel x); cbn [negb andb]; [|lia].
  destruct (zval0 x); cbn [isdef andb]; [|lia]. destruct (all_def (regr_x cst x)); cbn [g_num length]; lia.
Qed.
Lemma regr_count hasSel cst naux l : g_num (regr_acc hasSel cst naux l) = length (filter (regr_usable hasSel cst) l).
Proof. unfold regr_acc. rewrite regr_count_gen. reflexivity. Qed.
(* the coefficients returned solve the normal equations exactly *)
Lemma regr_coeffs_solve st x : regr_coeffs st = Some x ->
  forall i, (i < length (g_b st))%nat -> fmv (length (g_b st)) (get (g_a st)) (fun k => nth k x 0) i == nth i (g_b st) 0.
Proof.
  unfold regr_coeffs. destruct (g_num st); [discriminate|].
  destruct (solve_checked (length (g_b st)) 1 (g_a st) (map (fun v => [v]) (g_b st))) as [X|] eqn:E; [|discriminate].
  intro H. injection H as H. subst x. intros i Hi.
  pose proof (solve_checked_correct _ _ _ _ _ E i O Hi Nat.lt_0_1) as S.
  unfold fmul in S. unfold fmv.
  assert (R : get (map (fun v : Q => [v]) (g_b st)) i 0 = nth i (g_b st) 0).
  { unfold get. rewrite (nth_indep _ [] ((fun v : Q => [v]) 0)) by (rewrite map_length; exact Hi).
    rewrite (map_nth (fun v : Q => [v]) (g_b st) 0 i). reflexivity. }
  rewrite R in S. rewrite <- S. apply sumn_ext. intros k Hk.
  assert (G : nth k (map (fun rw : list Q => nth 0 rw 0) X) 0 = get X k 0).
  { unfold get. destruct (Nat.lt_ge_cases k (length X)) as [L|G'].
    - rewrite (nth_indep _ 0 ((fun rw : list Q => nth 0 rw 0) [])) by (rewrite map_length; exact L).
      rewrite (map_nth (fun rw : list Q => nth 0 rw 0) X [] k). reflexivity.
    - rewrite (nth_overflow (map (fun rw : list Q => nth 0 rw 0) X)) by (rewrite map_length; exact G').
      rewrite (nth_overflow X) by exact G'. reflexivity. }
  rewrite G. reflexivity.
Qed.

Lemma percell_reduce hasSel cell ncell l :
  percell hasSel cell ncell l = percell hasSel cell ncell (filter (idw_usable hasSel) l) /\
  percell hasSel cell ncell l = percell hasSel cell ncell (reduce_rows hasSel l).
Proof.
  unfold percell, reduce_rows. split; apply fold_left_skip; intros st r H.
  - unfold percell_step. unfold idw_usable in H. destruct (is_active hasSel r); cbn [negb andb] in *; [|reflexivity].
    destruct (zval0 r); cbn [isdef] in H; [discriminate|reflexivity].
  - unfold percell_step. rewrite H. reflexivity.
Qed.

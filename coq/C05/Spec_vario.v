(* C05 spec on the C12 variogram model: physical removal of the masked samples. *)
From Coq Require Import List ZArith QArith Bool.
From Gst Require Import lib.QAux C12.Model.
Import ListNotations.

Definition vreduce (cf : cfg) (l : list sample) : list sample := filter (is_active cf) l.
(* the reduced Db may keep its (now all-ones) selection column or lose it: both readings are covered *)
Definition cfg_nosel (cf : cfg) : cfg :=
  {| c_calc := c_calc cf; c_hasSel := false; c_hasW := c_hasW cf; c_dateLoop := c_dateLoop cf;
     c_dateChk := c_dateChk cf; c_nvar := c_nvar cf |}.

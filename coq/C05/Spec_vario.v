(* C05 spec on the C12 variogram model: physical removal of the masked samples. *)
From Coq Require Import List ZArith QArith Bool.
From Gst Require Import lib.QAux C12.Model.
Import ListNotations.

Definition vreduce (cf : cfg) (l : list sample) : list sample := filter (is_active cf) l.
(* the reduced Db may keep its (now all-ones) selection column or lose it: both readings are covered *)
Definition cfg_nosel (cf : cfg) : cfg :=
  {| c_calc := c_calc cf; c_hasSel := false; c_hasW := c_hasW cf; c_dateLoop := c_dateLoop cf;
     c_dateChk := c_dateChk cf; c_nvar := c_nvar cf |}.

(* ---- samples whose coordinates may be undefined (the C12 model has total coordinates) ----
   The corrected loops of Vario.cpp test "(hasSel && !isActive) || !_hasCoordinates" wherever they tested the selection:
   a sample without coordinates is treated exactly as a masked one.  It is rendered in the C12 model as a masked sample
   (selection column always consulted); an undefined coordinate reads TEST = 1.234e30, so that such a sample sorts last
   and the 1-D test "x1(jech) - x1(iech) > maxdist" breaks on it, as in the code.
   (The first loop of Vario::_getStatistics - global mean, consumed by the Poisson estimator - follows it as well since
   fixes/C05_7.patch; the check keeps the witness under key vario:undefined-coordinate:mean.) *)
Definition big_test : Q := inject_Z (1234 * 10 ^ 27).
Definition vcfg (cf : cfg) : cfg :=
  {| c_calc := c_calc cf; c_hasSel := true; c_hasW := c_hasW cf; c_dateLoop := c_dateLoop cf;
     c_dateChk := c_dateChk cf; c_nvar := c_nvar cf |}.
Definition has_coords (c : list (option Q)) : bool := forallb (fun o => match o with Some _ => true | None => false end) c.
Definition vusable (cf : cfg) (x : list (option Q) * sample) : bool := is_active cf (snd x) && has_coords (fst x).
Definition vembed (cf : cfg) (x : list (option Q) * sample) : sample :=
  {| s_x := map (fun o => match o with Some v => v | None => big_test end) (fst x);
     s_sel := vusable cf x; s_w := s_w (snd x); s_date := s_date (snd x); s_z := s_z (snd x) |}.

(* ---- grids: a cell cannot be removed; a masked cell must behave as a cell whose variables are all undefined ---- *)
Definition blank (s : sample) : sample :=
  {| s_x := s_x s; s_sel := true; s_w := s_w s; s_date := s_date s; s_z := map (fun _ => None) (s_z s) |}.
Definition gblank (cf : cfg) (s : sample) : sample := if is_active cf s then s else blank s.

(* C05 proofs, self-contained part: statistics, rank lists, covariance / drift matrices, targets *)
From Coq Require Import List Arith ZArith QArith Qabs Bool Lia Lqa Sorted.
From Gst Require Import lib.QAux C05.Reindex C05.Model C05.Spec.
Import ListNotations.
Local Open Scope Q_scope.

(* ------------------------------------------------------------------ statistics *)
Lemma mono_step_skip_masked hasSel iso iv st r : is_active hasSel r = false -> mono_step hasSel iso iv st r = st.
Proof. intro H. unfold mono_step, accept. rewrite H. reflexivity. Qed.
Lemma mono_step_skip_unusable hasSel iso iv st r : usable_for hasSel iso iv r = false -> mono_step hasSel iso iv st r = st.
Proof.
  unfold usable_for, mono_step. destruct (accept hasSel iso r); cbn [andb]; [|reflexivity].
  destruct (nth iv (r_vals r) None); cbn [isdef]; [discriminate|reflexivity].
Qed.

Lemma mono_loop_reduce_rows hasSel iso iv l :
  mono_loop hasSel iso iv l = mono_loop hasSel iso iv (reduce_rows hasSel l).
Proof. unfold mono_loop, reduce_rows. apply fold_left_skip. intros s x. apply mono_step_skip_masked. Qed.
Lemma mono_loop_reduce_var hasSel iso iv l :
  mono_loop hasSel iso iv l = mono_loop hasSel iso iv (reduce_var hasSel iso iv l).
Proof. unfold mono_loop, reduce_var. apply fold_left_skip. intros s x. apply mono_step_skip_unusable. Qed.

(* once the masked rows are gone the selection column is irrelevant *)
Lemma fold_left_ext_in {A S} (f g : S -> A -> S) l s :
  (forall s x, In x l -> f s x = g s x) -> fold_left f l s = fold_left g l s.
Proof.
  revert s. induction l as [|x r IH]; intros s H; [reflexivity|]. cbn [fold_left].
  rewrite (H s x) by (left; reflexivity). apply IH. intros s' y Hy. apply H. right; exact Hy.
Qed.
Lemma mono_loop_nosel hasSel iso iv l :
  (forall r, In r l -> is_active hasSel r = true) -> mono_loop hasSel iso iv l = mono_loop false iso iv l.
Proof.
  intro H. unfold mono_loop. apply fold_left_ext_in. intros s x Hx. unfold mono_step, accept.
  rewrite (H x Hx). reflexivity.
Qed.

Lemma stat_mono_reduce hasSel iso iv l :
  stat_mono hasSel iso iv l = stat_mono hasSel iso iv (reduce_rows hasSel l) /\
  stat_mono hasSel iso iv l = stat_mono false iso iv (reduce_rows hasSel l) /\
  stat_mono hasSel iso iv l = stat_mono hasSel iso iv (reduce_var hasSel iso iv l) /\
  stat_mono hasSel iso iv l = stat_mono false iso iv (reduce_var hasSel iso iv l).
Proof.
  unfold stat_mono. repeat split.
  - rewrite <- mono_loop_reduce_rows. reflexivity.
  - rewrite <- (mono_loop_nosel hasSel iso iv (reduce_rows hasSel l)).
    + rewrite <- mono_loop_reduce_rows. reflexivity.
    + intros r Hr. unfold reduce_rows in Hr. apply filter_In in Hr. tauto.
  - rewrite <- mono_loop_reduce_var. reflexivity.
  - rewrite <- (mono_loop_nosel hasSel iso iv (reduce_var hasSel iso iv l)).
    + rewrite <- mono_loop_reduce_var. reflexivity.
    + intros r Hr. unfold reduce_var in Hr. apply filter_In in Hr. destruct Hr as [_ Hr].
      unfold usable_for, accept in Hr. destruct (is_active hasSel r); [reflexivity|discriminate].
Qed.

(* the count is the number of usable samples *)
Lemma mono_loop_neff_gen hasSel iso iv l st :
  m_neff (fold_left (mono_step hasSel iso iv) l st) = (m_neff st + length (filter (usable_for hasSel iso iv) l))%nat.
Proof.
  revert st. induction l as [|x r IH]; intro st; cbn [fold_left filter length]; [lia|].
  rewrite IH. unfold mono_step, usable_for. destruct (accept hasSel iso x); cbn [andb]; [|lia].
  destruct (nth iv (r_vals x) None); cbn [isdef length m_neff mono_add]; lia.
Qed.
Lemma stat_mono_num hasSel iso iv l : o_num (stat_mono hasSel iso iv l) = length (reduce_var hasSel iso iv l).
Proof.
  unfold stat_mono, mono_finish, mono_loop. pose proof (mono_loop_neff_gen hasSel iso iv l mono_init) as H.
  cbn [m_neff mono_init Nat.add] in H. unfold reduce_var. rewrite <- H.
  destruct (m_neff (fold_left (mono_step hasSel iso iv) l mono_init)); reflexivity.
Qed.

Lemma multi_step_skip hasSel hasW i1 i2 st r : usable_for2 hasSel i1 i2 r = false -> multi_step hasSel hasW i1 i2 st r = st.
Proof.
  unfold usable_for2, multi_step. destruct (is_active hasSel r); cbn [andb]; [|reflexivity].
  destruct (nth i1 (r_vals r) None); cbn [isdef andb]; [|reflexivity].
  destruct (nth i2 (r_vals r) None); cbn [isdef]; [discriminate|reflexivity].
Qed.
Lemma multi_step_skip_masked hasSel hasW i1 i2 st r : is_active hasSel r = false -> multi_step hasSel hasW i1 i2 st r = st.
Proof. intro H. unfold multi_step. rewrite H. reflexivity. Qed.
Lemma stat_multi_reduce hasSel hasW i1 i2 l :
  stat_multi hasSel hasW i1 i2 l = stat_multi hasSel hasW i1 i2 (reduce_rows hasSel l) /\
  stat_multi hasSel hasW i1 i2 l = stat_multi false hasW i1 i2 (reduce_rows hasSel l) /\
  stat_multi hasSel hasW i1 i2 l = stat_multi hasSel hasW i1 i2 (reduce_var2 hasSel i1 i2 l).
Proof.
  unfold stat_multi, multi_loop. repeat split.
  - f_equal. apply fold_left_skip. intros s x. apply multi_step_skip_masked.
  - f_equal. rewrite (fold_left_skip _ (is_active hasSel) l) by (intros s x; apply multi_step_skip_masked).
    apply fold_left_ext_in. intros s x Hx. unfold reduce_rows in Hx. apply filter_In in Hx.
    unfold multi_step. rewrite (proj2 Hx). reflexivity.
  - f_equal. apply fold_left_skip. intros s x. apply multi_step_skip.
Qed.

(* a sample of weight zero adds nothing to the weighted sums (it still takes part in min / max / sign counts) *)
Lemma multi_step_zero_weight hasSel i1 i2 st r a b :
  is_active hasSel r = true -> nth i1 (r_vals r) None = Some a -> nth i2 (r_vals r) None = Some b ->
  get_weight true r == 0 ->
  let st' := multi_step hasSel true i1 i2 st r in
  u_num st' == u_num st /\ u_m1 st' == u_m1 st /\ u_m2 st' == u_m2 st /\ u_v12 st' == u_v12 st.
Proof.
  intros Ha H1 H2 Hw. unfold multi_step. rewrite Ha, H1, H2. cbn [u_num u_m1 u_m2 u_v12].
  rewrite !Qred_correct. rewrite Hw. repeat split; ring.
Qed.

(* ------------------------------------------------------------------ rank lists *)
Definition rank_pred (hasSel : bool) (nz nv : nat) (item : Z) (useSel useVerr useCoord : bool) (r : row) : bool :=
  let icol := useSel && hasSel in
  let item' := if (nz =? 0)%nat then (-1)%Z else item in
  let useV := useVerr && (0 <=? item')%Z && (Z.to_nat item' <? nv)%nat in
  (negb icol || is_active hasSel r) &&
  (negb useCoord || coords_defined r) &&
  ((item' <? 0)%Z || isdef (nth (Z.to_nat item') (r_vals r) None)) &&
  (negb useV || verr_pass (Z.to_nat item') r).

Lemma ranks_active_filter hasSel nz nv item useSel useVerr useCoord db :
  ranks_active hasSel nz nv [] item useSel useVerr useCoord db =
  filter (fun i => rank_pred hasSel nz nv item useSel useVerr useCoord (nth_row db i)) (seq 0 (length db)).
Proof. reflexivity. Qed.

(* whatever the values found in the selection column (0/1, undefined, negative, tiny) *)
Lemma rank_pred_kept hasSel nz nv item useVerr useCoord r :
  rank_pred hasSel nz nv item true useVerr useCoord r = true -> row_kept hasSel useCoord r = true.
Proof.
  unfold rank_pred, row_kept. cbn [andb]. intro H.
  apply andb_true_iff in H. destruct H as [H _]. apply andb_true_iff in H. destruct H as [H _].
  apply andb_true_iff in H. destruct H as [H1 H2]. rewrite H2, andb_true_r.
  destruct hasSel; [exact H1|reflexivity].
Qed.

Lemma nth_row_reduce hasSel uc db a :
  (a < length (kept_rows hasSel uc db))%nat -> nth_row (reduce_db hasSel uc db) a = nth_row db (ren (kept_rows hasSel uc db) a).
Proof. intro H. unfold nth_row, reduce_db. apply nth_lsub. exact H. Qed.

Lemma ranks_active_reduce hasSel nz nv item useVerr useCoord db :
  ranks_active hasSel nz nv [] item true useVerr useCoord db =
  map (ren (kept_rows hasSel useCoord db)) (ranks_active hasSel nz nv [] item true useVerr useCoord (reduce_db hasSel useCoord db)).
Proof.
  rewrite !ranks_active_filter. unfold kept_rows at 1.
  rewrite (filter_sub (fun i => row_kept hasSel useCoord (nth_row db i))
                      (fun i => rank_pred hasSel nz nv item true useVerr useCoord (nth_row db i)) (length db))
    by (intros i Hi H; apply (rank_pred_kept hasSel nz nv item useVerr useCoord _ H)).
  fold (kept_rows hasSel useCoord db). f_equal.
  unfold reduce_db at 2. rewrite length_lsub.
  apply filter_ext_in. intros a Ha. apply in_seq in Ha. rewrite nth_row_reduce by lia. reflexivity.
Qed.

(* the list contains exactly the active samples (with coordinates, when asked) where the variable is defined *)
Lemma ranks_active_spec hasSel nz nv item useCoord db i :
  (0 < nz)%nat -> (0 <= item)%Z ->
  (In i (ranks_active hasSel nz nv [] item true false useCoord db) <->
   (i < length db)%nat /\ is_active_and_defined hasSel (Z.to_nat item) (nth_row db i) = true /\
   (useCoord = true -> coords_defined (nth_row db i) = true)).
Proof.
  intros Hnz Hit. rewrite ranks_active_filter, filter_In, in_seq.
  unfold rank_pred, is_active_and_defined. cbn [andb negb orb].
  destruct (Nat.eqb_spec nz 0) as [E|E]; [lia|].
  assert (Hlt : (item <? 0)%Z = false) by (apply Z.ltb_ge; exact Hit). rewrite Hlt. cbn [orb].
  rewrite andb_true_r.
  set (r := nth_row db i).
  assert (EA : (negb hasSel || is_active hasSel r) = is_active hasSel r) by (destruct hasSel; reflexivity).
  rewrite EA.
  destruct (is_active hasSel r), useCoord, (coords_defined r), (isdef (nth (Z.to_nat item) (r_vals r) None));
    cbn [andb negb orb]; split; intros [H1 H2]; try discriminate; try (destruct H2; discriminate);
    repeat split; try lia; try reflexivity; try (intro; reflexivity); try (intro; discriminate);
    try (destruct H2 as [_ H2]; specialize (H2 eq_refl); discriminate).
Qed.

Lemma ranks_active_sorted hasSel nz nv item useSel useVerr useCoord db :
  StronglySorted lt (ranks_active hasSel nz nv [] item useSel useVerr useCoord db).
Proof. rewrite ranks_active_filter. apply filter_seq_sorted. Qed.

Lemma multiple_ranks_reduce hasSel nz nv ivars useVerr useCoord db :
  multiple_ranks_active hasSel nz nv ivars [] true useVerr useCoord db =
  map (map (ren (kept_rows hasSel useCoord db)))
      (multiple_ranks_active hasSel nz nv ivars [] true useVerr useCoord (reduce_db hasSel useCoord db)).
Proof.
  unfold multiple_ranks_active. rewrite map_map. apply map_ext. intro jv. apply ranks_active_reduce.
Qed.

(* ------------------------------------------------------------------ matrices *)
Lemma combine_map_r {A B C} (f : B -> C) (l1 : list A) (l2 : list B) :
  combine l1 (map f l2) = map (fun p => (fst p, f (snd p))) (combine l1 l2).
Proof.
  revert l2. induction l1 as [|x r IH]; intro l2; [reflexivity|].
  destruct l2 as [|y r2]; [reflexivity|]. cbn [map combine fst snd]. rewrite IH. reflexivity.
Qed.
Lemma flat_map_map {A B C} (f : A -> B) (g : B -> list C) l : flat_map g (map f l) = flat_map (fun x => g (f x)) l.
Proof. induction l as [|x r IH]; [reflexivity|]. cbn [map flat_map]. rewrite IH. reflexivity. Qed.

Lemma mat_on_rename {A} (g : nat -> nat) ivars jvars (index1 index2 : list (list nat)) (f : nat -> nat -> nat -> nat -> A) :
  mat_on ivars jvars (map (map g) index1) (map (map g) index2) f =
  mat_on ivars jvars index1 index2 (fun iv a jv b => f iv (g a) jv (g b)).
Proof.
  unfold mat_on. rewrite !combine_map_r. rewrite flat_map_map. apply flat_map_ext. intros [iv idx]. cbn [fst snd].
  rewrite map_map. apply map_ext. intro a. rewrite flat_map_map. apply flat_map_ext. intros [jv jdx]. cbn [fst snd].
  rewrite map_map. reflexivity.
Qed.

Lemma cov_matrix_reduce cov hasSel nz nv ivars jvars db :
  cov_matrix cov hasSel nz nv ivars jvars db =
  cov_matrix (fun iv a jv b => cov iv (ren (kept_rows hasSel true db) a) jv (ren (kept_rows hasSel true db) b))
             hasSel nz nv ivars jvars (reduce_db hasSel true db).
Proof.
  unfold cov_matrix. rewrite (multiple_ranks_reduce hasSel nz nv ivars false true db).
  rewrite (multiple_ranks_reduce hasSel nz nv jvars false true db). apply mat_on_rename.
Qed.
Lemma cov_matrix_sym_reduce cov hasSel nz nv ivars db :
  cov_matrix_sym cov hasSel nz nv ivars db =
  cov_matrix_sym (fun iv a jv b => cov iv (ren (kept_rows hasSel true db) a) jv (ren (kept_rows hasSel true db) b))
                 hasSel nz nv ivars (reduce_db hasSel true db).
Proof.
  unfold cov_matrix_sym. rewrite (multiple_ranks_reduce hasSel nz nv ivars true true db). apply mat_on_rename.
Qed.
Lemma drift_matrix_reduce drift hasSel nz nv ivars ncols useVerr db :
  drift_matrix drift hasSel nz nv ivars ncols useVerr db =
  drift_matrix (fun iv a jb => drift iv (ren (kept_rows hasSel true db) a) jb) hasSel nz nv ivars ncols useVerr (reduce_db hasSel true db).
Proof.
  unfold drift_matrix. rewrite (multiple_ranks_reduce hasSel nz nv ivars useVerr true db).
  rewrite combine_map_r, flat_map_map. apply flat_map_ext. intros [iv idx]. cbn [fst snd]. rewrite map_map. reflexivity.
Qed.

(* every sample that owns a row of a covariance / drift matrix is active and has all its coordinates *)
Lemma matrix_rows_usable hasSel nz nv ivars useVerr db idx i :
  In idx (multiple_ranks_active hasSel nz nv ivars [] true useVerr true db) -> In i idx ->
  (i < length db)%nat /\ is_active hasSel (nth_row db i) = true /\ coords_defined (nth_row db i) = true.
Proof.
  unfold multiple_ranks_active. intros H Hi. apply in_map_iff in H. destruct H as [jv [E _]]. subst idx.
  rewrite ranks_active_filter in Hi. apply filter_In in Hi. destruct Hi as [Hi H]. apply in_seq in Hi.
  pose proof (rank_pred_kept _ _ _ _ _ _ _ H) as K. unfold row_kept in K. cbn [negb orb] in K.
  apply andb_true_iff in K. split; [lia|exact K].
Qed.

(* the reduced table is the filtered table *)
Lemma reduce_db_filter hasSel uc db : reduce_db hasSel uc db = filter (row_kept hasSel uc) db.
Proof. unfold reduce_db, kept_rows, nth_row. symmetry. apply filter_as_lsub. Qed.
Lemma reduce_db_rows hasSel db : reduce_db hasSel false db = reduce_rows hasSel db.
Proof.
  rewrite reduce_db_filter. unfold reduce_rows. apply filter_ext. intro r. unfold row_kept. cbn [negb orb]. apply andb_true_r.
Qed.

(* ------------------------------------------------------------------ targets *)
Lemma nth_combine_seq {A} (l : list A) d i : (i < length l)%nat -> nth i (combine (seq 0 (length l)) l) (O, d) = (i, nth i l d).
Proof. intro H. rewrite combine_nth by apply seq_length. rewrite seq_nth by exact H. reflexivity. Qed.

Lemma firstn_app_exact {A} (l r : list A) n : length l = n -> firstn n (l ++ r) = l.
Proof. intro H. subst n. rewrite firstn_app, Nat.sub_diag, firstn_all. cbn [firstn]. apply app_nil_r. Qed.
Lemma skipn_app_exact {A} (l r : list A) n : length l = n -> skipn n (l ++ r) = r.
Proof. intro H. subst n. rewrite skipn_app, Nat.sub_diag, skipn_all. reflexivity. Qed.

Lemma run_targets_spec nold nnew est ts it d :
  (it < length ts)%nat -> length (t_cells (nth it ts d)) = nold ->
  let t := nth it ts d in
  let t' := nth it (run_targets nold nnew est ts) d in
  t_active t' = t_active t /\
  firstn nold (t_cells t') = t_cells t /\
  (t_active t = false -> skipn nold (t_cells t') = repeat None nnew) /\
  (t_active t = true -> skipn nold (t_cells t') = est it).
Proof.
  intros Hit Hlen. cbn zeta. unfold run_targets.
  set (F := fun it0 : nat * trow => estimate_at nold (est (fst it0)) (add_columns nnew (snd it0))).
  rewrite (nth_indep _ d (F (O, d))) by (rewrite map_length, combine_length, seq_length; lia).
  rewrite (map_nth F (combine (seq 0 (length ts)) ts) (O, d) it).
  rewrite nth_combine_seq by exact Hit. unfold F. cbn [fst snd].
  set (t := nth it ts d) in *. unfold estimate_at, add_columns. cbn [t_active t_cells].
  destruct (t_active t) eqn:E; cbn [t_active t_cells].
  - rewrite (firstn_app_exact (t_cells t) _ nold Hlen).
    repeat split.
    + apply firstn_app_exact. exact Hlen.
    + discriminate.
    + intros _. apply skipn_app_exact. exact Hlen.
  - repeat split.
    + apply firstn_app_exact. exact Hlen.
    + intros _. apply skipn_app_exact. exact Hlen.
    + discriminate.
Qed.

(* ------------------------------------------------------------------ turning bands *)
Lemma band_minmax_reduce hasSel nz proj init l :
  band_minmax hasSel nz proj init l = band_minmax hasSel nz proj init (reduce_simu hasSel nz l).
Proof.
  unfold band_minmax, reduce_simu. apply fold_left_skip. intros st r H. unfold band_step. unfold simu_kept in H.
  rewrite H. reflexivity.
Qed.
Lemma simu_active_array_spec hasSel nz l i :
  nth i (simu_active_array hasSel nz l) false = true -> is_active hasSel (nth i l dummy_row) = true /\ simu_usable nz (nth i l dummy_row) = true.
Proof.
  unfold simu_active_array. intro H.
  destruct (Nat.lt_ge_cases i (length l)) as [L|G].
  - rewrite (nth_indep _ false ((fun r => is_active hasSel r && simu_usable nz r) dummy_row)) in H by (rewrite map_length; exact L).
    rewrite (map_nth (fun r => is_active hasSel r && simu_usable nz r) l dummy_row i) in H. apply andb_true_iff in H. exact H.
  - rewrite nth_overflow in H by (rewrite map_length; exact G). discriminate.
Qed.

Lemma run_simu_targets_spec nold nnew sim ts it d :
  (it < length ts)%nat -> length (t_cells (nth it ts d)) = nold ->
  let t := nth it ts d in
  let t' := nth it (run_simu_targets nold nnew sim ts) d in
  t_active t' = t_active t /\
  firstn nold (t_cells t') = t_cells t /\
  (t_active t = false -> skipn nold (t_cells t') = repeat None nnew) /\
  (t_active t = true -> skipn nold (t_cells t') = sim it).
Proof.
  intros Hit Hlen. cbn zeta. unfold run_simu_targets.
  set (F := fun it0 : nat * trow => simu_at nold nnew (sim (fst it0)) (snd it0)).
  rewrite (nth_indep _ d (F (O, d))) by (rewrite map_length, combine_length, seq_length; lia).
  rewrite (map_nth F (combine (seq 0 (length ts)) ts) (O, d) it).
  rewrite nth_combine_seq by exact Hit. unfold F. cbn [fst snd].
  set (t := nth it ts d) in *. unfold simu_at. cbn [t_active t_cells].
  destruct (t_active t) eqn:E; cbn [t_active t_cells].
  - rewrite (firstn_app_exact (t_cells t) _ nold Hlen).
    repeat split.
    + apply firstn_app_exact. exact Hlen.
    + discriminate.
    + intros _. apply skipn_app_exact. exact Hlen.
  - rewrite (firstn_app_exact (t_cells t) _ nold Hlen).
    repeat split.
    + apply firstn_app_exact. exact Hlen.
    + intros _. apply skipn_app_exact. exact Hlen.
    + discriminate.
Qed.

(* C05 — property theorems only: a computation on a table with masked / undefined samples equals the same
   computation on the physically reduced table, up to the renaming of ranks.  No bound on the number of samples. *)
From Coq Require Import List Arith ZArith QArith Bool Sorted.
From Gst Require Import lib.QAux C05.Reindex C05.Model C05.Spec C05.Proofs_db.
Import ListNotations.
Local Open Scope Q_scope.

(* ---------------------------------------------------------------------------------------------- statistics *)
(* dbStatisticsMono (count, mean, variance, min, max, sum of variable iv, with or without flagIso):
   unchanged by removing the masked samples (and then the selection column may be dropped), and by removing,
   for that variable, every sample it cannot use *)
Theorem C05_stats : forall hasSel iso iv l,
  stat_mono hasSel iso iv l = stat_mono hasSel iso iv (reduce_rows hasSel l) /\
  stat_mono hasSel iso iv l = stat_mono false iso iv (reduce_rows hasSel l) /\
  stat_mono hasSel iso iv l = stat_mono hasSel iso iv (reduce_var hasSel iso iv l) /\
  stat_mono hasSel iso iv l = stat_mono false iso iv (reduce_var hasSel iso iv l).
Proof. exact stat_mono_reduce. Qed.
Print Assumptions C05_stats.

Theorem C05_stats_count : forall hasSel iso iv l,
  o_num (stat_mono hasSel iso iv l) = length (reduce_var hasSel iso iv l).
Proof. exact stat_mono_num. Qed.
Print Assumptions C05_stats_count.

(* dbStatisticsMulti, cell (i1,i2), weighted *)
Theorem C05_stats_multi : forall hasSel hasW i1 i2 l,
  stat_multi hasSel hasW i1 i2 l = stat_multi hasSel hasW i1 i2 (reduce_rows hasSel l) /\
  stat_multi hasSel hasW i1 i2 l = stat_multi false hasW i1 i2 (reduce_rows hasSel l) /\
  stat_multi hasSel hasW i1 i2 l = stat_multi hasSel hasW i1 i2 (reduce_var2 hasSel i1 i2 l).
Proof. exact stat_multi_reduce. Qed.
Print Assumptions C05_stats_multi.

(* ---------------------------------------------------------------------------------------------- rank lists *)
(* Db::getRanksActive(nbgh = {}, item, useSel = true): exactly the active samples where the variable is defined *)
Theorem C05_ranks_active : forall hasSel nz nv item db i,
  sel_wf hasSel db -> (0 < nz)%nat -> (0 <= item)%Z ->
  (In i (ranks_active hasSel nz nv [] item true false db) <->
   (i < length db)%nat /\ is_active_and_defined hasSel (Z.to_nat item) (nth_row db i) = true).
Proof. exact ranks_active_spec. Qed.
Print Assumptions C05_ranks_active.

(* ... and they are the ranks found in the reduced table, renamed *)
Theorem C05_ranks_reduce : forall hasSel nz nv ivars useVerr db,
  sel_wf hasSel db ->
  multiple_ranks_active hasSel nz nv ivars [] true useVerr db =
  map (map (ren (kept_rows hasSel db))) (multiple_ranks_active hasSel nz nv ivars [] true useVerr (reduce_db hasSel db)).
Proof. exact multiple_ranks_reduce. Qed.
Print Assumptions C05_ranks_reduce.

Theorem C05_reduce_db_is_filter : forall hasSel db, reduce_db hasSel db = reduce_rows hasSel db.
Proof. exact reduce_db_filter. Qed.
Print Assumptions C05_reduce_db_is_filter.

(* the premise sel_wf is needed: getRanksActive tests "value > 0" on the raw selection column whereas isActive
   tests "defined and not zero": with an undefined selection value the sample is masked for isActive and kept by
   getRanksActive (hence by evalCovMatrix*, evalDriftMatrix).  Replayed on the implementation: covmat:selection-NA *)
Definition refute_db : list row :=
  [ {| r_sel := Some 1; r_w := None; r_vals := [Some 1]; r_verr := [] |};
    {| r_sel := None;   r_w := None; r_vals := [Some 2]; r_verr := [] |} ].
Theorem C05_ranks_reduce_refuted : exists db,
  is_active true (nth_row db 1) = false /\ In 1%nat (ranks_active true 1 0 [] 0 true false db) /\
  multiple_ranks_active true 1 0 [0%nat] [] true false db <>
  map (map (ren (kept_rows true db))) (multiple_ranks_active true 1 0 [0%nat] [] true false (reduce_db true db)).
Proof. exists refute_db. vm_compute. repeat split; [right; left; reflexivity|discriminate]. Qed.
Print Assumptions C05_ranks_reduce_refuted.

(* ---------------------------------------------------------------------------------------------- matrices *)
(* ACov::evalCovMatrix[Optim] / evalCovMatrixSymmetric[Optim] / DriftList::evalDriftMatrix: the matrix computed on the
   masked table is the matrix computed on the reduced table (the oracle functions being re-indexed accordingly) *)
Theorem C05_covmat : forall cov hasSel nz nv ivars jvars db,
  sel_wf hasSel db ->
  cov_matrix cov hasSel nz nv ivars jvars db =
  cov_matrix (fun iv a jv b => cov iv (ren (kept_rows hasSel db) a) jv (ren (kept_rows hasSel db) b))
             hasSel nz nv ivars jvars (reduce_db hasSel db).
Proof. exact cov_matrix_reduce. Qed.
Print Assumptions C05_covmat.
Theorem C05_covmat_sym : forall cov hasSel nz nv ivars db,
  sel_wf hasSel db ->
  cov_matrix_sym cov hasSel nz nv ivars db =
  cov_matrix_sym (fun iv a jv b => cov iv (ren (kept_rows hasSel db) a) jv (ren (kept_rows hasSel db) b))
                 hasSel nz nv ivars (reduce_db hasSel db).
Proof. exact cov_matrix_sym_reduce. Qed.
Print Assumptions C05_covmat_sym.
Theorem C05_driftmat : forall drift hasSel nz nv ivars ncols useVerr db,
  sel_wf hasSel db ->
  drift_matrix drift hasSel nz nv ivars ncols useVerr db =
  drift_matrix (fun iv a jb => drift iv (ren (kept_rows hasSel db) a) jb) hasSel nz nv ivars ncols useVerr (reduce_db hasSel db).
Proof. exact drift_matrix_reduce. Qed.
Print Assumptions C05_driftmat.

(* ---------------------------------------------------------------------------------------------- targets *)
(* new output variables are created undefined and estimate() returns at once on a masked target:
   pre-existing cells are untouched everywhere; the new cells hold the undefined value at masked targets
   and the result at active ones *)
Theorem C05_targets : forall nold nnew est ts it d,
  (it < length ts)%nat -> length (t_cells (nth it ts d)) = nold ->
  let t := nth it ts d in
  let t' := nth it (run_targets nold nnew est ts) d in
  t_active t' = t_active t /\
  firstn nold (t_cells t') = t_cells t /\
  (t_active t = false -> skipn nold (t_cells t') = repeat None nnew) /\
  (t_active t = true -> skipn nold (t_cells t') = est it).
Proof. exact run_targets_spec. Qed.
Print Assumptions C05_targets.

(* ---------------------------------------------------------------------------------------------- non-vacuity *)
Definition ex_rows : list row :=
  [ {| r_sel := Some 1; r_w := Some 2;  r_vals := [Some 1; Some 10];  r_verr := [Some 0] |};
    {| r_sel := Some 0; r_w := Some 1;  r_vals := [Some 100; Some 5]; r_verr := [Some 0] |};
    {| r_sel := Some 1; r_w := None;    r_vals := [None; Some 7];     r_verr := [None] |};
    {| r_sel := Some 1; r_w := Some 0;  r_vals := [Some 4; None];     r_verr := [Some 1] |};
    {| r_sel := Some 1; r_w := Some (-1); r_vals := [Some (-3); Some 2]; r_verr := [Some (-1)] |} ].
Example C05_stats_nonvacuous :
  o_num (stat_mono true false 0 ex_rows) = 3%nat /\ o_mean (stat_mono true false 0 ex_rows) = Some (2 # 3) /\
  o_num (stat_mono true true 0 ex_rows) = 2%nat /\
  length (reduce_rows true ex_rows) = 4%nat /\ length (reduce_var true false 0 ex_rows) = 3%nat /\
  o_num (stat_mono false false 0 ex_rows) = 4%nat (* without the filter the masked 100 would count *).
Proof. vm_compute. repeat split; reflexivity. Qed.
Example C05_ranks_nonvacuous :
  sel_pass (nth_row ex_rows 1) = is_active true (nth_row ex_rows 1) /\
  multiple_ranks_active true 2 1 [] [] true false ex_rows = [[0; 3; 4]; [0; 2; 4]]%nat /\
  multiple_ranks_active true 2 1 [0%nat] [] true true ex_rows = [[0; 3]]%nat /\
  kept_rows true ex_rows = [0; 2; 3; 4]%nat /\
  multiple_ranks_active true 2 1 [] [] true false (reduce_db true ex_rows) = [[0; 2; 3]; [0; 1; 3]]%nat.
Proof. vm_compute. repeat split; reflexivity. Qed.
Example C05_targets_nonvacuous :
  run_targets 1 2 (fun it => [Some (inject_Z (Z.of_nat it)); None])
    [ {| t_active := true; t_cells := [Some 5] |}; {| t_active := false; t_cells := [Some 6] |}; {| t_active := true; t_cells := [None] |} ] =
    [ {| t_active := true; t_cells := [Some 5; Some 0; None] |}; {| t_active := false; t_cells := [Some 6; None; None] |};
      {| t_active := true; t_cells := [None; Some 2; None] |} ].
Proof. vm_compute. reflexivity. Qed.

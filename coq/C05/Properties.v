(* C05 — property theorems only: a computation on a table with masked / undefined samples equals the same
   computation on the physically reduced table, up to the renaming of ranks.  No bound on the number of samples.
   Aligned with the corrected code (Db::getRanksActive through isActive + useCoord, _hasCoordinates in Vario.cpp,
   ANeigh::_discardUndefined on coordinates / external drifts, turning-bands _isSampleUsable and masked targets). *)
From Coq Require Import List Arith ZArith QArith Qround Bool Sorted.
From Gst Require Import lib.QAux lib.LinAlgQ C05.Reindex C05.Model C05.Spec C05.Proofs_db.
From Gst Require C01.Model C01.Proofs C06.Model C06.Spec C12.Model.
From Gst Require C12.ModelExt C13.Model C14.L2 C14.TB.
From Gst Require Import C05.Spec_krige C05.Proofs_krige C05.Spec_neigh C05.Proofs_neigh C05.Spec_vario C05.Proofs_vario C05.Proofs_vario_ext.
From Gst Require Import C05.Model2 C05.Proofs2 C05.Spec_simu C05.Proofs_simu.
Import ListNotations.
Local Open Scope Q_scope.

(* ---------------------------------------------------------------------------------------------- statistics *)
(* dbStatisticsMono (count, mean, variance, min, max, sum of variable iv, with or without flagIso):
   unchanged by removing the masked samples (and then the selection column may be dropped), and by removing,
   for that variable, every sample it cannot use *)
Theorem C05_stats : forall hasSel iso iv l,
  stat_mono hasSel iso iv l = stat_mono hasSel iso iv (reduce_rows hasSel l) /\
  stat_mono hasSel iso iv l = stat_mono false iso iv (reduce_rows hasSel l) /\
  stat_mono hasSel iso iv l = stat_mono hasSel iso iv (reduce_var hasSel iso iv l) /\
  stat_mono hasSel iso iv l = stat_mono false iso iv (reduce_var hasSel iso iv l).
Proof. exact stat_mono_reduce. Qed.
Print Assumptions C05_stats.

Theorem C05_stats_count : forall hasSel iso iv l,
  o_num (stat_mono hasSel iso iv l) = length (reduce_var hasSel iso iv l).
Proof. exact stat_mono_num. Qed.
Print Assumptions C05_stats_count.

(* dbStatisticsMulti, cell (i1,i2), weighted *)
Theorem C05_stats_multi : forall hasSel hasW i1 i2 l,
  stat_multi hasSel hasW i1 i2 l = stat_multi hasSel hasW i1 i2 (reduce_rows hasSel l) /\
  stat_multi hasSel hasW i1 i2 l = stat_multi false hasW i1 i2 (reduce_rows hasSel l) /\
  stat_multi hasSel hasW i1 i2 l = stat_multi hasSel hasW i1 i2 (reduce_var2 hasSel i1 i2 l).
Proof. exact stat_multi_reduce. Qed.
Print Assumptions C05_stats_multi.

(* ---------------------------------------------------------------------------------------------- rank lists *)
(* Db::getRanksActive(nbgh = {}, item, useSel = true, useVerr = false, useCoord): exactly the active samples (with all their
   coordinates, when useCoord) where the variable is defined - whatever the values held by the selection column
   (0/1, undefined, negative, below 1e-10): the list reads the selection through isActive() *)
Theorem C05_ranks_active : forall hasSel nz nv item useCoord db i,
  (0 < nz)%nat -> (0 <= item)%Z ->
  (In i (ranks_active hasSel nz nv [] item true false useCoord db) <->
   (i < length db)%nat /\ is_active_and_defined hasSel (Z.to_nat item) (nth_row db i) = true /\
   (useCoord = true -> coords_defined (nth_row db i) = true)).
Proof. exact ranks_active_spec. Qed.
Print Assumptions C05_ranks_active.

(* ... and they are the ranks found in the reduced table (masked samples removed and, with useCoord, samples without
   coordinates), renamed.  No premise on the selection values. *)
Theorem C05_ranks_reduce : forall hasSel nz nv ivars useVerr useCoord db,
  multiple_ranks_active hasSel nz nv ivars [] true useVerr useCoord db =
  map (map (ren (kept_rows hasSel useCoord db)))
      (multiple_ranks_active hasSel nz nv ivars [] true useVerr useCoord (reduce_db hasSel useCoord db)).
Proof. exact multiple_ranks_reduce. Qed.
Print Assumptions C05_ranks_reduce.

Theorem C05_reduce_db_is_filter : forall hasSel useCoord db,
  reduce_db hasSel useCoord db = filter (row_kept hasSel useCoord) db /\ reduce_db hasSel false db = reduce_rows hasSel db.
Proof. intros. split; [apply reduce_db_filter|apply reduce_db_rows]. Qed.
Print Assumptions C05_reduce_db_is_filter.

(* ---------------------------------------------------------------------------------------------- matrices *)
(* ACov::evalCovMatrix[Optim] / evalCovMatrixSymmetric[Optim] / DriftList::evalDriftMatrix (which call getMultipleRanksActive
   with useCoord = true): the matrix computed on the table with masked samples and samples without coordinates is the matrix
   computed on the table where both have been removed (the oracle functions being re-indexed accordingly) *)
Theorem C05_covmat : forall cov hasSel nz nv ivars jvars db,
  cov_matrix cov hasSel nz nv ivars jvars db =
  cov_matrix (fun iv a jv b => cov iv (ren (kept_rows hasSel true db) a) jv (ren (kept_rows hasSel true db) b))
             hasSel nz nv ivars jvars (reduce_db hasSel true db).
Proof. exact cov_matrix_reduce. Qed.
Print Assumptions C05_covmat.
Theorem C05_covmat_sym : forall cov hasSel nz nv ivars db,
  cov_matrix_sym cov hasSel nz nv ivars db =
  cov_matrix_sym (fun iv a jv b => cov iv (ren (kept_rows hasSel true db) a) jv (ren (kept_rows hasSel true db) b))
                 hasSel nz nv ivars (reduce_db hasSel true db).
Proof. exact cov_matrix_sym_reduce. Qed.
Print Assumptions C05_covmat_sym.
Theorem C05_driftmat : forall drift hasSel nz nv ivars ncols useVerr db,
  drift_matrix drift hasSel nz nv ivars ncols useVerr db =
  drift_matrix (fun iv a jb => drift iv (ren (kept_rows hasSel true db) a) jb) hasSel nz nv ivars ncols useVerr (reduce_db hasSel true db).
Proof. exact drift_matrix_reduce. Qed.
Print Assumptions C05_driftmat.

(* no row of these matrices belongs to a masked sample (whatever its selection value) or to a sample without coordinates *)
Theorem C05_matrix_rows_usable : forall hasSel nz nv ivars useVerr db idx i,
  In idx (multiple_ranks_active hasSel nz nv ivars [] true useVerr true db) -> In i idx ->
  (i < length db)%nat /\ is_active hasSel (nth_row db i) = true /\ coords_defined (nth_row db i) = true.
Proof. exact matrix_rows_usable. Qed.
Print Assumptions C05_matrix_rows_usable.

(* ---------------------------------------------------------------------------------------------- targets *)
(* new output variables are created undefined and estimate() returns at once on a masked target:
   pre-existing cells are untouched everywhere; the new cells hold the undefined value at masked targets
   and the result at active ones *)
Theorem C05_targets : forall nold nnew est ts it d,
  (it < length ts)%nat -> length (t_cells (nth it ts d)) = nold ->
  let t := nth it ts d in
  let t' := nth it (run_targets nold nnew est ts) d in
  t_active t' = t_active t /\
  firstn nold (t_cells t') = t_cells t /\
  (t_active t = false -> skipn nold (t_cells t') = repeat None nnew) /\
  (t_active t = true -> skipn nold (t_cells t') = est it).
Proof. exact run_targets_spec. Qed.
Print Assumptions C05_targets.

(* the same for the turning-bands simulations: the variables are created with 0 and accumulated at the active targets,
   the last step of CalcSimuTurningBands::_run writes the undefined value at every masked target *)
Theorem C05_targets_simu : forall nold nnew sim ts it d,
  (it < length ts)%nat -> length (t_cells (nth it ts d)) = nold ->
  let t := nth it ts d in
  let t' := nth it (run_simu_targets nold nnew sim ts) d in
  t_active t' = t_active t /\
  firstn nold (t_cells t') = t_cells t /\
  (t_active t = false -> skipn nold (t_cells t') = repeat None nnew) /\
  (t_active t = true -> skipn nold (t_cells t') = sim it).
Proof. exact run_simu_targets_spec. Qed.
Print Assumptions C05_targets_simu.

(* turning bands: the extent of a band (hence the number of Poisson points drawn along it, hence the random stream) and the
   set of points where the non-conditional simulation is evaluated only depend on the samples that are active, have all
   their coordinates and, when the Db carries variables, at least one defined value *)
Theorem C05_simu_bands : forall hasSel nz proj init l,
  band_minmax hasSel nz proj init l = band_minmax hasSel nz proj init (reduce_simu hasSel nz l).
Proof. exact band_minmax_reduce. Qed.
Print Assumptions C05_simu_bands.
Theorem C05_simu_points : forall hasSel nz l i,
  nth i (simu_active_array hasSel nz l) false = true ->
  is_active hasSel (nth i l dummy_row) = true /\ simu_usable nz (nth i l dummy_row) = true.
Proof. exact simu_active_array_spec. Qed.
Print Assumptions C05_simu_points.

(* ---------------------------------------------------------------------------------------------- kriging (model of C01) *)
(* [kreduce k] physically removes from the neighbourhood every sample that gives no equation (undefined coordinate or
   external drift, or no defined variable) together with its covariance oracles.  As soon as one datum is usable the
   active equations of k are those of the reduced case, renamed by [eqren], and the compressed left-hand side,
   right-hand side and centred data are THE SAME lists *)
Theorem C05_krige_system : forall k : C01.Model.kcase,
  C01.Model.any_data_defined (kreduce k) = C01.Model.any_data_defined k ->
  C01.Model.active k = map (eqren k) (C01.Model.active (kreduce k)) /\
  C01.Model.lhs_c (kreduce k) = C01.Model.lhs_c k /\
  C01.Model.rhs_c (kreduce k) = C01.Model.rhs_c k /\
  C01.Model.zext (kreduce k) = C01.Model.zext k.
Proof.
  intros k H. split; [apply active_kreduce; exact H|]. split; [apply lhs_c_kreduce; exact H|].
  split; [apply rhs_c_kreduce; exact H|apply zext_kreduce; exact H].
Qed.
Print Assumptions C05_krige_system.

(* ... hence kriging fails on both or returns the same weights, dual vector, estimates, variances (no premise:
   when no datum is usable both are refused by _isAuthorized); the weights belong to the renamed equations *)
Theorem C05_krige : forall k : C01.Model.kcase,
  match C01.Model.krige k, C01.Model.krige (kreduce k) with
  | Some o, Some o' => kout_match k o o'
  | None, None => True
  | _, _ => False
  end.
Proof. exact krige_kreduce. Qed.
Print Assumptions C05_krige.

Theorem C05_krige_authorized : forall k : C01.Model.kcase, C01.Model.authorized (kreduce k) = C01.Model.authorized k.
Proof. exact authorized_kreduce. Qed.
Print Assumptions C05_krige_authorized.

(* per variable: an undefined value of one variable at a sample gives no equation for that variable (the sample
   stays for its other variables); a removed sample gives no equation at all *)
Theorem C05_krige_per_variable : forall (k : C01.Model.kcase) iech ivar,
  (iech < C01.Model.nech k)%nat -> (ivar < C01.Model.k_nvar k)%nat ->
  (value_absent k iech ivar -> ~ In (iech + ivar * C01.Model.nech k)%nat (C01.Model.active k)) /\
  (~ In iech (kkept k) -> ~ In (iech + ivar * C01.Model.nech k)%nat (C01.Model.active k)).
Proof. intros k iech ivar H1 H2. split; [apply value_absent_no_equation|apply removed_no_equation]; assumption. Qed.
Print Assumptions C05_krige_per_variable.

(* ---------------------------------------------------------------------------------------------- neighbourhood (model of C06) *)
(* masked samples and samples without any defined variable are never candidates *)
Theorem C05_neigh_never_candidate : forall oracle p t (is : nat * C06.Model.sample),
  nkeep (snd is) = false -> C06.Model.cand_of oracle p t is = None.
Proof. exact cand_of_removed. Qed.
Print Assumptions C05_neigh_never_candidate.

(* the candidates of the Db are those of the reduced Db (same distances and sectors, ranks renamed) *)
Theorem C05_neigh_candidates : forall oracle p t samples,
  C06.Model.cand_loop oracle p t (C06.Model.enum samples) =
  map (cren (nkept samples)) (C06.Model.cand_loop oracle p t (C06.Model.enum (nreduce samples))).
Proof. exact cand_loop_reduce. Qed.
Print Assumptions C05_neigh_candidates.

(* _moving (with or without the cross-validation exclusion, which is one of the parameters p): the selected ranks are
   those selected on the reduced Db, renamed; same sorted state; both searches succeed or both fail (the error CODE may
   differ: "fewer samples than nmini" on the reduced Db where the full one reports "fewer candidates than nmini").
   No premise on ties: the model's stable sort breaks ties by candidate position, which the removal preserves. *)
Theorem C05_neigh : forall oracle p t samples,
  let K := nkept samples in
  let r := C06.Model.moving oracle p t samples in
  let r' := C06.Model.moving oracle p t (nreduce samples) in
  C06.Model.r_ranks r = map (ren K) (C06.Model.r_ranks r') /\
  C06.Model.r_sorted r = map (stren K) (C06.Model.r_sorted r') /\
  (C06.Model.r_code r = 0%Z <-> C06.Model.r_code r' = 0%Z).
Proof. exact moving_reduce. Qed.
Print Assumptions C05_neigh.

(* the literal order of the code perturbs the distance of the isel-th CANDIDATE by distmax*isel*eps: isel is a position in
   the candidate list, not a rank in the Db, so the perturbed sort also commutes with the removal, ties included *)
Theorem C05_neigh_perturbed_sort : forall K eps (r : C06.Model.cand -> Q) l,
  C06.Model.perturb_sort eps r (map (cren K) l) = map (cren K) (C06.Model.perturb_sort eps (fun c => r (cren K c)) l).
Proof. exact perturb_sort_ren. Qed.
Print Assumptions C05_neigh_perturbed_sort.

(* cross-validation = the same search with the exclusion switched on in the parameters, followed by the kriging of
   the selected samples: C05_neigh (any p, in particular p_xvalid p = true) and C05_krige compose *)
Theorem C05_xvalid : forall oracle p t samples, C06.Model.p_xvalid p = true ->
  C06.Model.r_ranks (C06.Model.moving oracle p t samples) =
  map (ren (nkept samples)) (C06.Model.r_ranks (C06.Model.moving oracle p t (nreduce samples))).
Proof. intros oracle p t samples _. exact (proj1 (moving_reduce oracle p t samples)). Qed.
Print Assumptions C05_xvalid.

(* ---------------------------------------------------------------------------------------------- variograms (model of C12) *)
(* Vario::_calculateGeneralSolution1 (with or without dates): the pairs handed to keepPair on the Db with masked samples
   are exactly those of the reduced Db (the stable sort on the first coordinate commutes with the removal; a "break" that
   fires on a masked sample also fires on the next, further, sample); no pair with a masked end gets there *)
Theorem C05_vario_pairs : forall cf d l,
  C12.Model.reached1 cf d (vreduce cf l) = C12.Model.reached1 cf d l /\
  forall p, In p (C12.Model.reached1 cf d l) -> C12.Model.is_active cf (fst p) = true /\ C12.Model.is_active cf (snd p) = true.
Proof.
  intros cf d l. split; [apply reached1_reduce|]. intros p Hp. apply (outer1_active cf _ _ _ p Hp).
Qed.
Print Assumptions C05_vario_pairs.

(* the whole result of one direction (accumulation, scaling, centring, C(0) patch, global means), for every estimator,
   pair-wise (solution 1) and by sample (solution 2) *)
Theorem C05_vario : forall cf flag_sample d l,
  C12.Model.compute_dir cf flag_sample d (vreduce cf l) = C12.Model.compute_dir cf flag_sample d l.
Proof. exact compute_dir_reduce. Qed.
Print Assumptions C05_vario.

(* weights: for the estimators weighted by w1*w2 a pair with a zero-weight end adds exactly nothing to any accumulator
   (not so for the Poisson estimator, which adds -mean/2 per pair, and for the covariogram, weighted by w2 alone) *)
Theorem C05_vario_zero_weight : forall cf d means a b u,
  weight_product_calc (C12.Model.c_calc cf) = true ->
  (C12.Model.get_weight cf a == 0 \/ C12.Model.get_weight cf b == 0) ->
  In u (C12.Model.pair_updates cf d means a b) -> zero_upd u.
Proof. exact pair_updates_zero_weight. Qed.
Print Assumptions C05_vario_zero_weight.

(* ---------------------------------------------------------------------------------------------- samples without coordinates *)
(* The models of C06 and C12 have total coordinates.  The corrected code discards a sample with an undefined coordinate
   (or external drift, for the neighbourhood) at the very place where it discards a masked one; such a sample is
   therefore rendered in those models as a masked one (nembed / vembed, coq/C05/Spec_neigh.v, Spec_vario.v), and the
   theorems below follow (for the variogram this includes the global mean of Vario::_getStatistics since fixes/C05_7.patch;
   regression key vario:undefined-coordinate:mean). *)
Theorem C05_neigh_undefined : forall oracle p t (l : list nrow),
  let K := nkept (map nembed l) in
  let r := C06.Model.moving oracle p t (map nembed l) in
  let r' := C06.Model.moving oracle p t (map nembed (filter nusable l)) in
  C06.Model.r_ranks r = map (ren K) (C06.Model.r_ranks r') /\ (C06.Model.r_code r = 0%Z <-> C06.Model.r_code r' = 0%Z).
Proof. exact moving_reduce_undefined. Qed.
Print Assumptions C05_neigh_undefined.
Theorem C05_neigh_undefined_never_candidate : forall oracle p t i (x : nrow),
  (forallb odef (n_coords x) && forallb odef (n_fext x) = false) -> C06.Model.cand_of oracle p t (i, nembed x) = None.
Proof. exact cand_of_undefined. Qed.
Print Assumptions C05_neigh_undefined_never_candidate.
Theorem C05_vario_undefined : forall cf flag_sample d (l : list (list (option Q) * C12.Model.sample)),
  C12.Model.compute_dir (vcfg cf) flag_sample d (map (vembed cf) (filter (vusable cf) l)) =
  C12.Model.compute_dir (vcfg cf) flag_sample d (map (vembed cf) l).
Proof. exact compute_dir_coords. Qed.
Print Assumptions C05_vario_undefined.

(* ---------------------------------------------------------------------------------------------- further algorithms *)
(* movingAverage / movingMedian / nearestNeighbor / leastSquares (CalcSimpleInterpolation) are functions of the samples
   handed over by the neighbourhood search: whatever is read at the selected ranks is read at the same samples on the
   reduced Db *)
Theorem C05_neigh_values : forall (A : Type) (f : nat -> A) oracle p t samples,
  map f (C06.Model.r_ranks (C06.Model.moving oracle p t samples)) =
  map (fun a => f (ren (nkept samples) a)) (C06.Model.r_ranks (C06.Model.moving oracle p t (nreduce samples))).
Proof. intros A f oracle p t samples. rewrite (proj1 (moving_reduce oracle p t samples)). apply map_map. Qed.
Print Assumptions C05_neigh_values.

(* inverse squared distance (CalcSimpleInterpolation::_pointInvdist, exponent 2) *)
Theorem C05_invdist : forall hasSel dmin2 dmax2 t l,
  invdist hasSel dmin2 dmax2 t l = invdist hasSel dmin2 dmax2 t (filter (idw_usable hasSel) l) /\
  invdist hasSel dmin2 dmax2 t l = invdist hasSel dmin2 dmax2 t (reduce_rows hasSel l).
Proof. exact invdist_reduce. Qed.
Print Assumptions C05_invdist.
Theorem C05_invdist_nothing_usable : forall hasSel dmin2 dmax2 t l,
  (forall r, In r l -> idw_usable hasSel r = false) -> invdist hasSel dmin2 dmax2 t l = None.
Proof. exact invdist_none. Qed.
Print Assumptions C05_invdist_nothing_usable.

(* migration point -> point: the value of the nearest active sample that HAS a value (correction e745a596c) *)
Theorem C05_migrate : forall hasSel dmax2 t l,
  migrate_value hasSel dmax2 t l = migrate_value hasSel dmax2 t (reduce_rows hasSel l) /\
  migrate_value hasSel dmax2 t l = migrate_value hasSel dmax2 t (filter (idw_usable hasSel) l).
Proof. exact migrate_reduce. Qed.
Print Assumptions C05_migrate.
(* ... an undefined value is never what a found sample gives *)
Theorem C05_migrate_defined : forall hasSel dmax2 t l v,
  n_v (fold_left (near_step hasSel dmax2 t) l near_init) = Some v -> isdef v = true.
Proof. intros hasSel dmax2 t l. apply near_defined. intros v H. discriminate H. Qed.
Print Assumptions C05_migrate_defined.
(* the loop as it was (regression): masked samples were filtered, undefined values were not - check key migrate:NA-value *)
Definition migrate_wit : list row :=
  [ {| r_sel := None; r_w := None; r_coords := [Some 1]; r_vals := [None]; r_verr := [] |};
    {| r_sel := None; r_w := None; r_coords := [Some 3]; r_vals := [Some 7]; r_verr := [] |} ].
Theorem C05_migrate_old : forall hasSel dmax2 t l,
  migrate_value_old hasSel dmax2 t l = migrate_value_old hasSel dmax2 t (reduce_rows hasSel l).
Proof. exact migrate_old_reduce. Qed.
Print Assumptions C05_migrate_old.
Theorem C05_migrate_old_undefined_value_refuted : exists l t,
  migrate_value_old false None t l <> migrate_value_old false None t (filter (idw_usable false) l) /\
  migrate_value false None t l = migrate_value false None t (filter (idw_usable false) l) /\ migrate_value false None t l = Some 7.
Proof. exists migrate_wit, [0]. vm_compute. split; [discriminate|split; reflexivity]. Qed.
Print Assumptions C05_migrate_old_undefined_value_refuted.

(* regression (mode 0): the accumulated normal equations, hence the coefficients, the count and the variances *)
Theorem C05_regression : forall hasSel cst naux l,
  regr_acc hasSel cst naux l = regr_acc hasSel cst naux (filter (regr_usable hasSel cst) l) /\
  regr_acc hasSel cst naux l = regr_acc hasSel cst naux (reduce_rows hasSel l) /\
  g_num (regr_acc hasSel cst naux l) = length (filter (regr_usable hasSel cst) l).
Proof. intros. split; [apply regr_reduce|]. split; [apply regr_reduce|apply regr_count]. Qed.
Print Assumptions C05_regression.
Theorem C05_regression_coeffs : forall st x, regr_coeffs st = Some x ->
  forall i, (i < length (g_b st))%nat -> fmv (length (g_b st)) (get (g_a st)) (fun k => nth k x 0) i == nth i (g_b st) 0.
Proof. exact regr_coeffs_solve. Qed.
Print Assumptions C05_regression_coeffs.

(* statistics per cell of a grid (dbStatisticsPerCell), the cell of a sample being an oracle *)
Theorem C05_percell : forall hasSel cell ncell l,
  percell hasSel cell ncell l = percell hasSel cell ncell (filter (idw_usable hasSel) l) /\
  percell hasSel cell ncell l = percell hasSel cell ncell (reduce_rows hasSel l).
Proof. exact percell_reduce. Qed.
Print Assumptions C05_percell.

(* variogram cloud and variogram map on scattered points (models of C12.ModelExt) *)
Theorem C05_vcloud : forall cf d lagnb varnb dx0 dx1 l,
  C12.ModelExt.vcloud cf d lagnb varnb dx0 dx1 (vreduce cf l) = C12.ModelExt.vcloud cf d lagnb varnb dx0 dx1 l.
Proof. exact vcloud_reduce. Qed.
Print Assumptions C05_vcloud.
Theorem C05_vmap : forall cf l nxx dxx, C12.ModelExt.vmap_points cf (vreduce cf l) nxx dxx = C12.ModelExt.vmap_points cf l nxx dxx.
Proof. exact vmap_points_reduce. Qed.
Print Assumptions C05_vmap.
(* variogram on a grid: a cell cannot be removed; the result with a selection is the result on the grid without selection
   where every variable of the masked cells is undefined *)
Theorem C05_vario_grid : forall cf d dp2 nx cells g,
  C12.ModelExt.grid_solution (cfg_nosel cf) d dp2 nx (map (gblank cf) cells) g = C12.ModelExt.grid_solution cf d dp2 nx cells g.
Proof. exact grid_solution_blank. Qed.
Print Assumptions C05_vario_grid.

(* ---------------------------------------------------------------------------------------------- turning bands (models of C13, C14) *)
(* _updateData2ToTarget: the value substituted at a target that coincides with a datum is looked for among the ACTIVE
   data only (this is the line the seeded change C05_1 removed) *)
Theorem C05_simu_update : forall nbsimu nvar icase eps2 data ta c r,
  C13.Model.update_point_target nbsimu nvar icase eps2 (filter C13.Model.d_active data) ta c r =
  C13.Model.update_point_target nbsimu nvar icase eps2 data ta c r.
Proof. exact update_reduce. Qed.
Print Assumptions C05_simu_update.
Theorem C05_simu_update_all_masked : forall nbsimu nvar icase eps2 data c r,
  (forall d, In d data -> C13.Model.d_active d = false) -> C13.Model.update_point_target nbsimu nvar icase eps2 data true c r = r.
Proof. exact update_masked_only. Qed.
Print Assumptions C05_simu_update_all_masked.
(* _difference: the masked data keep their cells and give no row to the kriging of the errors *)
Theorem C05_simu_difference : forall nbsimu nvar icase l,
  nb_rows (difference_all nbsimu nvar icase (reduce_data l)) = nb_rows (difference_all nbsimu nvar icase l) /\
  forall x, In x l -> dact x = false -> In x (difference_all nbsimu nvar icase l).
Proof. intros. split; [apply nb_rows_reduce|]. intros x H1 H2. apply difference_masked_untouched; assumption. Qed.
Print Assumptions C05_simu_difference.
(* one target of the conditional simulation: error kriging + substitution.  PARTIAL: the kriging weights are an oracle
   (they solve the system of the active data: C05_krige, C13_masked_sample, C13_undefined_not_active) *)
Theorem C05_simu_conditioning_partial : forall nbsimu nvar icase eps2 l wgt ta c trow,
  cond_target nbsimu nvar icase eps2 (reduce_data l) wgt ta c trow = cond_target nbsimu nvar icase eps2 l wgt ta c trow /\
  cond_target nbsimu nvar icase eps2 l wgt false c trow = trow.
Proof. intros. split; [apply cond_target_reduce|reflexivity]. Qed.
Print Assumptions C05_simu_conditioning_partial.
(* non-conditional part (C14.TB assembly).  PARTIAL: the band tables T are oracles indexed by the sample rank; on the reduced
   Db they are the same tables read through the renaming.  A sample outside activeArray receives nothing. *)
Theorem C05_simu_nonconditional_partial : forall nvar ncov nb T correc A norme act j,
  (forall x, nth x act false = false -> nc_value nvar ncov nb T correc A norme act j x = None) /\
  (forall a, (a < length (act_kept act))%nat ->
     nc_value nvar ncov nb (fun i s b x => T i s b (ren (act_kept act) x)) correc A norme (lsub false (act_kept act) act) j a =
     nc_value nvar ncov nb T correc A norme act j (ren (act_kept act) a) /\
     nc_value nvar ncov nb T correc A norme act j (ren (act_kept act) a) =
       Some (C14.TB.tb_out nvar ncov nb T correc A norme j (ren (act_kept act) a))).
Proof. intros. split; [intros x H; apply nc_masked; exact H|intros a Ha; apply nc_reduce; exact Ha]. Qed.
Print Assumptions C05_simu_nonconditional_partial.

(* ---------------------------------------------------------------------------------------------- non-vacuity *)
Definition ex_rows : list row :=
  [ {| r_sel := Some 1; r_w := Some 2;  r_coords := [Some 0; Some 0]; r_vals := [Some 1; Some 10];  r_verr := [Some 0] |};
    {| r_sel := Some 0; r_w := Some 1;  r_coords := [Some 1; Some 0]; r_vals := [Some 100; Some 5]; r_verr := [Some 0] |};
    {| r_sel := Some 1; r_w := None;    r_coords := [Some 2; Some 0]; r_vals := [None; Some 7];     r_verr := [None] |};
    {| r_sel := Some 1; r_w := Some 0;  r_coords := [Some 3; None];   r_vals := [Some 4; None];     r_verr := [Some 1] |};
    {| r_sel := Some 1; r_w := Some (-1); r_coords := [Some 4; Some 1]; r_vals := [Some (-3); Some 2]; r_verr := [Some (-1)] |};
    {| r_sel := None;   r_w := Some 1;  r_coords := [Some 5; Some 1]; r_vals := [Some 9; Some 9];   r_verr := [Some 0] |} ].
Example C05_stats_nonvacuous :
  o_num (stat_mono true false 0 ex_rows) = 3%nat /\ o_mean (stat_mono true false 0 ex_rows) = Some (2 # 3) /\
  o_num (stat_mono true true 0 ex_rows) = 2%nat /\
  length (reduce_rows true ex_rows) = 4%nat /\ length (reduce_var true false 0 ex_rows) = 3%nat /\
  o_num (stat_mono false false 0 ex_rows) = 5%nat (* without the filter the masked 100 and 9 would count *).
Proof. vm_compute. repeat split; reflexivity. Qed.
(* sample 1 is masked (0), sample 5 is masked by an undefined selection value, sample 3 has no second coordinate *)
Example C05_ranks_nonvacuous :
  multiple_ranks_active true 2 1 [] [] true false false ex_rows = [[0; 3; 4]; [0; 2; 4]]%nat /\
  multiple_ranks_active true 2 1 [] [] true false true ex_rows = [[0; 4]; [0; 2; 4]]%nat /\
  multiple_ranks_active true 2 1 [0%nat] [] true true false ex_rows = [[0; 3]]%nat /\
  kept_rows true false ex_rows = [0; 2; 3; 4]%nat /\ kept_rows true true ex_rows = [0; 2; 4]%nat /\
  multiple_ranks_active true 2 1 [] [] true false true (reduce_db true true ex_rows) = [[0; 2]; [0; 1; 2]]%nat /\
  multiple_ranks_active false 2 1 [] [] true false false ex_rows = [[0; 1; 3; 4; 5]; [0; 1; 2; 4; 5]]%nat.
Proof. vm_compute. repeat split; reflexivity. Qed.
(* turning bands: the band [0, 4] of the usable samples; sample 3 (no coordinate) and 1, 5 (masked) do not stretch it *)
Example C05_simu_nonvacuous :
  let proj := fun r => match nth 0 (r_coords r) None with Some x => x | None => inject_Z (10 ^ 30) end in
  band_minmax true 2 proj (inject_Z (10 ^ 30), - inject_Z (10 ^ 30)) ex_rows = (0, 4) /\
  simu_active_array true 2 ex_rows = [true; false; true; false; true; false] /\ length (reduce_simu true 2 ex_rows) = 3%nat /\
  run_simu_targets 1 1 (fun it => [Some (inject_Z (Z.of_nat it))])
    [ {| t_active := true; t_cells := [Some 5] |}; {| t_active := false; t_cells := [Some 6] |} ] =
    [ {| t_active := true; t_cells := [Some 5; Some 0] |}; {| t_active := false; t_cells := [Some 6; None] |} ].
Proof. vm_compute. repeat split; reflexivity. Qed.
Example C05_targets_nonvacuous :
  run_targets 1 2 (fun it => [Some (inject_Z (Z.of_nat it)); None])
    [ {| t_active := true; t_cells := [Some 5] |}; {| t_active := false; t_cells := [Some 6] |}; {| t_active := true; t_cells := [None] |} ] =
    [ {| t_active := true; t_cells := [Some 5; Some 0; None] |}; {| t_active := false; t_cells := [Some 6; None; None] |};
      {| t_active := true; t_cells := [None; Some 2; None] |} ].
Proof. vm_compute. reflexivity. Qed.

(* kriging: 4 samples in the neighbourhood; sample 1 has an undefined coordinate, sample 3 no value *)
Definition ex_k : C01.Model.kcase :=
  let m (a : Q) : mat := [[a]] in
  let smp (x : option Q) (z : option Q) := {| C01.Model.s_coord := [x]; C01.Model.s_z := [z]; C01.Model.s_verr := []; C01.Model.s_fext := [] |} in
  {| C01.Model.k_nvar := 1; C01.Model.k_monos := [[]]; C01.Model.k_nfex := 0;
     C01.Model.k_samples := [smp (Some 0) (Some 1); smp None (Some 7); smp (Some 2) (Some 3); smp (Some 5) None];
     C01.Model.k_means := [0]; C01.Model.k_tcoord := [1]; C01.Model.k_tfext := []; C01.Model.k_flag_verr := false;
     C01.Model.k_clhs := [ [m 4]; [m 0; m 4]; [m 1; m 0; m 4]; [m (1#2); m 0; m 2; m 4] ];
     C01.Model.k_crhs := [ [m 2]; [m 0]; [m 2]; [m (1#2)] ];
     C01.Model.k_c00 := m 4 |}.
Example C05_krige_nonvacuous :
  kkept ex_k = [0; 2]%nat /\ C01.Model.active ex_k = [0; 2; 4]%nat /\ C01.Model.active (kreduce ex_k) = [0; 1; 2]%nat /\
  map (eqren ex_k) [0; 1; 2]%nat = [0; 2; 4]%nat /\
  C01.Model.any_data_defined (kreduce ex_k) = C01.Model.any_data_defined ex_k /\
  match C01.Model.krige ex_k, C01.Model.krige (kreduce ex_k) with
  | Some o, Some o' => C01.Model.o_estim o = C01.Model.o_estim o' /\ C01.Model.o_estim o = [2] /\ C01.Model.o_wgt o = [[1#2]; [1#2]; [-(1#2)]]
  | _, _ => False
  end.
Proof. vm_compute. repeat split; reflexivity. Qed.

(* neighbourhood: sample 1 masked, sample 3 without value; nmaxi = 2 keeps the two closest of the three others *)
Definition ex_np : C06.Model.params :=
  {| C06.Model.p_nmini := 1; C06.Model.p_nmaxi := 2; C06.Model.p_nsect := 1; C06.Model.p_nsmax := 0; C06.Model.p_ndim := 2;
     C06.Model.p_radius := None; C06.Model.p_aniso := false; C06.Model.p_rot := false; C06.Model.p_nd := 2;
     C06.Model.p_coeffs := []; C06.Model.p_rotmat := []; C06.Model.p_xvalid := false; C06.Model.p_kfold := false;
     C06.Model.p_hascode := false; C06.Model.p_eps := 1 # 1000000000; C06.Model.p_checkers := [] |}.
Definition ex_ns (a : bool) (x y : Q) (v : option Q) : C06.Model.sample :=
  {| C06.Model.s_active := a; C06.Model.s_coords := [x; y]; C06.Model.s_vars := [v]; C06.Model.s_code := None |}.
Definition ex_nsamples : list C06.Model.sample :=
  [ex_ns true 3 0 (Some 1); ex_ns false 0 1 (Some 1); ex_ns true 1 1 (Some 1); ex_ns true 0 (1#2) None; ex_ns true 0 2 (Some 1)].
Example C05_neigh_nonvacuous :
  let t := {| C06.Model.t_coords := [0; 0]; C06.Model.t_code := None |} in
  nkept ex_nsamples = [0; 2; 4]%nat /\
  C06.Model.r_ranks (C06.Model.moving (fun _ _ => 0%nat) ex_np t ex_nsamples) = [2; 4]%nat /\
  C06.Model.r_ranks (C06.Model.moving (fun _ _ => 0%nat) ex_np t (nreduce ex_nsamples)) = [1; 2]%nat.
Proof. vm_compute. repeat split; reflexivity. Qed.

(* variogram: 4 samples on a line, the second one masked: 3 pairs instead of 6, same result as on the 3 remaining samples *)
Definition ex_vcf : C12.Model.cfg :=
  {| C12.Model.c_calc := C12.Model.Vg; C12.Model.c_hasSel := true; C12.Model.c_hasW := false; C12.Model.c_dateLoop := false;
     C12.Model.c_dateChk := false; C12.Model.c_nvar := 1 |}.
Definition ex_vd : C12.Model.dirp :=
  {| C12.Model.d_npas := 4; C12.Model.d_dpas := 1; C12.Model.d_tol := 1 # 2; C12.Model.d_psmin := 0; C12.Model.d_codir := [1];
     C12.Model.d_bench := None; C12.Model.d_cyl := None; C12.Model.d_dmin := 0; C12.Model.d_dmax := 0 |}.
Definition ex_vs (x : Q) (sel : bool) (z : Q) : C12.Model.sample :=
  {| C12.Model.s_x := [x]; C12.Model.s_sel := sel; C12.Model.s_w := None; C12.Model.s_date := None; C12.Model.s_z := [Some z] |}.
Definition ex_vl : list C12.Model.sample := [ex_vs 2 true 5; ex_vs 1 false 100; ex_vs 0 true 1; ex_vs 3 true 2].
Example C05_vario_nonvacuous :
  length (C12.Model.reached1 ex_vcf ex_vd ex_vl) = 3%nat /\ length (vreduce ex_vcf ex_vl) = 3%nat /\
  length (C12.Model.reached1 (cfg_nosel ex_vcf) ex_vd ex_vl) = 6%nat /\
  map (map C12.Model.o_sw) (C12.Model.solution1 ex_vcf ex_vd ex_vl) = [[0; 1; 1; 1]] /\
  C12.Model.compute_dir ex_vcf false ex_vd ex_vl = C12.Model.compute_dir ex_vcf false ex_vd (vreduce ex_vcf ex_vl).
Proof. vm_compute. repeat split; reflexivity. Qed.
(* zero weight: samples at 0 and 1, the second of weight 0: the pair produces one update, all of whose increments vanish *)
Example C05_vario_zero_weight_nonvacuous :
  let cf := {| C12.Model.c_calc := C12.Model.Vg; C12.Model.c_hasSel := false; C12.Model.c_hasW := true; C12.Model.c_dateLoop := false;
               C12.Model.c_dateChk := false; C12.Model.c_nvar := 1 |} in
  let a := {| C12.Model.s_x := [0]; C12.Model.s_sel := true; C12.Model.s_w := Some 2; C12.Model.s_date := None; C12.Model.s_z := [Some 1] |} in
  let b := {| C12.Model.s_x := [1]; C12.Model.s_sel := true; C12.Model.s_w := Some 0; C12.Model.s_date := None; C12.Model.s_z := [Some 5] |} in
  weight_product_calc (C12.Model.c_calc cf) = true /\ qeqb (C12.Model.get_weight cf b) 0 = true /\
  length (C12.Model.pair_updates cf ex_vd [0] a b) = 1%nat /\
  map (fun u => qeqb (C12.Model.u_sw u) 0 && qeqb (C12.Model.u_glo u) 0) (C12.Model.pair_updates cf ex_vd [0] a b) = [true].
Proof. vm_compute. repeat split; reflexivity. Qed.

(* samples without coordinates / external drift: sample 1 has no second coordinate, sample 2 no external drift *)
Example C05_neigh_undefined_nonvacuous :
  let t := {| C06.Model.t_coords := [0; 0]; C06.Model.t_code := None |} in
  let mk := fun c f v => {| n_coords := c; n_fext := f; n_s := ex_ns true 0 0 v |} in
  let l := [mk [Some 3; Some 0] [Some 1] (Some 1); mk [Some 0; None] [Some 1] (Some 1); mk [Some 1; Some 0] [None] (Some 1);
            mk [Some 1; Some 1] [Some 1] (Some 1); mk [Some 0; Some 2] [Some 1] (Some 1)] in
  map nusable l = [true; false; false; true; true] /\
  C06.Model.r_ranks (C06.Model.moving (fun _ _ => 0%nat) ex_np t (map nembed l)) = [3; 4]%nat /\
  C06.Model.r_ranks (C06.Model.moving (fun _ _ => 0%nat) ex_np t (map nembed (filter nusable l))) = [1; 2]%nat.
Proof. vm_compute. repeat split; reflexivity. Qed.
Example C05_vario_undefined_nonvacuous :
  let cf := cfg_nosel ex_vcf in
  let l := [([Some 2], ex_vs 0 true 5); ([None], ex_vs 0 true 100); ([Some 0], ex_vs 0 true 1); ([Some 3], ex_vs 0 true 2)] in
  map (vusable cf) l = [true; false; true; true] /\
  length (C12.Model.reached1 (vcfg cf) ex_vd (map (vembed cf) l)) = 3%nat /\
  map (map C12.Model.o_sw) (C12.Model.compute_dir (vcfg cf) false ex_vd (map (vembed cf) l)) = [[0; 1; 1; 1]].
Proof. vm_compute. repeat split; reflexivity. Qed.

(* ---- further algorithms and boundary cases: all masked, selection all ones, undefined / zero weights, undefined selection ---- *)
Definition mkr (sel : oq) (w : oq) (x : oq) (z1 z2 : oq) : row :=
  {| r_sel := sel; r_w := w; r_coords := [x]; r_vals := [z1; z2]; r_verr := [] |}.
Definition ex2 : list row :=
  [mkr (Some 1) (Some 1) (Some 0) (Some 2) (Some 1); mkr (Some 0) None (Some 1) (Some 50) (Some 2); mkr (Some 1) (Some 0) (Some 2) (Some 4) (Some 3);
   mkr None (Some 1) (Some 3) (Some 60) (Some 4); mkr (Some 1) None (Some 4) None (Some 5); mkr (Some 1) (Some 2) (Some 6) (Some 8) (Some 6)].
Definition all_masked : list row := map (fun r => {| r_sel := Some 0; r_w := r_w r; r_coords := r_coords r; r_vals := r_vals r; r_verr := [] |}) ex2.
Definition all_ones : list row := map (fun r => {| r_sel := Some 1; r_w := r_w r; r_coords := r_coords r; r_vals := r_vals r; r_verr := [] |}) ex2.
Example C05_invdist_nonvacuous :
  option_map Qred (invdist true (1 # 1000000) None [1] ex2) = Some (158 # 51) /\ invdist true (1 # 1000000) None [2] ex2 = Some 4 /\
  option_map Qred (invdist true (1 # 1000000) (Some 2) [1] ex2) = Some 3 /\
  invdist true (1 # 1000000) None [1] all_masked = None /\ invdist false (1 # 1000000) None [1] [] = None /\
  invdist true (1 # 1000000) None [1] all_ones = invdist false (1 # 1000000) None [1] ex2 /\
  length (filter (idw_usable true) ex2) = 3%nat.
Proof. vm_compute. repeat split; reflexivity. Qed.
Example C05_migrate_nonvacuous :
  migrate_value true None [1] ex2 = Some 2 /\ migrate_value false None [1] ex2 = Some 50 /\
  migrate_value true None [4] ex2 = Some 4 (* the active sample at 4 has no value: the nearest one with a value, first of two at distance 2 *) /\
  migrate_value_old true None [4] ex2 = None /\
  migrate_value true None [1] all_masked = None /\ migrate_value true None [1] all_ones = migrate_value false None [1] ex2.
Proof. vm_compute. repeat split; reflexivity. Qed.
Example C05_regression_nonvacuous :
  g_num (regr_acc true true 1 ex2) = 3%nat /\ regr_coeffs (regr_acc true true 1 ex2) = Some [(12 # 19); (23 # 19)] /\
  g_num (regr_acc true true 1 all_masked) = 0%nat /\ regr_coeffs (regr_acc true true 1 all_masked) = None /\
  g_num (regr_acc true true 1 all_ones) = 5%nat /\ regr_acc true true 1 all_ones = regr_acc false true 1 ex2.
Proof. vm_compute. repeat split; reflexivity. Qed.
Example C05_percell_nonvacuous :
  let cell := fun r => match nth 0 (r_coords r) None with Some x => Some (Z.to_nat (Qfloor (x / 3))) | None => None end in
  map c_nn (percell true cell 3 ex2) = [2; 0; 1]%nat /\ map c_s1 (percell true cell 3 ex2) = [6; 0; 8] /\
  map c_nn (percell true cell 3 all_masked) = [0; 0; 0]%nat /\ map c_nn (percell false cell 3 ex2) = [3; 1; 1]%nat.
Proof. vm_compute. repeat split; reflexivity. Qed.
(* rank lists: explicit list of masked samples only / everything masked / selection all ones *)
Example C05_ranks_boundary_nonvacuous :
  multiple_ranks_active true 2 0 [0%nat] [1; 3]%nat true false false ex2 = [[]] /\
  multiple_ranks_active true 2 0 [] [] true false false all_masked = [[]; []] /\
  multiple_ranks_active true 2 0 [] [] true false false all_ones = multiple_ranks_active false 2 0 [] [] true false false ex2 /\
  kept_rows true false all_masked = [] /\ stat_multi true true 0 0 all_masked = stat_multi true true 0 0 [] /\
  x_num (stat_multi true true 0 0 ex2) = 3 (* weights 1, 0 and 2: the undefined weight of the masked sample is never read *).
Proof. vm_compute. repeat split; reflexivity. Qed.
(* turning bands: datum 1 is masked and coincides with the target: nothing is substituted; datum 2 active: its value is *)
Example C05_simu_cond_nonvacuous :
  let d0 := C13.Model.mkDatum true [0; 0] [Some 4] in let d1 := C13.Model.mkDatum false [2; 0] [Some 9] in
  let d2 := C13.Model.mkDatum true [5; 0] [Some 7] in
  let l := [(d0, [Some 10]); (d1, [Some 20]); (d2, [Some 30])] in
  nb_rows (difference_all 1 1 0 l) = [[Some (10 - 4)]; [Some (30 - 7)]] /\
  C13.Model.update_point_target 1 1 0 (1 # 1000) (map fst l) true [2; 0] [Some 100] = [Some 100] /\
  C13.Model.update_point_target 1 1 0 (1 # 1000) (map fst l) true [5; 0] [Some 100] = [Some 7] /\
  cond_target 1 1 0 (1 # 1000) l [[1 # 2]; [1 # 2]] true [5; 0] [Some 100] = cond_target 1 1 0 (1 # 1000) (reduce_data l) [[1 # 2]; [1 # 2]] true [5; 0] [Some 100] /\
  act_kept [true; false; true] = [0; 2]%nat /\
  C13.Model.update_point_target 1 1 0 (1 # 1000) [d1] true [2; 0] [Some 100] = [Some 100].
Proof. vm_compute. repeat split; reflexivity. Qed.
(* variogram cloud / map / grid: one masked sample among four *)
Example C05_vario_ext_nonvacuous :
  length (C12.ModelExt.cloud_pairs ex_vcf ex_vl) = 3%nat /\ length (C12.ModelExt.cloud_pairs (cfg_nosel ex_vcf) ex_vl) = 6%nat /\
  map (gblank ex_vcf) ex_vl = [ex_vs 2 true 5; blank (ex_vs 1 false 100); ex_vs 0 true 1; ex_vs 3 true 2] /\
  C12.ModelExt.grid_solution ex_vcf ex_vd 1 [4%nat] ex_vl [1%Z] = C12.ModelExt.grid_solution (cfg_nosel ex_vcf) ex_vd 1 [4%nat] (map (gblank ex_vcf) ex_vl) [1%Z] /\
  map (map C12.Model.o_sw) (C12.ModelExt.grid_solution ex_vcf ex_vd 1 [4%nat] ex_vl [1%Z]) = [[0; 1; 1; 1]].
Proof. vm_compute. repeat split; reflexivity. Qed.

(* C05 runner: the self-contained models (statistics, rank lists, target loop) on a decoded case *)
From Coq Require Import List Arith ZArith QArith Bool.
From Gst Require Import lib.Sx lib.QAux lib.LinAlgQ C05.Reindex C05.Model C05.Spec C05.Model2.
From Gst Require C01.Model C01.Run C05.Spec_krige.
Import ListNotations.

(* the reduced kriging case, re-encoded (rationals as (num den)) *)
Definition ofMat (M : mat) : sx := ofList (ofList ofQ) M.
Definition ofKSample (s : C01.Model.sample) : sx :=
  L [ofList ofOQ (C01.Model.s_coord s); ofList ofOQ (C01.Model.s_z s); ofList ofOQ (C01.Model.s_verr s); ofList ofOQ (C01.Model.s_fext s)].
Definition ofKCase (k : C01.Model.kcase) : sx :=
  L [ofList ofKSample (C01.Model.k_samples k); ofList (ofList ofMat) (C01.Model.k_clhs k); ofList (ofList ofMat) (C01.Model.k_crhs k)].
Definition ofKrige (k : C01.Model.kcase) : sx :=
  match C01.Model.krige k with
  | None => L [I 0%Z]
  | Some o => L [I 1%Z; ofList ofNat (C01.Model.o_active o); ofList ofQ (C01.Model.o_estim o); ofList ofQ (C01.Model.o_var o); ofMat (C01.Model.o_wgt o)]
  end.

Definition asRow (s : sx) : option row :=
  match s with
  | L [sel; w; coords; vals; verr] =>
      match asOQ sel, asOQ w, asListOf asOQ coords, asListOf asOQ vals, asListOf asOQ verr with
      | Some a, Some b, Some x, Some c, Some d => Some {| r_sel := a; r_w := b; r_coords := x; r_vals := c; r_verr := d |}
      | _, _, _, _, _ => None
      end
  | _ => None
  end.
Definition asTrow (s : sx) : option trow :=
  match s with
  | L [a; cells] => match asB a, asListOf asOQ cells with
                    | Some a', Some c => Some {| t_active := a'; t_cells := c |} | _, _ => None end
  | _ => None
  end.

Definition ofMono (o : mono_out) : sx :=
  L [ofNat (o_num o); ofOQ (o_mean o); ofOQ (o_var o); ofOQ (o_min o); ofOQ (o_max o); ofOQ (o_sum o)].
Definition ofON (o : option nat) : sx := match o with Some n => ofNat n | None => L [] end.
Definition ofMulti (o : multi_out) : sx :=
  L [ofQ (x_num o); ofOQ (x_mean o); ofOQ (x_var o); ofOQ (x_min o); ofOQ (x_max o); ofON (x_plus o); ofON (x_moins o); ofON (x_zero o)].

Definition run (c : sx) : sx :=
  match c with
  | L [I 1%Z; hs; iso; nv; rows] =>
      match asB hs, asB iso, asNat nv, asListOf asRow rows with
      | Some hs', Some iso', Some nv', Some l =>
          (* result on the table, on the table without the masked rows, and per variable on its usable rows *)
          L [ofList (fun iv => ofMono (stat_mono hs' iso' iv l)) (seq 0 nv');
             ofList (fun iv => ofMono (stat_mono false iso' iv (reduce_rows hs' l))) (seq 0 nv');
             ofList (fun iv => ofMono (stat_mono false iso' iv (reduce_var hs' iso' iv l))) (seq 0 nv')]
      | _, _, _, _ => sx_error 1
      end
  | L [I 2%Z; hs; hw; nv; rows] =>
      match asB hs, asB hw, asNat nv, asListOf asRow rows with
      | Some hs', Some hw', Some nv', Some l =>
          L [ofList (fun i1 => ofList (fun i2 => ofMulti (stat_multi hs' hw' i1 i2 l)) (seq 0 nv')) (seq 0 nv');
             ofList (fun i1 => ofList (fun i2 => ofMulti (stat_multi false hw' i1 i2 (reduce_rows hs' l))) (seq 0 nv')) (seq 0 nv')]
      | _, _, _, _ => sx_error 2
      end
  | L [I 3%Z; hs; nz; nv; ivars; nbgh; us; uv; uc; rows] =>
      match asB hs, asNat nz, asNat nv, asListOf asNat ivars, asListOf asNat nbgh, asB us, asB uv, asB uc, asListOf asRow rows with
      | Some hs', Some nz', Some nv', Some iv', Some nb', Some us', Some uv', Some uc', Some l =>
          L [ofList (ofList ofNat) (multiple_ranks_active hs' nz' nv' iv' nb' us' uv' uc' l);
             ofList (fun r => ofB (is_active hs' r)) l;
             ofList ofNat (kept_rows hs' uc' l);
             ofList (ofList ofNat) (map (map (ren (kept_rows hs' uc' l))) (multiple_ranks_active hs' nz' nv' iv' [] us' uv' uc' (reduce_db hs' uc' l)))]
      | _, _, _, _, _, _, _, _, _ => sx_error 3
      end
  | L [I 4%Z; nold; nnew; ests; rows] =>
      match asNat nold, asNat nnew, asListOf (asListOf asOQ) ests, asListOf asTrow rows with
      | Some a, Some b, Some e, Some ts =>
          ofList (fun t => L [ofB (t_active t); ofList ofOQ (t_cells t)]) (run_targets a b (fun it => nth it e []) ts)
      | _, _, _, _ => sx_error 4
      end
  | L [I 7%Z; nold; nnew; ests; rows] =>
      match asNat nold, asNat nnew, asListOf (asListOf asOQ) ests, asListOf asTrow rows with
      | Some a, Some b, Some e, Some ts =>
          ofList (fun t => L [ofB (t_active t); ofList ofOQ (t_cells t)]) (run_simu_targets a b (fun it => nth it e []) ts)
      | _, _, _, _ => sx_error 7
      end
  | L [I 8%Z; hs; cst; naux; rows] =>
      match asB hs, asB cst, asNat naux, asListOf asRow rows with
      | Some hs', Some cst', Some na, Some l =>
          let enc := fun st : regr_st => L [ofNat (g_num st); ofQ (g_prod st); ofQ (g_mean st); ofList ofQ (g_b st); ofList (ofList ofQ) (g_a st)] in
          let st := regr_acc hs' cst' na l in
          L [ofNat (g_num st); match regr_coeffs st with Some x => ofList ofQ x | None => L [] end;
             enc st; enc (regr_acc hs' cst' na (filter (regr_usable hs' cst') l)); enc (regr_acc false cst' na (reduce_rows hs' l))]
      | _, _, _, _ => sx_error 8
      end
  | L [I 9%Z; hs; dmin2; dmax2; targets; rows] =>
      match asB hs, asQ dmin2, asOQ dmax2, asListOf (asListOf asQ) targets, asListOf asRow rows with
      | Some hs', Some dm, Some dx, Some ts, Some l =>
          L [ofList (fun t => ofOQ (invdist hs' dm dx t l)) ts;
             ofList (fun t => ofOQ (invdist false dm dx t (filter (idw_usable hs') l))) ts]
      | _, _, _, _, _ => sx_error 9
      end
  | L [I 10%Z; hs; dmax2; targets; rows] =>
      match asB hs, asOQ dmax2, asListOf (asListOf asQ) targets, asListOf asRow rows with
      | Some hs', Some dx, Some ts, Some l =>
          L [ofList (fun t => ofOQ (migrate_value hs' dx t l)) ts;
             ofList (fun t => ofOQ (migrate_value false dx t (filter (idw_usable hs') l))) ts]
      | _, _, _, _ => sx_error 10
      end
  | L [I 5%Z; kc] =>
      match C01.Run.asCase kc with
      | Some k =>
          let k' := C05.Spec_krige.kreduce k in
          L [ofList ofNat (C05.Spec_krige.kkept k); ofKCase k'; ofKrige k; ofKrige k';
             ofList ofNat (map (C05.Spec_krige.eqren k) (C01.Model.active k'))]
      | None => sx_error 5
      end
  | _ => sx_error 0
  end.

(* C05 proofs on the further variogram models of C12 (ModelExt): variogram cloud, variogram map on points, variogram on a grid *)
From Coq Require Import List ZArith QArith Qabs Bool Lqa Lia Sorted.
From Gst Require Import lib.QAux C12.Model C12.ModelExt C05.Reindex C05.Spec_vario C05.Proofs_vario.
Import ListNotations.
Local Open Scope Q_scope.

(* ---------- variogram cloud ---------- *)
Lemma negb_skip_active cf s : negb (skip cf s) = is_active cf s.
Proof. rewrite skip_active. apply negb_involutive. Qed.
Lemma cloud_pairs_reduce cf l : cloud_pairs cf (vreduce cf l) = cloud_pairs cf l.
Proof.
  unfold vreduce. induction l as [|a r IH]; [reflexivity|]. cbn [filter cloud_pairs]. rewrite skip_active.
  destruct (is_active cf a) eqn:Aa; cbn [negb].
  - cbn [cloud_pairs]. rewrite skip_active, Aa. cbn [negb]. rewrite IH. f_equal. f_equal.
    rewrite <- filter_and. apply filter_ext. intro b. rewrite negb_skip_active. destruct (is_active cf b); reflexivity.
  - exact IH.
Qed.
Lemma vcloud_reduce cf d lagnb varnb dx0 dx1 l : vcloud cf d lagnb varnb dx0 dx1 (vreduce cf l) = vcloud cf d lagnb varnb dx0 dx1 l.
Proof. unfold vcloud, cloud_hits. rewrite cloud_pairs_reduce. reflexivity. Qed.

(* ---------- variogram map on scattered points ---------- *)
Lemma vmap_inner_reduce cf nxx dxx mid ncell a js :
  vmap_inner cf nxx dxx mid ncell a false (filter (is_active cf) js) = vmap_inner cf nxx dxx mid ncell a false js.
Proof.
  induction js as [|b r IH]; [reflexivity|]. cbn [filter vmap_inner].
  destruct (is_active cf b) eqn:Ab; cbn [negb]; [|exact IH].
  cbn [vmap_inner]. rewrite Ab. cbn [negb]. rewrite IH. reflexivity.
Qed.
Lemma vmap_outer_reduce cf nxx dxx mid ncell cur :
  vmap_outer cf nxx dxx mid ncell (filter (is_active cf) cur) = vmap_outer cf nxx dxx mid ncell cur.
Proof.
  induction cur as [|a rest IH]; [reflexivity|]. cbn [filter vmap_outer].
  destruct (is_active cf a) eqn:Aa; [|exact IH].
  cbn [vmap_outer]. rewrite Aa, IH. f_equal.
  cbn [vmap_inner]. rewrite Aa. cbn [negb]. rewrite vmap_inner_reduce. reflexivity.
Qed.
Lemma vmap_points_reduce cf l nxx dxx : vmap_points cf (vreduce cf l) nxx dxx = vmap_points cf l nxx dxx.
Proof. unfold vmap_points, vreduce. rewrite sort_filter, vmap_outer_reduce. reflexivity. Qed.

(* ---------- variogram on a grid: masked cell = cell with undefined values (and no selection) ---------- *)
Lemma zval_blank s iv : zval (blank s) iv = None.
Proof.
  unfold zval, blank. cbn [s_z]. generalize (s_z s). intro l. revert iv.
  induction l as [|x r IH]; intro iv; destruct iv; cbn; try reflexivity. apply IH.
Qed.
Lemma flat_map_all_nil {A B} (f : A -> list B) l : (forall x, f x = []) -> flat_map f l = [].
Proof. intro H. induction l as [|x r IH]; [reflexivity|]. cbn [flat_map]. rewrite H, IH. reflexivity. Qed.

Lemma eval_sym_blank_l npas pc a b ww phi extra iv : eval_sym npas pc (blank a) b ww phi extra iv = [].
Proof. unfold eval_sym. rewrite zval_blank. reflexivity. Qed.
Lemma eval_sym_blank_r npas pc a b ww phi extra iv : eval_sym npas pc a (blank b) ww phi extra iv = [].
Proof. unfold eval_sym. rewrite zval_blank. destruct (zval a iv); reflexivity. Qed.
Lemma eval_asym_blank_l npas pc a b ww iv : eval_asym npas pc (blank a) b ww iv = [].
Proof.
  unfold eval_asym. apply flat_map_all_nil. intro jv. cbv zeta. rewrite !zval_blank.
  destruct (zval b iv); destruct (p_coinc pc); reflexivity.
Qed.
Lemma eval_asym_blank_r npas pc a b ww iv : eval_asym npas pc a (blank b) ww iv = [].
Proof.
  unfold eval_asym. apply flat_map_all_nil. intro jv. cbv zeta. rewrite !zval_blank.
  destruct (zval a iv); destruct (p_coinc pc); reflexivity.
Qed.
Lemma evaluate_blank_l cf npas means pc a b : evaluate cf npas means pc (blank a) b = [].
Proof.
  unfold evaluate. destruct (c_calc cf); apply flat_map_all_nil; intro iv;
    first [apply eval_sym_blank_l | apply eval_asym_blank_l].
Qed.
Lemma evaluate_blank_r cf npas means pc a b : evaluate cf npas means pc a (blank b) = [].
Proof.
  unfold evaluate. destruct (c_calc cf); apply flat_map_all_nil; intro iv;
    first [apply eval_sym_blank_r | apply eval_asym_blank_r].
Qed.

Lemma grid_node_blank cf nx cells r sh :
  grid_node nx (map (gblank cf) cells) r sh = option_map (gblank cf) (grid_node nx cells r sh).
Proof.
  unfold grid_node. destruct (index_to_rank nx (vaddZ (rank_to_index nx r) sh)); [|reflexivity].
  apply nth_error_map.
Qed.

Lemma grid_updates_blank cf npas dlo dhi means nx cells g :
  grid_updates (cfg_nosel cf) npas dlo dhi means nx (map (gblank cf) cells) g = grid_updates cf npas dlo dhi means nx cells g.
Proof.
  unfold grid_updates. rewrite map_length.
  assert (C : combine (seq 0 (length cells)) (map (gblank cf) cells) =
              map (fun ra => (fst ra, gblank cf (snd ra))) (combine (seq 0 (length cells)) cells)).
  { generalize (seq 0 (length cells)). intro sq. revert sq. induction cells as [|c t IH]; intro sq; destruct sq; cbn [combine map]; try reflexivity.
    cbn [fst snd]. rewrite IH. reflexivity. }
  rewrite C. clear C. generalize (combine (seq 0 (length cells)) cells). intro prs.
  induction prs as [|[r a] t IH]; [reflexivity|]. cbn [map flat_map fst snd]. rewrite IH. f_equal.
  assert (S' : forall s, skip (cfg_nosel cf) s = false) by reflexivity. rewrite S'.
  rewrite skip_active. destruct (is_active cf a) eqn:Aa; cbn [negb].
  - assert (Ga : gblank cf a = a) by (unfold gblank; rewrite Aa; reflexivity). rewrite Ga.
    apply flat_map_ext. intro ipas. rewrite grid_node_blank.
    destruct (grid_node nx cells r (scaleZ (Z.of_nat ipas) g)) as [b|]; cbn [option_map]; [|reflexivity].
    rewrite S'. rewrite skip_active. destruct (is_active cf b) eqn:Ab; cbn [negb].
    + assert (Gb : gblank cf b = b) by (unfold gblank; rewrite Ab; reflexivity). rewrite Gb. reflexivity.
    + assert (Gb : gblank cf b = blank b) by (unfold gblank; rewrite Ab; reflexivity). rewrite Gb. apply evaluate_blank_r.
  - assert (Ga : gblank cf a = blank a) by (unfold gblank; rewrite Aa; reflexivity). rewrite Ga.
    apply flat_map_all_nil. intro ipas. rewrite grid_node_blank.
    destruct (grid_node nx cells r (scaleZ (Z.of_nat ipas) g)) as [b|]; cbn [option_map]; [|reflexivity].
    rewrite S'. apply evaluate_blank_l.
Qed.

Lemma filter_all_true {A} (f : A -> bool) l : (forall x, In x l -> f x = true) -> filter f l = l.
Proof.
  induction l as [|x r IH]; intro H; [reflexivity|]. cbn [filter]. rewrite (H x) by (left; reflexivity).
  f_equal. apply IH. intros y Hy. apply H. right; exact Hy.
Qed.
Lemma fold_blank {S} (F : S -> sample -> S) cf (l : list sample) (x : S) :
  (forall acc s, F acc (blank s) = acc) ->
  fold_left F (filter (is_active cf) l) x = fold_left F (map (gblank cf) l) x.
Proof.
  intro H. revert x. induction l as [|a r IH]; intro x; [reflexivity|]. cbn [filter map fold_left].
  destruct (is_active cf a) eqn:Aa; cbn [fold_left].
  - assert (Ga : gblank cf a = a) by (unfold gblank; rewrite Aa; reflexivity). rewrite Ga. apply IH.
  - assert (Ga : gblank cf a = blank a) by (unfold gblank; rewrite Aa; reflexivity). rewrite Ga, H. apply IH.
Qed.
Lemma stat_means_blank cf l : stat_means (cfg_nosel cf) (map (gblank cf) l) = stat_means cf l.
Proof.
  unfold stat_means. apply map_ext. intro iv. unfold stat_mean.
  assert (E : filter (is_active (cfg_nosel cf)) (map (gblank cf) l) = map (gblank cf) l).
  { apply filter_all_true. intros; reflexivity. }
  rewrite E.
  rewrite <- (fold_blank (fun acc s => match zval s iv with Some _ => acc + get_weight (cfg_nosel cf) s | None => acc end) cf l 0)
    by (intros; rewrite zval_blank; reflexivity).
  rewrite <- (fold_blank (fun acc s => match zval s iv with Some z => acc + get_weight (cfg_nosel cf) s * z | None => acc end) cf l 0)
    by (intros; rewrite zval_blank; reflexivity).
  reflexivity.
Qed.

Lemma fold_all {S} (F G : S -> sample -> S) cf (l : list sample) (x : S) :
  (forall acc s, is_active cf s = false -> F acc s = acc) -> (forall acc s, G acc (blank s) = acc) ->
  (forall acc s, is_active cf s = true -> F acc s = G acc s) ->
  fold_left F l x = fold_left G (map (gblank cf) l) x.
Proof.
  intros H1 H2 H3. revert x. induction l as [|a r IH]; intro x; [reflexivity|]. cbn [map fold_left].
  destruct (is_active cf a) eqn:Aa.
  - assert (Ga : gblank cf a = a) by (unfold gblank; rewrite Aa; reflexivity). rewrite Ga, (H3 x a Aa). apply IH.
  - assert (Ga : gblank cf a = blank a) by (unfold gblank; rewrite Aa; reflexivity). rewrite Ga, H2, (H1 x a Aa). apply IH.
Qed.
Lemma gstats_blank cf l iv jv : gstats (cfg_nosel cf) (map (gblank cf) l) iv jv = gstats cf l iv jv.
Proof.
  unfold gstats. symmetry. apply fold_all.
  - intros acc s H. rewrite H. reflexivity.
  - intros acc s. rewrite !zval_blank. reflexivity.
  - intros acc s H. rewrite H. reflexivity.
Qed.
Lemma finish_blank cf d l arr : finish (cfg_nosel cf) d (map (gblank cf) l) arr = finish cf d l arr.
Proof. unfold finish. apply map_ext. intros [iv jv]. rewrite gstats_blank. reflexivity. Qed.

Lemma grid_solution_blank cf d dp2 nx cells g :
  grid_solution (cfg_nosel cf) d dp2 nx (map (gblank cf) cells) g = grid_solution cf d dp2 nx cells g.
Proof.
  unfold grid_solution. rewrite stat_means_blank, grid_updates_blank, finish_blank. reflexivity.
Qed.

(* C05 spec on the turning-bands models of C13 (conditioning) and C14 (assembly of the non-conditional simulation). *)
From Coq Require Import List Arith ZArith QArith Bool.
From Gst Require Import lib.QAux lib.LinAlgQ C13.Model C14.L2 C14.TB C05.Reindex.
Import ListNotations.

(* the data Db during a conditional simulation: each sample with its SIMU cells (the non-conditional values, then the errors) *)
Definition drow := (datum * row)%type.
Definition dact (x : drow) : bool := d_active (fst x).

(* CalcSimuTurningBands::_difference: "if (!dbin->isActive(iech)) continue;" then difference_row at the active samples *)
Definition difference_all (nbsimu nvar icase : Z) (l : list drow) : list drow :=
  map (fun x => if dact x then (fst x, difference_row nbsimu nvar icase (d_z (fst x)) (snd x)) else x) l.
(* the rows the kriging of the simulation errors reads (_krigsim -> KrigingSystem::_simulateCalcul): those of the neighbourhood,
   i.e. in unique neighbourhood the active data, in rank order *)
Definition nb_rows (l : list drow) : list row := map snd (filter dact l).

(* one target of the conditional simulation, after the non-conditional step: error kriging with weights [wgt] (the
   solution of the kriging system of the ACTIVE data - an oracle here, see C05_krige), then substitution of the datum
   value when the target coincides with an active datum (_updateData2ToTarget) *)
Definition cond_target (nbsimu nvar icase : Z) (eps2 : Q) (l : list drow) (wgt : list (list Q))
                       (t_active : bool) (c : list Q) (trow : row) : row :=
  if negb t_active then trow
  else
    let r1 := match simulate_calcul nbsimu nvar icase (nb_rows (difference_all nbsimu nvar icase l)) wgt trow with
              | Some r => r | None => trow end in
    update_point_target nbsimu nvar icase eps2 (map fst l) true c r1.
Definition reduce_data (l : list drow) : list drow := filter dact l.

(* non-conditional part: CalcSimuTurningBands::_simulatePoint writes tb_out (C14.TB) at the samples of activeArray only *)
Definition nc_value (nvar ncov nb : nat) (T : nat -> nat -> nat -> nat -> rv) (correc : nat -> nat -> nat -> Q)
                    (A : nat -> fmat) (norme : Q) (act : list bool) (j x : nat) : option rv :=
  if nth x act false then Some (tb_out nvar ncov nb T correc A norme j x) else None.
Definition act_kept (act : list bool) : list nat := kidx (fun i => nth i act false) (length act).

(* C05 proofs on the C01 kriging model *)
From Coq Require Import List Arith ZArith QArith Bool Lia Sorted.
From Gst Require Import lib.QAux lib.LinAlgQ C01.Model C01.Proofs C05.Reindex C05.Spec_krige.
Import ListNotations.
Local Open Scope Q_scope.

Definition dummy_s : sample := {| s_coord := []; s_z := []; s_verr := []; s_fext := [] |}.

(* ---------- basic facts about the reduced case ---------- *)
Lemma nech_kreduce k : nech (kreduce k) = length (kkept k).
Proof. unfold nech, kreduce. cbn [k_samples]. apply map_length. Qed.

Lemma kkept_sorted k : StronglySorted lt (kkept k).
Proof. apply kidx_sorted. Qed.
Lemma kkept_lt k a : (a < length (kkept k))%nat -> (ren (kkept k) a < nech k)%nat.
Proof. apply ren_kidx_lt. Qed.
Lemma kkept_keep k a : (a < length (kkept k))%nat -> keep_sample k (nth_s k (ren (kkept k) a)) = true.
Proof. intro H. apply (ren_kidx_keep (fun i => keep_sample k (nth_s k i)) (nech k) a H). Qed.
Lemma kkept_le k : (length (kkept k) <= nech k)%nat.
Proof. apply kidx_length_le. Qed.

Lemma nth_s_kreduce k a : (a < length (kkept k))%nat -> nth_s (kreduce k) a = nth_s k (ren (kkept k) a).
Proof.
  intro H. unfold nth_s at 1. unfold kreduce. cbn [k_samples].
  rewrite (nth_indep _ _ (nth_s k 0)) by (rewrite map_length; exact H).
  rewrite (map_nth (nth_s k) (kkept k) O a). reflexivity.
Qed.

Lemma mod_div_data n a iv : (a < n)%nat -> ((a + iv * n) mod n = a /\ (a + iv * n) / n = iv)%nat.
Proof.
  intro H. assert (Hn : n <> O) by lia. split.
  - rewrite Nat.mod_add by exact Hn. apply Nat.mod_small. exact H.
  - rewrite Nat.div_add by exact Hn. rewrite Nat.div_small by exact H. reflexivity.
Qed.

(* ---------- flags ---------- *)
Lemma flag_data_kreduce k a iv :
  (a < length (kkept k))%nat -> (iv < k_nvar k)%nat ->
  flag (kreduce k) (a + iv * length (kkept k)) = flag k (ren (kkept k) a + iv * nech k).
Proof.
  intros Ha Hv.
  rewrite <- (nech_kreduce k) at 1.
  rewrite (flag_data (kreduce k) a iv) by (rewrite ?nech_kreduce; assumption).
  rewrite (flag_data k (ren (kkept k) a) iv) by (try apply kkept_lt; assumption).
  rewrite nth_s_kreduce by exact Ha. reflexivity.
Qed.

Lemma flag_implies_keep k i iv :
  (i < nech k)%nat -> (iv < k_nvar k)%nat -> flag k (i + iv * nech k) = true -> keep_sample k (nth_s k i) = true.
Proof.
  intros Hi Hv H. rewrite flag_data in H by assumption. apply andb_true_iff in H. destruct H as [H1 H2].
  unfold keep_sample. rewrite H1. cbn [andb]. apply existsb_exists. exists iv. split; [apply in_seq; lia|exact H2].
Qed.

(* the common list of kept sample positions carrying variable iv *)
Definition Lk (k : kcase) (iv : nat) : list nat :=
  filter (fun a => flag k (ren (kkept k) a + iv * nech k)) (seq 0 (length (kkept k))).

Lemma data_block k iv : (iv < k_nvar k)%nat ->
  filter (flag k) (seq (iv * nech k) (nech k)) = map (fun a => ren (kkept k) a + iv * nech k)%nat (Lk k iv).
Proof.
  intro Hv. rewrite (seq_shift_add (iv * nech k) (nech k)). rewrite filter_map_comm.
  rewrite (filter_sub (fun i => keep_sample k (nth_s k i)) (fun x => flag k (x + iv * nech k)) (nech k))
    by (intros i Hi H; apply (flag_implies_keep k i iv Hi Hv H)).
  fold (kkept k). rewrite map_map. reflexivity.
Qed.

Lemma data_block_kreduce k iv : (iv < k_nvar k)%nat ->
  filter (flag (kreduce k)) (seq (iv * length (kkept k)) (length (kkept k))) =
  map (fun a => a + iv * length (kkept k))%nat (Lk k iv).
Proof.
  intro Hv. rewrite (seq_shift_add (iv * length (kkept k)) (length (kkept k))). rewrite filter_map_comm.
  f_equal. unfold Lk. apply filter_ext_in. intros a Ha. apply in_seq in Ha.
  apply flag_data_kreduce; [lia|exact Hv].
Qed.

Lemma filter_const {A} (b : bool) (l : list A) : filter (fun _ => b) l = if b then l else [].
Proof. induction l as [|x r IH]; [destruct b; reflexivity|]. cbn [filter]. rewrite IH. destruct b; reflexivity. Qed.

Lemma drift_block k : filter (flag k) (seq (k_nvar k * nech k) (nfeq k)) =
  if any_data_defined k then seq (k_nvar k * nech k) (nfeq k) else [].
Proof.
  rewrite <- filter_const. apply filter_ext_in. intros i Hi. apply in_seq in Hi.
  unfold flag. assert (E : Nat.ltb i (k_nvar k * nech k) = false) by (apply Nat.ltb_ge; lia). rewrite E. reflexivity.
Qed.

Lemma active_blocks k :
  active k = flat_map (fun iv => filter (flag k) (seq (iv * nech k) (nech k))) (seq 0 (k_nvar k))
             ++ filter (flag k) (seq (k_nvar k * nech k) (nfeq k)).
Proof.
  unfold active, neq. rewrite seq_app, filter_app. cbn [Nat.add]. f_equal.
  rewrite seq_blocks. apply filter_flat_map.
Qed.

Lemma kreduce_dims k : k_nvar (kreduce k) = k_nvar k /\ nfeq (kreduce k) = nfeq k /\ nbfl (kreduce k) = nbfl k.
Proof. repeat split. Qed.

(* ---------- the active equations correspond ---------- *)
Lemma eqren_data k a iv : (a < length (kkept k))%nat -> (iv < k_nvar k)%nat ->
  eqren k (a + iv * length (kkept k)) = (ren (kkept k) a + iv * nech k)%nat.
Proof.
  intros Ha Hv. unfold eqren.
  assert (Hlt : (a + iv * length (kkept k) < k_nvar k * length (kkept k))%nat) by nia.
  apply Nat.ltb_lt in Hlt. rewrite Hlt.
  destruct (mod_div_data (length (kkept k)) a iv Ha) as [E1 E2]. rewrite E1, E2. reflexivity.
Qed.
Lemma eqren_drift k ib :
  eqren k (k_nvar k * length (kkept k) + ib) = (k_nvar k * nech k + ib)%nat.
Proof.
  unfold eqren. assert (E : Nat.ltb (k_nvar k * length (kkept k) + ib) (k_nvar k * length (kkept k)) = false) by (apply Nat.ltb_ge; lia).
  rewrite E. lia.
Qed.

Lemma Lk_lt k iv a : In a (Lk k iv) -> (a < length (kkept k))%nat.
Proof. unfold Lk. intro H. apply filter_In in H. destruct H as [H _]. apply in_seq in H. lia. Qed.

Lemma active_kreduce k :
  any_data_defined (kreduce k) = any_data_defined k ->
  active k = map (eqren k) (active (kreduce k)).
Proof.
  intro HA. rewrite (active_blocks k), (active_blocks (kreduce k)).
  destruct (kreduce_dims k) as [Ev [Ef _]]. rewrite Ev, Ef, nech_kreduce.
  rewrite map_app. f_equal.
  - rewrite map_flat_map. apply flat_map_ext_in. intros iv Hiv. apply in_seq in Hiv.
    rewrite data_block by lia. rewrite data_block_kreduce by lia. rewrite map_map.
    apply map_ext_in. intros a Ha. symmetry. apply eqren_data; [apply (Lk_lt k iv a Ha)|lia].
  - rewrite drift_block.
    pose proof (drift_block (kreduce k)) as D. rewrite Ev, Ef, nech_kreduce in D. rewrite D. rewrite HA.
    destruct (any_data_defined k); [|reflexivity].
    rewrite (seq_shift_add (k_nvar k * length (kkept k)) (nfeq k)), (seq_shift_add (k_nvar k * nech k) (nfeq k)).
    rewrite map_map. apply map_ext. intro ib.
    replace (ib + k_nvar k * length (kkept k))%nat with (k_nvar k * length (kkept k) + ib)%nat by lia.
    rewrite eqren_drift. lia.
Qed.

(* ---------- shape of an active equation of the reduced case ---------- *)
Lemma active_kreduce_form k i' : In i' (active (kreduce k)) ->
  (exists a iv, (a < length (kkept k))%nat /\ (iv < k_nvar k)%nat /\ i' = (a + iv * length (kkept k))%nat) \/
  (exists ib, (ib < nfeq k)%nat /\ i' = (k_nvar k * length (kkept k) + ib)%nat).
Proof.
  intro H. apply active_spec in H. destruct H as [H _]. unfold neq in H.
  destruct (kreduce_dims k) as [Ev [Ef _]]. rewrite Ev, Ef, nech_kreduce in H.
  set (n' := length (kkept k)) in *.
  destruct (Nat.lt_ge_cases i' (k_nvar k * n')) as [L|G].
  - left. assert (Hn : n' <> O) by (intro E; rewrite E in L; lia).
    exists (i' mod n')%nat, (i' / n')%nat. split; [apply Nat.mod_upper_bound; exact Hn|]. split.
    + apply Nat.div_lt_upper_bound; [exact Hn|lia].
    + rewrite (Nat.div_mod i' n' Hn) at 1. lia.
  - right. exists (i' - k_nvar k * n')%nat. split; lia.
Qed.

(* ---------- decoded forms of the full system ---------- *)
Definition lhs_dd (k : kcase) (ie iv je jv : nat) : Q :=
  (if Nat.ltb je ie then mget (clhs_at k ie je) iv jv
   else if Nat.ltb ie je then mget (clhs_at k je ie) jv iv
   else mget (clhs_at k ie ie) (Nat.max iv jv) (Nat.min iv jv)) +
  (if (k_flag_verr k && Nat.eqb ie je && Nat.eqb iv jv)%bool then
     match nth iv (s_verr (nth_s k ie)) None with
     | Some v => if qltb 0 v then v else 0
     | None => 0
     end
   else 0).
Definition lhs_df (k : kcase) (ie iv ib : nat) : Q :=
  oval (drift_value k (s_coord (nth_s k ie)) (s_fext (nth_s k ie)) iv ib).

Lemma lhs_full_dd k ie iv je jv :
  (ie < nech k)%nat -> (je < nech k)%nat -> (iv < k_nvar k)%nat -> (jv < k_nvar k)%nat ->
  lhs_full k (ie + iv * nech k) (je + jv * nech k) = lhs_dd k ie iv je jv.
Proof.
  intros Hi Hj Hv Hw. unfold lhs_full, lhs_dd.
  assert (L1 : Nat.ltb (ie + iv * nech k) (k_nvar k * nech k) = true) by (apply Nat.ltb_lt; nia).
  assert (L2 : Nat.ltb (je + jv * nech k) (k_nvar k * nech k) = true) by (apply Nat.ltb_lt; nia).
  rewrite L1, L2. cbn [andb].
  destruct (mod_div_data (nech k) ie iv Hi) as [E1 E2]. destruct (mod_div_data (nech k) je jv Hj) as [E3 E4].
  rewrite E1, E2, E3, E4. reflexivity.
Qed.
Lemma lhs_full_df k ie iv ib :
  (ie < nech k)%nat -> (iv < k_nvar k)%nat ->
  lhs_full k (ie + iv * nech k) (k_nvar k * nech k + ib) = lhs_df k ie iv ib.
Proof.
  intros Hi Hv. unfold lhs_full, lhs_df.
  assert (L1 : Nat.ltb (ie + iv * nech k) (k_nvar k * nech k) = true) by (apply Nat.ltb_lt; nia).
  assert (L2 : Nat.ltb (k_nvar k * nech k + ib) (k_nvar k * nech k) = false) by (apply Nat.ltb_ge; lia).
  rewrite L1, L2. cbn [andb negb].
  destruct (mod_div_data (nech k) ie iv Hi) as [E1 E2]. rewrite E1, E2.
  replace (k_nvar k * nech k + ib - k_nvar k * nech k)%nat with ib by lia. reflexivity.
Qed.
Lemma lhs_full_fd k ib je jv :
  (je < nech k)%nat -> (jv < k_nvar k)%nat ->
  lhs_full k (k_nvar k * nech k + ib) (je + jv * nech k) = lhs_df k je jv ib.
Proof. intros Hj Hw. rewrite lhs_full_sym. apply lhs_full_df; assumption. Qed.
Lemma lhs_full_ff k ib jb : lhs_full k (k_nvar k * nech k + ib) (k_nvar k * nech k + jb) = 0.
Proof.
  unfold lhs_full.
  assert (L1 : Nat.ltb (k_nvar k * nech k + ib) (k_nvar k * nech k) = false) by (apply Nat.ltb_ge; lia).
  assert (L2 : Nat.ltb (k_nvar k * nech k + jb) (k_nvar k * nech k) = false) by (apply Nat.ltb_ge; lia).
  rewrite L1, L2. reflexivity.
Qed.

(* ---------- the oracles of the reduced case ---------- *)
Lemma clhs_at_kreduce k a b : (b <= a)%nat -> (a < length (kkept k))%nat ->
  clhs_at (kreduce k) a b = clhs_at k (ren (kkept k) a) (ren (kkept k) b).
Proof.
  intros Hb Ha. unfold clhs_at at 1. unfold kreduce. cbn [k_clhs].
  rewrite (nth_map_seq _ (length (kkept k)) a [] Ha).
  apply (nth_map_seq (fun b0 => clhs_at k (ren (kkept k) a) (ren (kkept k) b0)) (S a) b []). lia.
Qed.

Lemma lhs_dd_kreduce k a iv b jv : (a < length (kkept k))%nat -> (b < length (kkept k))%nat ->
  lhs_dd (kreduce k) a iv b jv = lhs_dd k (ren (kkept k) a) iv (ren (kkept k) b) jv.
Proof.
  intros Ha Hb. unfold lhs_dd.
  rewrite (ren_ltb (kkept k) b a (kkept_sorted k) Hb Ha), (ren_ltb (kkept k) a b (kkept_sorted k) Ha Hb).
  rewrite (ren_eqb (kkept k) a b (kkept_sorted k) Ha Hb).
  rewrite (nth_s_kreduce k a Ha).
  replace (k_flag_verr (kreduce k)) with (k_flag_verr k) by reflexivity.
  f_equal.
  destruct (Nat.ltb_spec b a) as [L|G].
  - rewrite clhs_at_kreduce by lia. reflexivity.
  - destruct (Nat.ltb_spec a b) as [L2|G2].
    + rewrite clhs_at_kreduce by lia. reflexivity.
    + rewrite clhs_at_kreduce by lia. reflexivity.
Qed.
Lemma lhs_df_kreduce k a iv ib : (a < length (kkept k))%nat ->
  lhs_df (kreduce k) a iv ib = lhs_df k (ren (kkept k) a) iv ib.
Proof. intro Ha. unfold lhs_df. rewrite (nth_s_kreduce k a Ha). reflexivity. Qed.

(* ---------- full system entries correspond ---------- *)
Lemma lhs_full_kreduce k i' j' :
  In i' (active (kreduce k)) -> In j' (active (kreduce k)) ->
  lhs_full (kreduce k) i' j' = lhs_full k (eqren k i') (eqren k j').
Proof.
  intros Hi Hj.
  destruct (kreduce_dims k) as [Ev _].
  destruct (active_kreduce_form k i' Hi) as [[a [iv [Ha [Hv Ei]]]]|[ib [Hib Ei]]];
  destruct (active_kreduce_form k j' Hj) as [[b [jv [Hb [Hw Ej]]]]|[jb [Hjb Ej]]]; subst i' j'.
  - rewrite !eqren_data by assumption.
    rewrite <- (nech_kreduce k). rewrite (lhs_full_dd (kreduce k)) by (rewrite ?nech_kreduce, ?Ev; assumption).
    rewrite (lhs_full_dd k) by (try apply kkept_lt; assumption).
    apply lhs_dd_kreduce; assumption.
  - rewrite eqren_data by assumption. rewrite eqren_drift.
    rewrite <- (nech_kreduce k). rewrite <- Ev at 2.
    rewrite (lhs_full_df (kreduce k)) by (rewrite ?nech_kreduce, ?Ev; assumption).
    rewrite (lhs_full_df k) by (try apply kkept_lt; assumption).
    apply lhs_df_kreduce; assumption.
  - rewrite eqren_data by assumption. rewrite eqren_drift.
    rewrite <- (nech_kreduce k). rewrite <- Ev at 1.
    rewrite (lhs_full_fd (kreduce k)) by (rewrite ?nech_kreduce, ?Ev; assumption).
    rewrite (lhs_full_fd k) by (try apply kkept_lt; assumption).
    apply lhs_df_kreduce; assumption.
  - rewrite !eqren_drift. rewrite <- (nech_kreduce k). rewrite <- Ev at 1 2.
    rewrite (lhs_full_ff (kreduce k)). rewrite lhs_full_ff. reflexivity.
Qed.

Lemma rhs_full_kreduce k i' jv :
  In i' (active (kreduce k)) -> rhs_full (kreduce k) i' jv = rhs_full k (eqren k i') jv.
Proof.
  intro Hi. destruct (kreduce_dims k) as [Ev _].
  destruct (active_kreduce_form k i' Hi) as [[a [iv [Ha [Hv Ei]]]]|[ib [Hib Ei]]]; subst i'.
  - rewrite eqren_data by assumption. unfold rhs_full.
    rewrite nech_kreduce, Ev.
    assert (L1 : Nat.ltb (a + iv * length (kkept k)) (k_nvar k * length (kkept k)) = true) by (apply Nat.ltb_lt; nia).
    assert (L2 : Nat.ltb (ren (kkept k) a + iv * nech k) (k_nvar k * nech k) = true)
      by (apply Nat.ltb_lt; pose proof (kkept_lt k a Ha); nia).
    rewrite L1, L2.
    destruct (mod_div_data (length (kkept k)) a iv Ha) as [E1 E2].
    destruct (mod_div_data (nech k) (ren (kkept k) a) iv (kkept_lt k a Ha)) as [E3 E4].
    rewrite E1, E2, E3, E4. unfold crhs_mean.
    assert (E : nth a (k_crhs (kreduce k)) [] = nth (ren (kkept k) a) (k_crhs k) []).
    { change (k_crhs (kreduce k)) with (map (fun i => nth i (k_crhs k) []) (kkept k)).
      rewrite (nth_indep _ _ ((fun i => nth i (k_crhs k) []) O)) by (rewrite map_length; exact Ha).
      rewrite (map_nth (fun i => nth i (k_crhs k) []) (kkept k) O a). reflexivity. }
    rewrite E. reflexivity.
  - rewrite eqren_drift. unfold rhs_full. rewrite nech_kreduce, Ev.
    assert (L1 : Nat.ltb (k_nvar k * length (kkept k) + ib) (k_nvar k * length (kkept k)) = false) by (apply Nat.ltb_ge; lia).
    assert (L2 : Nat.ltb (k_nvar k * nech k + ib) (k_nvar k * nech k) = false) by (apply Nat.ltb_ge; lia).
    rewrite L1, L2.
    replace (k_nvar k * length (kkept k) + ib - k_nvar k * length (kkept k))%nat with ib by lia.
    replace (k_nvar k * nech k + ib - k_nvar k * nech k)%nat with ib by lia. reflexivity.
Qed.

(* ---------- compressed system: identical lists ---------- *)
Lemma lhs_c_kreduce k : any_data_defined (kreduce k) = any_data_defined k -> lhs_c (kreduce k) = lhs_c k.
Proof.
  intro HA. unfold lhs_c. rewrite (active_kreduce k HA). rewrite map_map.
  apply map_ext_in. intros i' Hi. rewrite map_map. apply map_ext_in. intros j' Hj.
  apply lhs_full_kreduce; assumption.
Qed.
Lemma rhs_c_kreduce k : any_data_defined (kreduce k) = any_data_defined k -> rhs_c (kreduce k) = rhs_c k.
Proof.
  intro HA. unfold rhs_c. rewrite (active_kreduce k HA). rewrite map_map.
  apply map_ext_in. intros i' Hi. apply map_ext. intro jv. apply rhs_full_kreduce; assumption.
Qed.
Lemma zext_kreduce k : any_data_defined (kreduce k) = any_data_defined k -> zext (kreduce k) = zext k.
Proof.
  intro HA. unfold zext. rewrite (active_kreduce k HA). rewrite map_map.
  apply map_ext_in. intros i' Hi. destruct (kreduce_dims k) as [Ev _]. rewrite nech_kreduce, Ev.
  destruct (active_kreduce_form k i' Hi) as [[a [iv [Ha [Hv Ei]]]]|[ib [Hib Ei]]]; subst i'.
  - rewrite eqren_data by assumption.
    assert (L1 : Nat.ltb (a + iv * length (kkept k)) (k_nvar k * length (kkept k)) = true) by (apply Nat.ltb_lt; nia).
    assert (L2 : Nat.ltb (ren (kkept k) a + iv * nech k) (k_nvar k * nech k) = true)
      by (apply Nat.ltb_lt; pose proof (kkept_lt k a Ha); nia).
    rewrite L1, L2.
    destruct (mod_div_data (length (kkept k)) a iv Ha) as [E1 E2].
    destruct (mod_div_data (nech k) (ren (kkept k) a) iv (kkept_lt k a Ha)) as [E3 E4].
    rewrite E1, E2, E3, E4. rewrite (nth_s_kreduce k a Ha). reflexivity.
  - rewrite eqren_drift.
    assert (L1 : Nat.ltb (k_nvar k * length (kkept k) + ib) (k_nvar k * length (kkept k)) = false) by (apply Nat.ltb_ge; lia).
    assert (L2 : Nat.ltb (k_nvar k * nech k + ib) (k_nvar k * nech k) = false) by (apply Nat.ltb_ge; lia).
    rewrite L1, L2. reflexivity.
Qed.

(* ---------- counts, authorisation ---------- *)
Lemma count_true_map {A} (f : A -> bool) l : count_true (map f l) = length (filter f l).
Proof.
  unfold count_true. induction l as [|x r IH]; [reflexivity|]. cbn [map filter].
  destruct (f x); cbn [length]; rewrite IH; reflexivity.
Qed.
Lemma length_flat_map_map {A B C} (g : A -> B -> C) (f : A -> list B) l :
  length (flat_map (fun x => map (g x) (f x)) l) = length (flat_map f l).
Proof. induction l as [|x r IH]; [reflexivity|]. cbn [flat_map]. rewrite !app_length, map_length, IH. reflexivity. Qed.

Definition ncov (k : kcase) : nat := count_true (map (flag k) (seq 0 (k_nvar k * nech k))).
Definition ndrf (k : kcase) : nat := count_true (map (flag k) (seq (k_nvar k * nech k) (nfeq k))).

Lemma data_part k :
  filter (flag k) (seq 0 (k_nvar k * nech k)) =
  flat_map (fun iv => map (fun a => ren (kkept k) a + iv * nech k)%nat (Lk k iv)) (seq 0 (k_nvar k)).
Proof.
  rewrite seq_blocks, filter_flat_map. apply flat_map_ext_in. intros iv Hiv. apply in_seq in Hiv.
  apply data_block. lia.
Qed.
Lemma data_part_kreduce k :
  filter (flag (kreduce k)) (seq 0 (k_nvar k * length (kkept k))) =
  flat_map (fun iv => map (fun a => a + iv * length (kkept k))%nat (Lk k iv)) (seq 0 (k_nvar k)).
Proof.
  rewrite seq_blocks, filter_flat_map. apply flat_map_ext_in. intros iv Hiv. apply in_seq in Hiv.
  apply data_block_kreduce. lia.
Qed.

Lemma ncov_kreduce k : ncov (kreduce k) = ncov k.
Proof.
  unfold ncov. rewrite !count_true_map. destruct (kreduce_dims k) as [Ev _]. rewrite Ev, nech_kreduce.
  rewrite data_part, data_part_kreduce.
  rewrite (length_flat_map_map (fun iv a => (a + iv * length (kkept k))%nat) (Lk k)).
  rewrite (length_flat_map_map (fun iv a => (ren (kkept k) a + iv * nech k)%nat) (Lk k)). reflexivity.
Qed.
Lemma ncov_le k : (ncov (kreduce k) <= k_nvar k * length (kkept k))%nat.
Proof.
  unfold ncov. rewrite count_true_map. destruct (kreduce_dims k) as [Ev _]. rewrite Ev, nech_kreduce.
  rewrite <- (seq_length (k_nvar k * length (kkept k)) 0) at 2. apply filter_len_le.
Qed.

Lemma flag_true_adef k i iv :
  (i < nech k)%nat -> (iv < k_nvar k)%nat -> flag k (i + iv * nech k) = true -> any_data_defined k = true.
Proof.
  intros Hi Hv H. rewrite flag_data in H by assumption. apply andb_true_iff in H. destruct H as [_ H].
  unfold any_data_defined. apply existsb_exists. exists (nth_s k i). split; [apply nth_In; exact Hi|].
  apply existsb_exists. exists (nth iv (s_z (nth_s k i)) None). split; [|exact H].
  destruct (Nat.lt_ge_cases iv (length (s_z (nth_s k i)))) as [L|G]; [apply nth_In; exact L|].
  rewrite nth_overflow in H by exact G. discriminate.
Qed.

Lemma ncov_pos_adef k : (0 < ncov k)%nat -> any_data_defined k = true /\ any_data_defined (kreduce k) = true.
Proof.
  intro H. unfold ncov in H. rewrite count_true_map, data_part in H.
  assert (E : exists iv a, (iv < k_nvar k)%nat /\ In a (Lk k iv)).
  { destruct (flat_map (fun iv => map (fun a => ren (kkept k) a + iv * nech k)%nat (Lk k iv)) (seq 0 (k_nvar k))) as [|x r] eqn:F;
      [cbn in H; lia|].
    assert (Hx : In x (x :: r)) by (left; reflexivity). rewrite <- F in Hx. apply in_flat_map in Hx.
    destruct Hx as [iv [Hiv Hx]]. apply in_seq in Hiv. apply in_map_iff in Hx. destruct Hx as [a [_ Ha]].
    exists iv, a. split; [lia|exact Ha]. }
  destruct E as [iv [a [Hv Ha]]]. pose proof (Lk_lt k iv a Ha) as Hlt.
  unfold Lk in Ha. apply filter_In in Ha. destruct Ha as [_ Hf]. split.
  - apply (flag_true_adef k (ren (kkept k) a) iv (kkept_lt k a Hlt) Hv Hf).
  - rewrite <- (flag_data_kreduce k a iv Hlt Hv) in Hf. rewrite <- (nech_kreduce k) in Hf.
    apply (flag_true_adef (kreduce k) a iv); [rewrite nech_kreduce; exact Hlt|exact Hv|exact Hf].
Qed.

Lemma ndrf_adef k : ndrf k = if any_data_defined k then nfeq k else O.
Proof.
  unfold ndrf. rewrite count_true_map, drift_block. destruct (any_data_defined k); [apply seq_length|reflexivity].
Qed.

Lemma authorized_alt k : authorized k = (Nat.leb (nfeq k) (k_nvar k * nech k) && Nat.ltb 0 (ncov k) && Nat.leb (ndrf k) (ncov k))%bool.
Proof. reflexivity. Qed.

Lemma authorized_zero k : ncov k = O -> authorized k = false.
Proof. intro H. rewrite authorized_alt, H. cbn [Nat.ltb Nat.leb]. rewrite andb_false_r. reflexivity. Qed.

Lemma authorized_kreduce k : authorized (kreduce k) = authorized k.
Proof.
  destruct (Nat.eq_dec (ncov k) 0) as [Z|NZ].
  - rewrite (authorized_zero k Z). apply authorized_zero. rewrite ncov_kreduce. exact Z.
  - destruct (ncov_pos_adef k) as [A1 A2]; [lia|].
    rewrite (authorized_alt k), (authorized_alt (kreduce k)). rewrite (ndrf_adef k), (ndrf_adef (kreduce k)), A2, A1. rewrite ncov_kreduce.
    destruct (kreduce_dims k) as [Ev [Ef _]]. rewrite Ev, Ef, nech_kreduce.
    destruct (Nat.leb_spec (nfeq k) (ncov k)) as [L|G].
    + pose proof (ncov_le k) as B. rewrite ncov_kreduce in B. pose proof (kkept_le k) as C.
      assert (L1 : Nat.leb (nfeq k) (k_nvar k * length (kkept k)) = true) by (apply Nat.leb_le; lia).
      assert (L2 : Nat.leb (nfeq k) (k_nvar k * nech k) = true) by (apply Nat.leb_le; nia).
      rewrite L1, L2. reflexivity.
    + rewrite !andb_false_r. reflexivity.
Qed.

Lemma nred_kreduce k : any_data_defined (kreduce k) = any_data_defined k -> nred (kreduce k) = nred k.
Proof. intro HA. unfold nred. rewrite (active_kreduce k HA). rewrite map_length. reflexivity. Qed.

(* ---------- the outputs ---------- *)
Definition kout_match (k : kcase) (o o' : kout) : Prop :=
  o_nred o = o_nred o' /\ o_active o = map (eqren k) (o_active o') /\
  o_lhs o = o_lhs o' /\ o_rhs o = o_rhs o' /\ o_wgt o = o_wgt o' /\ o_zam o = o_zam o' /\
  o_estim o = o_estim o' /\ o_var o = o_var o' /\ o_varz o = o_varz o'.

Lemma krige_kreduce k :
  match krige k, krige (kreduce k) with
  | Some o, Some o' => kout_match k o o'
  | None, None => True
  | _, _ => False
  end.
Proof.
  destruct (Nat.eq_dec (ncov k) 0) as [Z|NZ].
  - assert (A1 : authorized k = false) by (apply authorized_zero; exact Z).
    assert (A2 : authorized (kreduce k) = false) by (rewrite authorized_kreduce; exact A1).
    unfold krige. rewrite A1, A2. cbn [negb]. exact I.
  - destruct (ncov_pos_adef k) as [D1 D2]; [lia|].
    assert (HA : any_data_defined (kreduce k) = any_data_defined k) by (rewrite D1, D2; reflexivity).
    unfold krige. rewrite authorized_kreduce.
    destruct (authorized k); cbn [negb]; [|exact I].
    replace (tdrift_ok (kreduce k)) with (tdrift_ok k) by reflexivity.
    destruct (tdrift_ok k); cbn [negb]; [|exact I].
    rewrite (lhs_c_kreduce k HA), (nred_kreduce k HA).
    assert (ER : rhs_and_data (kreduce k) = rhs_and_data k)
      by (unfold rhs_and_data; rewrite (rhs_c_kreduce k HA), (zext_kreduce k HA); reflexivity).
    rewrite ER. replace (k_nvar (kreduce k)) with (k_nvar k) by reflexivity.
    destruct (solve_checked (nred k) (S (k_nvar k)) (lhs_c k) (rhs_and_data k)) as [WZ|]; [|exact I].
    unfold kout_match. cbn [o_nred o_active o_lhs o_rhs o_wgt o_zam o_estim o_var o_varz].
    rewrite (rhs_c_kreduce k HA).
    assert (EN : count_true (map (flag (kreduce k)) (seq (k_nvar k * nech (kreduce k)) (nfeq (kreduce k)))) =
                 count_true (map (flag k) (seq (k_nvar k * nech k) (nfeq k)))).
    { pose proof (ndrf_adef (kreduce k)) as P1. pose proof (ndrf_adef k) as P2. unfold ndrf in P1, P2.
      rewrite D2 in P1. rewrite D1 in P2. transitivity (nfeq k); [exact P1|symmetry; exact P2]. }
    rewrite EN.
    repeat split; try reflexivity.
    apply (active_kreduce k HA).
Qed.

(* per-variable statement: an undefined value of one variable at a sample gives no equation for that variable,
   whatever the other variables of the sample *)
Lemma value_absent_no_equation k iech ivar :
  (iech < nech k)%nat -> (ivar < k_nvar k)%nat -> value_absent k iech ivar ->
  ~ In (iech + ivar * nech k)%nat (active k).
Proof.
  intros Hi Hv H Hin. apply active_spec in Hin. destruct Hin as [_ Hf].
  rewrite flag_data in Hf by assumption. unfold value_absent in H. rewrite H in Hf.
  rewrite andb_false_r in Hf. discriminate.
Qed.

(* a removed sample gives no equation at all *)
Lemma removed_no_equation k iech ivar :
  (iech < nech k)%nat -> (ivar < k_nvar k)%nat -> ~ In iech (kkept k) -> ~ In (iech + ivar * nech k)%nat (active k).
Proof.
  intros Hi Hv Hn Hin. apply active_spec in Hin. destruct Hin as [_ Hf].
  apply Hn. apply kidx_In. split; [exact Hi|]. apply (flag_implies_keep k iech ivar Hi Hv Hf).
Qed.

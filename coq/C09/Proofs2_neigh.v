(* C09 proofs, second wave, part 3: NeighMoving (fixes/C09_12 for the dimension read by ANeigh). *)
From Coq Require Import List ZArith QArith Bool Lia Arith.
From Gst Require Import C09.Model C09.Readers C09.Readers2 C09.Spec C09.Proofs_prim C09.Proofs2_loops.
Import ListNotations.
Local Open Scope Z_scope.

Section Fixed.
Variable E : env.
Variable flen : Z.
Hypothesis Hcfg : cfg_ge_now (e_cfg E).
Hypothesis Hflen : 0 <= flen.
Hypothesis Hfuel : flen < Z.of_nat (e_fuel E).
Hypothesis Hcap : alloc_bound_grid flen <= e_cap E.
Hypothesis Hfl : e_flen E = flen.
Hypothesis HN : fix_neigh (e_prop E) = true.

Lemma Hcap1 : alloc_bound flen <= e_cap E.
Proof. unfold alloc_bound, alloc_bound_grid in *. nia. Qed.

Ltac early := split; [lia|split; [nia|exact I]].

Theorem neighmoving_fixed : forall m, len m <= flen ->
  rspec (16 * flen * flen + 64 * flen) wf_neighmoving m (neighmoving_deserialize E m).
Proof.
  intros m Hm. pose proof Hcap1 as HC1.
  unfold neighmoving_deserialize, with_options. apply opt_tail_spec; [apply tail_double_reads|]. apply opt_tail_spec; [apply tail_ints_reads|].
  assert (HA : rspec (24 * flen) (fun nd => 0 < nd <= flen) m (aneigh_deserialize E m)) by (apply (aneigh_spec E flen); assumption).
  unfold neighmoving_core, rspec in *. unfold alloc_bound, alloc_bound_grid in *.
  assert (HFC : fix_counts (e_cfg E) = true) by (destruct Hcfg as [H1 [H2 [H3 H4]]]; assumption).
  assert (Hlm : 0 <= len m) by (unfold len; lia).
  destruct (aneigh_deserialize E m) as [ond m1|b]; cbn [bind]; [|contradiction].
  destruct HA as [L1 [G1 W1]]. destruct ond as [ndim|]; [|early].
  destruct (count_ok E ndim m1) eqn:CK; cbn [negb]; [|early].
  apply count_ok_fixed in CK; [|assumption].
  rewrite alloc_ok by lia. cbn [bind].
  set (m2 := mkM (ms m1) (galloc m1 + ndim * 8)).
  assert (L2 : len m2 = len m1) by reflexivity. assert (G2 : galloc m2 = galloc m1 + ndim * 8) by reflexivity.
  pose proof (read_ints_spec 5 5 0 [] m2 ltac:(lia) ltac:(simpl; lia)) as R3. unfold loop_post in R3.
  destruct (read_ints 5 5 0 [] m2) as [oi m3|b]; cbn [bind]; [|contradiction].
  destruct R3 as [L3 [G3 W3]]. destruct oi as [ints|]; [|early].
  pose proof (read_double_reads m3) as R4. destruct (read_double m3) as [od m4|b]; cbn [bind reads] in *; [|contradiction].
  destruct R4 as [L4 G4]. destruct od as [dmax|]; [|early].
  pose proof (read_int_reads m4) as R5. destruct (read_int m4) as [oa m5|b]; cbn [bind reads] in *; [|contradiction].
  destruct R5 as [L5 G5]. destruct oa as [fa|]; [|early].
  assert (WI : zlen ints = 5) by (unfold zlen in *; simpl in W3; lia).
  destruct (fa =? 0).
  { split; [lia|split; [nia|]]. unfold wf_neighmoving. cbn [nm_ndim nm_ints nm_coeffs nm_rotmat].
    split; [lia|split; [assumption|split; left; reflexivity]]. }
  rewrite alloc_ok by lia. cbn [bind].
  set (m6 := mkM (ms m5) (galloc m5 + ndim * 8)).
  assert (L6 : len m6 = len m5) by reflexivity. assert (G6 : galloc m6 = galloc m5 + ndim * 8) by reflexivity.
  pose proof (read_doubles_spec (e_fuel E) ndim 0 [] m6 ltac:(lia) ltac:(lia)) as R7. unfold loop_post in R7.
  destruct (read_doubles (e_fuel E) ndim 0 [] m6) as [oc m7|b]; cbn [bind]; [|contradiction].
  destruct R7 as [L7 [G7 W7]]. destruct oc as [coeffs|]; [|early].
  pose proof (read_int_reads m7) as R8. destruct (read_int m7) as [orf m8|b]; cbn [bind reads] in *; [|contradiction].
  destruct R8 as [L8 G8]. destruct orf as [fr|]; [|early].
  assert (WC : zlen coeffs = ndim) by (unfold zlen in *; simpl in W7; lia).
  destruct (fr =? 0).
  { rewrite alloc_ok by nia. cbn [bind]. split; [unfold len in *; simpl; lia|split; [cbn [galloc]; nia|]].
    unfold wf_neighmoving. cbn [nm_ndim nm_ints nm_coeffs nm_rotmat].
    split; [lia|split; [assumption|split; [right; assumption|left; reflexivity]]]. }
  destruct (count_ok E (ndim * ndim) m8) eqn:CK2; cbn [negb]; [|early].
  apply count_ok_fixed in CK2; [|assumption].
  rewrite alloc_ok by nia. cbn [bind].
  set (m9 := mkM (ms m8) (galloc m8 + ndim * ndim * 8)).
  assert (L9 : len m9 = len m8) by reflexivity. assert (G9 : galloc m9 = galloc m8 + ndim * ndim * 8) by reflexivity.
  pose proof (read_doubles_spec (e_fuel E) (ndim * ndim) 0 [] m9 ltac:(nia) ltac:(lia)) as R10. unfold loop_post in R10.
  destruct (read_doubles (e_fuel E) (ndim * ndim) 0 [] m9) as [orm m10|b]; cbn [bind]; [|contradiction].
  destruct R10 as [L10 [G10 W10]]. destruct orm as [rot|]; [|early].
  rewrite alloc_ok by nia. cbn [bind]. split; [unfold len in *; simpl; lia|split; [cbn [galloc]; nia|]].
  unfold wf_neighmoving. cbn [nm_ndim nm_ints nm_coeffs nm_rotmat].
  split; [lia|split; [assumption|split; [right; assumption|right]]]. unfold zlen in *. simpl in W10. lia.
Qed.
End Fixed.

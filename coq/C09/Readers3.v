(* C09 model, CSV: csv_table_read (/repo/src/Core/convert.cpp:518), toDouble (/repo/src/Basic/String.cpp:498),
   skipBOM (/repo/src/Basic/File.cpp:96) and the part of Db::resetFromCSV (/repo/src/Db/Db.cpp:117) that decides the shape
   of the table. The stream is only tested with eof(): the state is the list of remaining bytes and the eof bit.
   [fixc] = fixes/C09_15 (committed: the code as it is now has fixc = true; false = the reader before the fix, kept to
   recognise a regression). [fixr] = proposed fixes/C09_18 (a rank taken from a column name is ignored when it is not below
   the number of columns). Proofs: Proofs3_csv.v. *)
From Coq Require Import List ZArith QArith Bool.
From Gst Require Import C09.Model C09.Readers.
Import ListNotations.
Local Open Scope Z_scope.

Record csvfmt := mkCsv { c_header : bool; c_nskip : Z; c_sep : Z; c_dec : Z; c_ncolmax : Z; c_nrowmax : Z; c_rank : bool }.

(* std::getline(iss, word, sep) in a loop: the pieces between separators; a trailing separator gives no empty last piece *)
Fixpoint split_sep (sep : Z) (l : list Z) (cur : list Z) : list (list Z) :=
  match l with
  | [] => match cur with [] => [] | _ => [frev cur] end
  | c :: r => if c =? sep then frev cur :: split_sep sep r [] else split_sep sep r (c :: cur)
  end.
(* what the loop delivers when the line ends right after a separator: the pieces before it (the last, empty, piece is not read) —
   but a piece that is empty in the middle, or a line reduced to separators, does give empty pieces *)
Definition pieces (sep : Z) (l : list Z) : list (list Z) := split_sep sep l [].

(* trim(word, double and single quotes) then trim(word) *)
Definition isquote (c : Z) : bool := (c =? 34) || (c =? 39).
Definition trimq (l : list Z) : list Z := dropwhile isquote (frev (dropwhile isquote (frev l))).
Definition trim_right (l : list Z) : list Z := frev (dropwhile issp4 (frev l)).

(* toDouble(word, dec): operator>> with the decimal point [dec]; failbit gives TEST *)
Definition parse_double_dec (dec : Z) (w0 : list Z) : num :=
  let w := dropwhile isspace w0 in
  let (neg, l1) := take_sign w in
  let (d1, l2) := span_digits l1 in
  let '(d2, l3) := match l2 with
                   | c :: r => if c =? dec then span_digits r else ([], l2)
                   | [] => ([], l2)
                   end in
  let mant := d1 ++ d2 in
  let '(sci, eneg, de) :=
    match l3 with
    | c :: r => if ((c =? 101) || (c =? 69)) && negb (is_nil mant)
                then let (en, r1) := take_sign r in let (dd, _) := span_digits r1 in (true, en, dd)
                else (false, false, [])
    | [] => (false, false, [])
    end in
  if is_nil mant || (sci && is_nil de) then NA
  else
    let ev := (if eneg then -1 else 1) * digits_val 0 de in
    let '(ovf, q) := dec_value neg (digits_val 0 mant) (ev - Z.of_nat (length d2)) (Z.of_nat (length mant)) in
    if ovf then NA else Num q.
Definition csv_value (dec : Z) (w : list Z) : num := if bytes_eqb w str_NA then NA else parse_double_dec dec w.

(* the values of one data line: at most [lim] of them when lim > 0 *)
Fixpoint take_lim (lim : Z) (k : Z) (ws : list (list Z)) : list (list Z) :=
  match ws with
  | [] => []
  | w :: r => if (0 <? lim) && (lim <=? k + 1) then [w] else w :: take_lim lim (k + 1) r
  end.
Definition lim_of (ncolmax ncol : Z) : Z :=
  if (0 <? ncolmax) && (0 <? ncol) then Z.min ncolmax ncol else if 0 <? ncolmax then ncolmax else ncol.

(* the loop over the data lines *)
Fixpoint csv_rows (fuel : nat) (F : csvfmt) (s : stream) (ncol nrow : Z) (tab : list num) : option (Z * Z * list num) :=
  if eofb s then Some (ncol, nrow, tab) else
  match fuel with
  | O => None
  | S f =>
      let (line, s1) := getline s in
      if is_nil line then
        (if (0 <? c_nrowmax F) && (c_nrowmax F <=? nrow) then Some (ncol, nrow, tab) else csv_rows f F s1 ncol nrow tab)
      else
        let ws := take_lim (lim_of (c_ncolmax F) ncol) 0 (pieces (c_sep F) line) in
        let ncol' := if ncol <=? 0 then zlen ws else ncol in
        let tab' := rev_append (map (csv_value (c_dec F)) ws) tab in
        if (0 <? c_nrowmax F) && (c_nrowmax F <=? nrow + 1) then Some (ncol', nrow + 1, tab')
        else csv_rows f F s1 ncol' (nrow + 1) tab'
  end.
Fixpoint csv_skip (n : nat) (s : stream) : stream :=
  match n with O => s | S k => if eofb s then s else csv_skip k (snd (getline s)) end.
(* in.read(test, 3): on a file shorter than 3 bytes the read fails (failbit) and the seekg(0) that follows does nothing on a failed
   stream: the file is seen as empty *)
Definition skip_bom (f : list Z) : list Z :=
  match f with
  | 239 :: 187 :: 191 :: r => r
  | _ :: _ :: _ :: _ => f
  | _ => []
  end.

Record csvtab := mkCT { ct_ncol : Z; ct_nrow : Z; ct_names : list (list Z); ct_tab : list num }.
(* csv_table_read: None = fuel exhausted *)
Definition csv_table_read (fuel : nat) (F : csvfmt) (f : list Z) : option csvtab :=
  let s0 := mkS (skip_bom f) false false in
  let '(names, s1) :=
    if c_header F then
      let (line, s) := getline s0 in
      if is_nil line then ([], s)
      else (map (fun w => trim (trimq w)) (take_lim (c_ncolmax F) 0 (pieces (c_sep F) (trim_right line))), s)
    else ([], s0) in
  let s2 := csv_skip (Z.to_nat (c_nskip F)) s1 in
  match csv_rows fuel F s2 (zlen names) 0 [] with
  | None => None
  | Some (ncol, nrow, tab) => Some (mkCT ncol nrow names (frev tab))
  end.

(* names turned into words (fixes/C09_15) *)
Definition word_name (i : Z) (nm : list Z) : list Z :=
  let t := trim nm in
  if is_nil t then [86; 97; 114; 46] ++ dec_digits 20 (i + 1) []
  else map (fun c => if (c =? 32) || (c =? 9) then 95 else c) t.
Fixpoint word_names (i : Z) (l : list (list Z)) : list (list Z) :=
  match l with [] => [] | nm :: r => word_name i nm :: word_names (i + 1) r end.

(* correctNewNameForDuplicates applied to each name in turn (Db::_setNameByColIdx) *)
Fixpoint other_eq (l : list (list Z)) (i rank : nat) (nm : list Z) : bool :=
  match l with [] => false | x :: r => (negb (Nat.eqb i rank) && bytes_eqb x nm) || other_eq r (S i) rank nm end.
Fixpoint dedup_at (fuel : nat) (l : list (list Z)) (rank : nat) : list (list Z) :=
  match fuel with
  | O => l
  | S f => let nm := nth rank l [] in
           if other_eq l 0 rank nm then dedup_at f (upd_nth l rank (nm ++ [46; 49])) rank else l
  end.
Fixpoint set_names (cur : list (list Z)) (shift : nat) (i : nat) (names : list (list Z)) : list (list Z) :=
  match names with
  | [] => cur
  | nm :: r => set_names (dedup_at (S (length cur)) (upd_nth cur (shift + i) nm) (shift + i)) shift (S i) r
  end.
Definition str_rank : list Z := [114; 97; 110; 107].

(* CsvThrow: my_throw of the library; CsvAlloc: std::bad_alloc out of setLocatorByUID (a rank used as a size) *)
Inductive csvout := CsvFail | CsvThrow | CsvAlloc | CsvHang | CsvOk (d : db).
Fixpoint guess_locs (l : list (list Z)) : list (Z * Z) :=
  match l with
  | [] => []
  | w :: r => let '(err, typ, idx) := locator_identify w in (if err then (-1, 0) else (typ, idx)) :: guess_locs r
  end.
Definition shift_tab (k : Z) (tab : list (Z * Z)) : list (Z * Z) := repeat (-1, 0) (Z.to_nat k) ++ tab.

(* fixes/C09_18: _defineDefaultLocatorsByNames does not call setLocatorByUID for a rank that is not below the number of columns *)
Definition drop_big (ncolT : Z) (tab : list (Z * Z)) : list (Z * Z) :=
  map (fun p => if snd p <? ncolT then p else (-1, 0)) tab.

Definition db_of_table (E : env) (fixc fixr : bool) (F : csvfmt) (ct : csvtab) : csvout :=
      let tab := ct_tab ct in
      let nrow := ct_nrow ct in
      let names0 := ct_names ct in
      if fixc && (is_nil tab || (nrow <=? 0) || negb (zlen tab =? ct_ncol ct * nrow)
                  || (negb (is_nil names0) && negb (zlen names0 =? ct_ncol ct))) then CsvFail else
      let names := if fixc then word_names 0 names0 else names0 in
      let ncol := if is_nil tab then 0 else zlen tab / nrow in
      let shift := if c_rank F then 1 else 0 in
      let ncolT := ncol + shift in
      (* _loadData: nothing is loaded when the size is not a multiple of the number of samples *)
      let loaded := negb (ncolT <=? 0) && negb (is_nil tab) && (zlen tab mod nrow =? 0) in
      let arr_rank := if c_rank F then map (fun i => Num (inject_Z (i + 1))) (zseq nrow) else [] in
      let arr := if loaded then load_data ncol nrow tab else repeat zero (Z.to_nat (ncol * nrow)) in
      (* names: "rank", then the names of the file when their number fits, else New.k; a wrong number throws later *)
      let defaults := map new_name (map (Z.add 1) (zseq ncolT)) in
      let cur0 := if c_rank F then upd_nth defaults 0 str_rank else defaults in
      let nm_used := if is_nil names then map new_name (map (Z.add 1) (zseq ncol)) else names in
      if negb (is_nil names) && negb (zlen names =? ncol) then
        CsvThrow                                  (* _defineDefaultLocatorsByNames: "Error in the dimension of 'names'" *)
      else
      let cur := set_names cur0 (Z.to_nat shift) 0 nm_used in
      let tabl := if is_nil names then [] else shift_tab shift (guess_locs names) in
      match apply_locs E ncolT 0 (if fixr then drop_big ncolT tabl else tabl) no_loc (mkM (mkS [] true false) 0) with
      | Bad _ => CsvAlloc
      | Ret locs _ =>
          let locs' := if fixc && negb (post_ok tabl locs) then no_loc else locs in
          CsvOk (mkDb ncolT nrow cur (zseq ncolT) locs' (arr_rank ++ arr))
      end.
Definition db_from_csv (E : env) (fixc fixr : bool) (F : csvfmt) (f : list Z) : csvout :=
  match csv_table_read (S (length f)) F f with
  | None => CsvHang
  | Some ct => db_of_table E fixc fixr F ct
  end.

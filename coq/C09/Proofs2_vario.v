(* C09 proofs, second wave, part 4: Vario with fixes/C09_13. *)
From Coq Require Import List ZArith QArith Bool Lia Arith.
From Gst Require Import C09.Model C09.Readers C09.Readers2 C09.Spec C09.Proofs_prim C09.Proofs2_loops C09.Proofs_db.
Import ListNotations.
Local Open Scope Z_scope.

Section Fixed.
Variable E : env.
Variable flen : Z.
Hypothesis Hcfg : cfg_ge_now (e_cfg E).
Hypothesis Hflen : 0 <= flen < 2147483648.
Hypothesis Hfuel : flen < Z.of_nat (e_fuel E).
Hypothesis Hcap : alloc_bound_vario flen <= e_cap E.
Hypothesis HV : fix_vario (e_prop E) = true.

Let HFS : fix_store (e_cfg E) = true. Proof. destruct Hcfg as [H1 [H2 [H3 H4]]]; assumption. Qed.
Let HFC : fix_counts (e_cfg E) = true. Proof. destruct Hcfg as [H1 [H2 [H3 H4]]]; assumption. Qed.

Lemma vario_results_spec : forall fuel size i m, 0 <= i <= size -> size - i <= Z.of_nat fuel ->
  match vario_results fuel size i m with
  | Ret _ m' => len m' <= len m /\ galloc m' = galloc m
  | Bad _ => False
  end.
Proof.
  induction fuel as [|f IH]; intros size i m Hi Hf; cbn [vario_results].
  - destruct (i <? size) eqn:C; [apply Z.ltb_lt in C; simpl in Hf; lia|]. split; [lia|reflexivity].
  - destruct (i <? size) eqn:C; [|split; [lia|reflexivity]]. apply Z.ltb_lt in C.
    pose proof (read_doubles_spec 3 3 0 [] m ltac:(lia) ltac:(simpl; lia)) as R. unfold loop_post in R.
    destruct (read_doubles 3 3 0 [] m) as [o m1|b]; cbn [bind]; [|contradiction]. destruct R as [L1 [G1 _]].
    destruct o; [|split; [lia|assumption]].
    specialize (IH size (i + 1) m1 ltac:(lia) ltac:(lia)).
    destruct (vario_results f size (i + 1) m1) as [r m'|b]; [|contradiction]. destruct IH. split; [lia|congruence].
Qed.

(* one vector record of ndim values *)
Lemma read_vec_ndim : forall site sz ndim m, 0 <= sz <= 8 -> 0 <= ndim <= flen -> len m <= flen ->
  match read_vec E site sz ndim m with
  | Ret o m' => len m' <= len m /\ galloc m <= galloc m' <= galloc m + 8 * ndim
  | Bad _ => False
  end.
Proof.
  intros site sz ndim m Hs Hn Hm. unfold read_vec. unfold alloc_bound_vario in Hcap.
  rewrite alloc_ok by nia. cbn [bind].
  pose proof (read_vec_raw_fixed E site ndim 0 ndim (mkM (ms m) (galloc m + ndim * sz)) HFS ltac:(lia) ltac:(lia)) as H.
  unfold vec_post in H. destruct (read_vec_raw E site ndim 0 ndim (mkM (ms m) (galloc m + ndim * sz))) as [o m'|b]; [|contradiction].
  destruct H as [H1 [H2 _]]. cbn [galloc] in H2. split; [exact H1|nia].
Qed.

(* the optional vectors of the files with flag_calcul >= 4 (date bounds; breaks of a direction) *)
Lemma vario_opt_vec_spec : forall site m, len m <= flen ->
  match vario_opt_vec E site m with
  | Ret _ m' => len m' <= len m /\ galloc m <= galloc m' <= galloc m + 8 * flen
  | Bad _ => False
  end.
Proof.
  intros site m Hm. unfold vario_opt_vec. assert (Hlm : 0 <= len m) by (unfold len; lia).
  pose proof (read_int_reads m) as R1. destruct (read_int m) as [on m1|b]; cbn [bind reads] in *; [|contradiction].
  destruct R1 as [L1 G1]. destruct on as [n|]; [|split; [lia|lia]].
  destruct ((n <? 0) || negb (count_ok E n m1)) eqn:CK; [split; [lia|lia]|].
  apply orb_false_iff in CK. destruct CK as [C0 CK]. apply negb_false_iff in CK. apply count_ok_fixed in CK; [|assumption].
  destruct (0 <? n); [|split; [lia|lia]].
  pose proof (read_vec_ndim site 8 n m1 ltac:(lia) ltac:(lia) ltac:(lia)) as RV.
  destruct (read_vec E site 8 n m1) as [ov m2|b]; cbn [bind]; [|contradiction]. destruct RV as [L2 G2]. split; [lia|lia].
Qed.
Lemma vario_dir_extra_spec : forall m, len m <= flen ->
  match vario_dir_extra E m with
  | Ret _ m' => len m' <= len m /\ galloc m <= galloc m' <= galloc m + 8 * flen
  | Bad _ => False
  end.
Proof.
  intros m Hm. unfold vario_dir_extra. assert (Hlm : 0 <= len m) by (unfold len; lia).
  pose proof (read_doubles_spec 2 2 0 [] m ltac:(lia) ltac:(simpl; lia)) as R1. unfold loop_post in R1.
  destruct (read_doubles 2 2 0 [] m) as [o m1|b]; cbn [bind]; [|contradiction]. destruct R1 as [L1 [G1 _]].
  destruct o; [|split; [lia|lia]].
  pose proof (read_int_reads m1) as R2. destruct (read_int m1) as [oi m2|b]; cbn [bind reads] in *; [|contradiction].
  destruct R2 as [L2 G2]. destruct oi; [|split; [lia|lia]].
  pose proof (vario_opt_vec_spec 82 m2 ltac:(lia)) as R3. destruct (vario_opt_vec E 82 m2) as [ok m3|b]; [|contradiction].
  destruct R3. split; [lia|lia].
Qed.

Lemma vario_dirs_spec : forall fuel ndim nvar ndir fc asym idir dirs m,
  len m <= flen -> 0 <= ndim <= flen -> 0 < nvar -> 0 <= idir <= ndir -> ndir - idir <= Z.of_nat fuel -> zlen dirs = idir ->
  match vario_dirs E fuel ndim nvar ndir fc asym idir dirs m with
  | Ret o m' => len m' <= len m /\ galloc m <= galloc m' <= galloc m + 64 * flen * (ndir - idir) /\
                match o with Some ds => zlen ds = ndir | None => True end
  | Bad _ => False
  end.
Proof.
  unfold alloc_bound_vario in Hcap.
  induction fuel as [|f IH]; intros ndim nvar ndir fc asym idir dirs m Hm Hnd Hnv Hi Hf Hd; cbn [vario_dirs].
  - destruct (idir <? ndir) eqn:C; [apply Z.ltb_lt in C; simpl in Hf; lia|]. apply Z.ltb_ge in C.
    replace (ndir - idir) with 0 by lia. split; [lia|split; [lia|lia]].
  - assert (Hlm : 0 <= len m) by (unfold len; lia).
    destruct (idir <? ndir) eqn:C; [|apply Z.ltb_ge in C; replace (ndir - idir) with 0 by lia; split; [lia|split; [lia|lia]]]. apply Z.ltb_lt in C.
    assert (HK : 64 * flen * (ndir - idir) = 64 * flen * (ndir - (idir + 1)) + 64 * flen) by ring.
    assert (HK0 : 0 <= 64 * flen * (ndir - (idir + 1))) by (clear - Hflen C; nia).
    assert (EARLY : forall m', len m' <= len m -> galloc m <= galloc m' <= galloc m + 64 * flen ->
            len m' <= len m /\ galloc m <= galloc m' <= galloc m + 64 * flen * (ndir - idir) /\ True).
    { intros m' A B. split; [lia|split; [rewrite HK; lia|exact I]]. }
    pose proof (read_ints_spec 2 2 0 [] m ltac:(lia) ltac:(simpl; lia)) as R1. unfold loop_post in R1.
    destruct (read_ints 2 2 0 [] m) as [o1 m1|b]; cbn [bind]; [|contradiction]. destruct R1 as [L1 [G1 W1]].
    destruct o1 as [[|x1 [|npas [|x3 l3]]]|]; try (apply EARLY; lia).
    destruct ((npas <? 0) || (negb (fc =? 0) && negb (count_ok E npas m1))) eqn:CN; [apply EARLY; lia|].
    apply orb_false_iff in CN. destruct CN as [CN1 CN2]. apply Z.ltb_ge in CN1.
    pose proof (read_int_reads m1) as R2. destruct (read_int m1) as [o2 m2|b]; cbn [bind reads] in *; [|contradiction].
    destruct R2 as [L2 G2]. destruct o2; [|apply EARLY; lia].
    pose proof (read_doubles_spec 3 3 0 [] m2 ltac:(lia) ltac:(simpl; lia)) as R3. unfold loop_post in R3.
    destruct (read_doubles 3 3 0 [] m2) as [o3 m3|b]; cbn [bind]; [|contradiction]. destruct R3 as [L3 [G3 _]].
    destruct o3; [|apply EARLY; lia].
    pose proof (read_int_reads m3) as R4. destruct (read_int m3) as [o4 m4|b]; cbn [bind reads] in *; [|contradiction].
    destruct R4 as [L4 G4]. destruct o4 as [isgrid|]; [|apply EARLY; lia].
    (* the direction vector(s) *)
    set (rd := if isgrid =? 0 then
                 bind (read_double m4) (fun ot ma => match ot with None => Ret None ma | Some _ => read_vec E 82 8 ndim ma end)
               else
                 bind (read_vec E 82 4 ndim m4) (fun og ma => match og with None => Ret None ma | Some _ => read_vec E 82 8 ndim ma end)).
    assert (HRD : match rd with Ret o m5 => len m5 <= len m4 /\ galloc m4 <= galloc m5 <= galloc m4 + 16 * ndim | Bad _ => False end).
    { unfold rd. destruct (isgrid =? 0).
      - pose proof (read_double_reads m4) as Ra. destruct (read_double m4) as [ot ma|b]; cbn [bind reads] in *; [|contradiction].
        destruct Ra as [La Ga]. destruct ot; [|split; [lia|lia]].
        pose proof (read_vec_ndim 82 8 ndim ma ltac:(lia) Hnd ltac:(lia)) as Rb.
        destruct (read_vec E 82 8 ndim ma) as [o m5|b]; [|contradiction]. destruct Rb. split; [lia|lia].
      - pose proof (read_vec_ndim 82 4 ndim m4 ltac:(lia) Hnd ltac:(lia)) as Ra.
        destruct (read_vec E 82 4 ndim m4) as [og ma|b]; cbn [bind]; [|contradiction]. destruct Ra as [La Ga].
        destruct og; [|split; [lia|lia]].
        pose proof (read_vec_ndim 82 8 ndim ma ltac:(lia) Hnd ltac:(lia)) as Rb.
        destruct (read_vec E 82 8 ndim ma) as [o m5|b]; [|contradiction]. destruct Rb. split; [lia|lia]. }
    fold rd. destruct rd as [o5 m5|b]; cbn [bind]; [|contradiction]. destruct HRD as [L5 G5].
    destruct o5 as [codir|]; [|apply EARLY; lia].
    assert (HX : match (if 4 <=? fc then vario_dir_extra E m5 else Ret true m5) with
                 | Ret _ m5x => len m5x <= len m5 /\ galloc m5 <= galloc m5x <= galloc m5 + 8 * flen | Bad _ => False end).
    { destruct (4 <=? fc); [apply vario_dir_extra_spec; lia|split; [lia|lia]]. }
    destruct (if 4 <=? fc then vario_dir_extra E m5 else Ret true m5) as [ox m5x|b]; cbn [bind]; [|contradiction].
    destruct HX as [L5x G5x]. destruct ox; cbn [negb]; [|apply EARLY; lia].
    rewrite alloc_ok by lia. cbn [bind].
    set (m6 := mkM (ms m5x) (galloc m5x + ndim * 24)).
    assert (L6 : len m6 = len m5x) by reflexivity. assert (G6 : galloc m6 = galloc m5x + ndim * 24) by reflexivity.
    rewrite HV. cbn [andb].
    set (is_grid := negb (isgrid =? 0) && (0 <? ndim)).
    destruct (negb (match dirs with [] => true | d :: _ => Bool.eqb (vd_grid d) is_grid end)) eqn:CA; [apply EARLY; lia|].
    apply negb_false_iff in CA. rewrite CA.
    set (mk := fun sz : Z => mkVD npas is_grid (map value_double codir) sz).
    assert (HDL : forall d, zlen (dirs ++ [d]) = idir + 1) by (intros d; unfold zlen in *; rewrite app_length; simpl; lia).
    destruct (fc =? 0) eqn:CF.
    + specialize (IH ndim nvar ndir fc asym (idir + 1) (dirs ++ [mk 0]) m6 ltac:(lia) Hnd Hnv ltac:(lia) ltac:(lia) (HDL _)).
      destruct (vario_dirs E f ndim nvar ndir fc asym (idir + 1) (dirs ++ [mk 0]) m6) as [o m'|b]; [|contradiction].
      destruct IH as [I1 [I2 I3]]. split; [lia|split; [rewrite HK; lia|exact I3]].
    + simpl in CN2. apply negb_false_iff in CN2. apply count_ok_fixed in CN2; [|assumption].
      replace (idir <? zlen (dirs ++ [mk 0])) with true by (symmetry; apply Z.ltb_lt; rewrite HDL; lia).
      replace (nth (Z.to_nat idir) (dirs ++ [mk 0]) (mk 0)) with (mk 0)
        by (rewrite app_nth2 by (unfold zlen in Hd; lia); replace (Z.to_nat idir - length dirs)%nat with 0%nat by (unfold zlen in Hd; lia); reflexivity).
      cbn [vd_npas mk].
      set (size := (if asym then 2 * npas + 1 else npas) * nvar * (nvar + 1) / 2).
      destruct (negb (count_ok E (3 * size) m6)) eqn:CS; [apply EARLY; lia|].
      apply negb_false_iff in CS. apply count_ok_fixed in CS; [|assumption]. clearbody size.
      rewrite alloc_ok by lia. cbn [bind].
      set (m7 := mkM (ms m6) (galloc m6 + 4 * size * 8)).
      assert (L7 : len m7 = len m6) by reflexivity. assert (G7 : galloc m7 = galloc m6 + 4 * size * 8) by reflexivity.
      pose proof (vario_results_spec (e_fuel E) size 0 m7 ltac:(lia) ltac:(lia)) as RR.
      destruct (vario_results (e_fuel E) size 0 m7) as [okr m8|b]; cbn [bind]; [|contradiction]. destruct RR as [L8 G8].
      destruct okr; [|apply EARLY; lia].
      specialize (IH ndim nvar ndir fc asym (idir + 1) (dirs ++ [mk size]) m8 ltac:(lia) Hnd Hnv ltac:(lia) ltac:(lia) (HDL _)).
      destruct (vario_dirs E f ndim nvar ndir fc asym (idir + 1) (dirs ++ [mk size]) m8) as [o m'|b]; [|contradiction].
      destruct IH as [I1 [I2 I3]]. split; [lia|split; [rewrite HK; lia|exact I3]].
Qed.

Theorem vario_fixed : forall m, len m <= flen -> rspec (64 * flen * flen + 256 * flen) wf_vario m (vario_deserialize E m).
Proof.
  intros m Hm. unfold vario_deserialize, rspec. unfold alloc_bound_vario in Hcap.
  assert (Hlm : 0 <= len m) by (unfold len; lia).
  assert (EARLY : forall m', len m' <= len m -> galloc m <= galloc m' <= galloc m + 256 * flen ->
          len m' <= len m /\ galloc m <= galloc m' <= galloc m + (64 * flen * flen + 256 * flen) /\ True).
  { intros m' A B. split; [lia|split; [nia|exact I]]. }
  pose proof (read_ints_spec 3 3 0 [] m ltac:(lia) ltac:(simpl; lia)) as R1. unfold loop_post in R1.
  destruct (read_ints 3 3 0 [] m) as [o1 m1|b]; cbn [bind]; [|contradiction]. destruct R1 as [L1 [G1 _]].
  destruct o1 as [[|ndim [|nvar [|ndir [|x l]]]]|]; try (apply EARLY; lia).
  pose proof (read_double_reads m1) as R2. destruct (read_double m1) as [os m2|b]; cbn [bind reads] in *; [|contradiction].
  destruct R2 as [L2 G2]. destruct os; [|apply EARLY; lia].
  pose proof (read_int_reads m2) as R3. destruct (read_int m2) as [of m3|b]; cbn [bind reads] in *; [|contradiction].
  destruct R3 as [L3 G3]. destruct of as [fc|]; [|apply EARLY; lia].
  destruct ((ndim <? 0) || (nvar <=? 0) || ((0 <? ndir) && (ndim =? 0)) || negb (count_ok E ndim m3) || negb (count_ok E ndir m3)
            || negb (count_ok E (if fc =? 0 then nvar else nvar * nvar) m3)) eqn:CG; [apply EARLY; lia|].
  repeat (apply orb_false_iff in CG; destruct CG as [CG ?]).
  apply Z.ltb_ge in CG.
  match goal with H : (nvar <=? 0) = false |- _ => apply Z.leb_gt in H end.
  repeat match goal with H : negb (count_ok E ?n m3) = false |- _ => apply negb_false_iff in H; apply count_ok_fixed in H; [|assumption] end.
  rewrite HV. cbn [andb].
  destruct (negb (count_ok E (nvar * nvar) m3)) eqn:CV; [apply EARLY; lia|].
  apply negb_false_iff in CV. apply count_ok_fixed in CV; [|assumption].
  assert (HNV : nvar <= nvar * nvar) by nia.
  rewrite alloc_ok by lia. cbn [bind].
  set (m4 := mkM (ms m3) (galloc m3 + nvar * 32)).
  assert (L4 : len m4 = len m3) by reflexivity. assert (G4 : galloc m4 = galloc m3 + nvar * 32) by reflexivity.
  assert (HNM : match (if 2 <=? fc then bind (read_strings (e_fuel E) nvar 0 [] m4) (fun _ mm => Ret tt mm) else Ret tt m4) with
                | Ret _ m5 => len m5 <= len m4 /\ galloc m5 = galloc m4 | Bad _ => False end).
  { destruct (2 <=? fc); [|split; [lia|reflexivity]].
    pose proof (read_strings_spec (e_fuel E) nvar 0 [] m4 ltac:(lia) ltac:(lia)) as RS.
    destruct (read_strings (e_fuel E) nvar 0 [] m4) as [l mm|b]; cbn [bind]; [|contradiction]. exact RS. }
  destruct (if 2 <=? fc then bind (read_strings (e_fuel E) nvar 0 [] m4) (fun _ mm => Ret tt mm) else Ret tt m4) as [u m5|b];
    cbn [bind]; [|contradiction]. destruct HNM as [L5 G5].
  rewrite wrap32_small by nia. rewrite alloc_ok by nia. cbn [bind].
  set (m6 := mkM (ms m5) (galloc m5 + nvar * nvar * 8)).
  assert (L6 : len m6 = len m5) by reflexivity. assert (G6 : galloc m6 = galloc m5 + nvar * nvar * 8) by reflexivity.
  assert (HVR : match (if fc =? 0 then Ret (Some []) m6 else read_doubles (e_fuel E) (nvar * nvar) 0 [] m6) with
                | Ret o m7 => len m7 <= len m6 /\ galloc m7 = galloc m6 | Bad _ => False end).
  { destruct (fc =? 0); [split; [lia|reflexivity]|].
    pose proof (read_doubles_spec (e_fuel E) (nvar * nvar) 0 [] m6 ltac:(nia) ltac:(lia)) as RD. unfold loop_post in RD.
    destruct (read_doubles (e_fuel E) (nvar * nvar) 0 [] m6); [|contradiction]. destruct RD as [A [B _]]. split; assumption. }
  destruct (if fc =? 0 then Ret (Some []) m6 else read_doubles (e_fuel E) (nvar * nvar) 0 [] m6) as [ov m7|b]; cbn [bind]; [|contradiction].
  destruct HVR as [L7 G7]. destruct ov; [|apply EARLY; [lia|nia]].
  rewrite alloc_ok by nia. cbn [bind].
  set (m8 := mkM (ms m7) (galloc m7 + 4 * ndir * 24)).
  assert (L8 : len m8 = len m7) by reflexivity. assert (G8 : galloc m8 = galloc m7 + 4 * ndir * 24) by reflexivity.
  assert (HT : match (if 3 <=? fc then read_int m8 else Ret (Some 0) m8) with
               | Ret o m9 => len m9 <= len m8 /\ galloc m9 = galloc m8 | Bad _ => False end).
  { destruct (3 <=? fc); [|split; [lia|reflexivity]]. pose proof (read_int_reads m8) as R. destruct (read_int m8); [exact R|contradiction]. }
  destruct (if 3 <=? fc then read_int m8 else Ret (Some 0) m8) as [ot m9|b]; cbn [bind]; [|contradiction].
  destruct HT as [L9 G9]. destruct ot as [calc|]; [|apply EARLY; [lia|nia]].
  destruct ((3 <=? fc) && ((calc <? 0) || (13 <? calc))); [apply EARLY; [lia|nia]|].
  assert (HX : match (if 4 <=? fc then vario_opt_vec E 81 m9 else Ret true m9) with
               | Ret _ m9x => len m9x <= len m9 /\ galloc m9 <= galloc m9x <= galloc m9 + 8 * flen | Bad _ => False end).
  { destruct (4 <=? fc); [apply vario_opt_vec_spec; lia|split; [lia|lia]]. }
  destruct (if 4 <=? fc then vario_opt_vec E 81 m9 else Ret true m9) as [odt m9x|b]; cbn [bind]; [|contradiction].
  destruct HX as [L9x G9x]. destruct odt; cbn [negb]; [|apply EARLY; [lia|nia]].
  pose proof (vario_dirs_spec (e_fuel E) ndim nvar ndir fc (calcul_asym calc) 0 [] m9x ltac:(lia) ltac:(lia) ltac:(lia) ltac:(lia) ltac:(lia) eq_refl) as HD.
  destruct (vario_dirs E (e_fuel E) ndim nvar ndir fc (calcul_asym calc) 0 [] m9x) as [od m10|b]; cbn [bind]; [|contradiction].
  destruct HD as [D1 [D2 D3]]. destruct od as [dirs|]; (split; [lia|split; [nia|]]); [|exact I].
  unfold wf_vario. cbn [va_nvar va_dirs va_ndir]. split; [lia|assumption].
Qed.
End Fixed.

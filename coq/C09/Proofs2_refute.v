(* C09 proofs, second wave, part 7: concrete files. Regression cases: what the readers did on them BEFORE the fixes/C09_11 .. C09_14
   (p_none), what the code as it is now (p_all) does; valid files load to the same objects either way. *)
From Coq Require Import List ZArith QArith Bool Lia.
From Gst Require Import C09.Model C09.Readers C09.Readers2 C09.Spec C09.Witness C09.Proofs_top C09.Proofs2_top.
Import ListNotations.
Local Open Scope Z_scope.

Definition before_env (f : list Z) : env := mkEnv cfg_fixed 268435456 (S (length f)) (Z.of_nat (length f)) p_none.
Definition full_env_of (f : list Z) : env := mkEnv cfg_fixed 268435456 (S (length f)) (Z.of_nat (length f)) p_all.

Lemma before_witnesses :
  load_Rule (before_env w_rule_root) w_rule_root = Crashed (OOB 52) /\
  (exists r g, load_Rule (before_env w_rule_half) w_rule_half = Loaded r g /\ wf_rule_b r = false) /\
  (exists v g, load_Vario (before_env w_vario_mixed) w_vario_mixed = Loaded v g /\ wf_vario_b v = false) /\
  load_NeighUnique (before_env w_neigh_huge) w_neigh_huge = Crashed (Throw 1 71) /\
  load_Model (fun _ => false) (fun _ => true) (before_env w_model_cov) w_model_cov = Crashed (Throw 4 93).
Proof. vm_compute. repeat split; try reflexivity; eexists; eexists; split; reflexivity. Qed.
Lemma now_witnesses :
  load_Rule (full_env_of w_rule_root) w_rule_root = Failed 40 /\
  load_Rule (full_env_of w_rule_half) w_rule_half = Failed 80 /\
  load_Vario (full_env_of w_vario_mixed) w_vario_mixed = Failed 368 /\
  load_NeighUnique (full_env_of w_neigh_huge) w_neigh_huge = Failed 0 /\
  load_Model (fun _ => false) (fun _ => true) (full_env_of w_model_cov) w_model_cov = Failed 120.
Proof. vm_compute. repeat split; reflexivity. Qed.
Lemma valid2 :
  (exists r g, load_Rule (full_env_of v_rule) v_rule = Loaded r g /\ load_Rule (before_env v_rule) v_rule = Loaded r g /\ wf_rule_b r = true /\ ru_nnode r = 3) /\
  (exists n g, load_NeighMoving (full_env_of v_neighmoving) v_neighmoving = Loaded n g /\ nm_ndim n = 2 /\ zlen (nm_coeffs n) = 2) /\
  (exists v g, load_Vario (full_env_of v_vario) v_vario = Loaded v g /\ load_Vario (before_env v_vario) v_vario = Loaded v g /\ wf_vario_b v = true /\ va_ndir v = 1) /\
  (exists x g, load_Model (fun _ => true) (fun _ => true) (full_env_of w_model_cov) w_model_cov = Loaded x g /\ gm_ncova x = 1).
Proof. vm_compute. repeat split; repeat eexists; reflexivity. Qed.
Lemma full_env_sat : flen w_model_cov < 2147483648 /\ full_env (full_env_of w_model_cov) w_model_cov (alloc_bound_model (flen w_model_cov)).
Proof.
  split; [vm_compute; reflexivity|].
  unfold full_env, now_env, full_env_of, cfg_ge_now. cbn [e_cfg e_fuel e_cap e_flen e_prop].
  repeat split; try reflexivity; try (unfold flen; lia); vm_compute; intro H; discriminate H.
Qed.

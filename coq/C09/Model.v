(* C09 model, layer 0 and 1: executable mirror of the neutral-file reading primitives, working on the
   BYTES of the file (so that "every byte string" is the quantification domain of the theorems).
     std::istream state (eofbit / failbit), operator>>(string)      libstdc++ (sentry, skipws)
     gslSafeGetline                                                  /repo/src/Basic/File.cpp:174
     trim                                                            /repo/src/Basic/String.cpp:703  (SPACES " \t\r\n")
     num_get<long>/<double> as used through a stringstream           libstdc++ _M_extract_int / _M_extract_float
     ASerializable::_fileOpenRead                                    /repo/src/Basic/ASerializable.cpp:145
     ASerializable::_recordRead<T>                                   /repo/include/Basic/ASerializable.hpp:169
     ASerializable::_recordReadVec<T>                                ASerializable.hpp:222
     ASerializable::_recordReadVecInPlace<T>                         ASerializable.hpp:294
   Monitors: every store goes through a bounds test ([OOB]); every allocation adds to a ghost counter and
   is refused above [cap] bytes ([Throw 1] = std::bad_alloc) or when the count is negative ([Throw 2] =
   std::length_error, the count being converted to size_t); loops that are not structurally bounded by the
   input run on fuel ([Hang]).
   The record [cfg] selects the code as it is now (cfg_fixed: fixes C09_1..5 applied) or earlier states of it
   (cfg_asis, cfg_pre5: regression examples).
   No proofs here. *)
From Coq Require Import List ZArith QArith Bool.
Import ListNotations.
Local Open Scope Z_scope.

(* ------------------------------------------------------------------ configuration *)
Record cfg := mkCfg {
  fix_store : bool;   (* fix C09_1 (applied): "ecr >= nvalues" tested before the store in _recordReadVec / _recordReadVecInPlace *)
  fix_counts : bool;  (* fix C09_2 (applied): counts read from the file are refused when negative or larger than the remaining input *)
  fix_locfail : bool; (* fix C09_3, second hunk (applied): a locator word refused by locatorIdentify is a failure *)
  fix_grid : bool;    (* fix C09_4 (applied): DbGrid::_deserialize propagates the failure of the Db part; sample count = grid size *)
  fix_rank : bool     (* fix C09_5 (applied): locator ranks below the number of columns, and every role slot declared by a column *)
}.
(* cfg_fixed is the code as it is now (fixes C09_1 .. C09_5 applied); cfg_asis (before the fixes) and cfg_pre5 (before
   C09_5) are kept for the regression examples only *)
Definition cfg_asis : cfg := mkCfg false false false false false.
Definition cfg_pre5 : cfg := mkCfg true true true true false.
Definition cfg_fixed : cfg := mkCfg true true true true true.
(* what the theorems about the current code need from a configuration *)
Definition cfg_ge_now (c : cfg) : Prop :=
  fix_store c = true /\ fix_counts c = true /\ fix_locfail c = true /\ fix_grid c = true.

(* the fixes C09_11 .. C09_14 (all applied: p_all is the code as it is now; p_none is kept for the regression examples) *)
Record pcfg := mkP {
  fix_rule : bool;    (* C09_11: Rule reader checks the root descriptor, the result of the tree construction and its completeness *)
  fix_neigh : bool;   (* C09_12: ANeigh refuses a space dimension larger than the file *)
  fix_vario : bool;   (* C09_13: Vario reader refuses directions that are not added and result arrays larger than the file *)
  fix_model : bool    (* C09_14: Model reader turns an exception of the covariance setters into a failure *)
}.
Definition p_none : pcfg := mkP false false false false.
Definition p_all : pcfg := mkP true true true true.
Record env := mkEnv { e_cfg : cfg; e_cap : Z; e_fuel : nat; e_flen : Z; e_prop : pcfg }.

(* linear-time list reversal (List.rev is quadratic); frev l = rev l is Model-independent: List.rev_alt *)
Definition frev {A} (l : list A) : list A := rev_append l [].

(* ------------------------------------------------------------------ characters *)
Definition isspace (c : Z) : bool := (c =? 32) || ((9 <=? c) && (c <=? 13)).   (* " \t\n\v\f\r" *)
Definition issp4 (c : Z) : bool := (c =? 32) || (c =? 9) || (c =? 13) || (c =? 10).  (* SPACES of String.hpp *)
Definition isdigit (c : Z) : bool := (48 <=? c) && (c <=? 57).
Definition str_NA : list Z := [78; 65].
Fixpoint bytes_eqb (a b : list Z) : bool :=
  match a, b with
  | [], [] => true
  | x :: a', y :: b' => (x =? y) && bytes_eqb a' b'
  | _, _ => false
  end.
Fixpoint is_prefix (p s : list Z) : bool :=
  match p, s with
  | [], _ => true
  | x :: p', y :: s' => (x =? y) && is_prefix p' s'
  | _ :: _, [] => false
  end.
Fixpoint dropwhile (f : Z -> bool) (l : list Z) : list Z :=
  match l with c :: r => if f c then dropwhile f r else l | [] => [] end.
Definition trim (l : list Z) : list Z := dropwhile issp4 (frev (dropwhile issp4 (frev l))).
Definition starts_hash (w : list Z) : bool := match w with c :: _ => c =? 35 | [] => false end.

(* ------------------------------------------------------------------ the input stream *)
Record stream := mkS { rest : list Z; eofb : bool; failb : bool }.
Definition good (s : stream) : bool := negb (eofb s) && negb (failb s).
Definition open_stream (f : list Z) : stream := mkS f false false.

Fixpoint takeword (l : list Z) : list Z * list Z :=
  match l with
  | c :: r => if isspace c then ([], l) else let (w, r') := takeword r in (c :: w, r')
  | [] => ([], [])
  end.
Definition is_nil {A} (l : list A) : bool := match l with [] => true | _ => false end.
(* is >> word  (the caller has cleared word) *)
Definition read_word (s : stream) : list Z * stream :=
  if good s then
    match dropwhile isspace (rest s) with
    | [] => ([], mkS [] true true)
    | l => let (w, r) := takeword l in (w, mkS r (is_nil r) false)
    end
  else ([], mkS (rest s) (eofb s) true).

(* gslSafeGetline: the line without its terminator ("\n", "\r\n" or "\r"); eofbit only when nothing was read *)
Fixpoint takeline (l : list Z) : list Z * list Z * bool :=
  match l with
  | [] => ([], [], true)
  | c :: r =>
      if c =? 10 then ([], r, false)
      else if c =? 13 then ([], match r with d :: r' => if d =? 10 then r' else r | [] => r end, false)
      else let '(t, r', e) := takeline r in (c :: t, r', e)
  end.
Definition getline (s : stream) : list Z * stream :=
  let '(t, r, e) := takeline (rest s) in
  (t, mkS r (eofb s || (e && is_nil t)) (failb s || negb (good s))).

(* words of a line, as the loop "while (sstr.good()) sstr >> word" delivers them *)
Fixpoint words_fuel (n : nat) (l : list Z) : list (list Z) :=
  match n with
  | O => []
  | S n' => match dropwhile isspace l with
            | [] => []
            | l' => let (w, r) := takeword l' in w :: words_fuel n' r
            end
  end.
Definition words (l : list Z) : list (list Z) := words_fuel (S (length l)) l.

(* ------------------------------------------------------------------ numbers *)
Definition INT_MAX : Z := 2147483647.
Definition INT_MIN : Z := -2147483648.
Definition ITEST : Z := -1234567.
Definition wrap32 (z : Z) : Z := ((z + 2147483648) mod 4294967296) - 2147483648.
Definition clamp_int (z : Z) : Z := Z.max INT_MIN (Z.min INT_MAX z).
Fixpoint span_digits (l : list Z) : list Z * list Z :=
  match l with
  | c :: r => if isdigit c then let (d, r') := span_digits r in (c :: d, r') else ([], l)
  | [] => ([], [])
  end.
Fixpoint digits_val (acc : Z) (d : list Z) : Z :=
  match d with c :: r => digits_val (10 * acc + (c - 48)) r | [] => acc end.
Definition take_sign (l : list Z) : bool * list Z :=   (* true = negative *)
  match l with c :: r => if c =? 45 then (true, r) else if c =? 43 then (false, r) else (false, l) | [] => (false, []) end.

(* stringstream(word) >> int : (failbit, eofbit, value)   — libstdc++ _M_extract_int, base 10, then the int range test *)
Definition parse_int (w : list Z) : bool * bool * Z :=
  let (neg, l1) := take_sign w in
  let (d, l2) := span_digits l1 in
  let v := (if neg then -1 else 1) * digits_val 0 d in
  let c := clamp_int v in
  (is_nil d || negb (v =? c), is_nil l2, if is_nil d then 0 else c).

(* the value of a double: NA (TEST) or a rational *)
Inductive num := NA | Num (q : Q).
Definition DBL_MAX_Q : Q := inject_Z ((2 ^ 53 - 1) * 2 ^ 971).
Definition pow10 (e : Z) : Q := if 0 <=? e then inject_Z (10 ^ e) else Qmake 1 (Z.to_pos (10 ^ (- e))).
(* decimal value m * 10^e with the overflow / underflow behaviour of strtod as used by libstdc++ *)
Definition dec_value (neg : bool) (m e : Z) (ndig : Z) : bool * Q :=   (* (overflow, value) *)
  if m =? 0 then (false, 0%Q)
  else if 400 <? e + ndig then (true, if neg then Qopp DBL_MAX_Q else DBL_MAX_Q)
  else if e + ndig <? -400 then (false, 0%Q)
  else
    let q := Qmult (inject_Z m) (pow10 e) in
    if Qle_bool DBL_MAX_Q q && negb (Qeq_bool DBL_MAX_Q q) then (true, if neg then Qopp DBL_MAX_Q else DBL_MAX_Q)
    else (false, if neg then Qopp q else q).
(* stringstream(word) >> double : (failbit, eofbit, value)   — libstdc++ _M_extract_float + strtod *)
Definition parse_double (w : list Z) : bool * bool * Q :=
  let (neg, l1) := take_sign w in
  let (d1, l2) := span_digits l1 in
  let '(d2, l3) := match l2 with
                   | c :: r => if c =? 46 then span_digits r else ([], l2)
                   | [] => ([], l2)
                   end in
  let mant := d1 ++ d2 in
  let '(sci, eneg, de, l4) :=
    match l3 with
    | c :: r => if ((c =? 101) || (c =? 69)) && negb (is_nil mant)
                then let (en, r1) := take_sign r in let (dd, r2) := span_digits r1 in (true, en, dd, r2)
                else (false, false, [], l3)
    | [] => (false, false, [], l3)
    end in
  let bad := is_nil mant || (sci && is_nil de) in
  if bad then (true, is_nil l4, 0%Q)
  else
    let ev := (if eneg then -1 else 1) * digits_val 0 de in
    let m := digits_val 0 mant in
    let '(ovf, q) := dec_value neg m (ev - Z.of_nat (length d2)) (Z.of_nat (length mant)) in
    (ovf, is_nil l4, q).

(* decoding of the word delivered by _recordRead<T>: None = "return false" *)
Definition decode_int (w : list Z) : option Z :=
  if bytes_eqb w str_NA then Some ITEST
  else let '(f, e, v) := parse_int w in if f && negb e then None else Some v.
Definition decode_double (w : list Z) : option num :=
  if bytes_eqb w str_NA then Some NA
  else let '(f, e, v) := parse_double w in if f && negb e then None else Some (Num v).
(* values of a vector record: "sword >> val" is not checked *)
Definition value_int (w : list Z) : Z :=
  if bytes_eqb w str_NA then ITEST else let '(_, _, v) := parse_int w in v.
Definition value_double (w : list Z) : num :=
  if bytes_eqb w str_NA then NA else let '(_, _, v) := parse_double w in Num v.

(* ------------------------------------------------------------------ monitors *)
Record mon := mkM { ms : stream; galloc : Z }.
Inductive bad := OOB (site : Z) | Throw (kind site : Z) | Hang (site : Z).
Inductive res (A : Type) := Ret (a : A) (m : mon) | Bad (b : bad).
Arguments Ret {A} a m.
Arguments Bad {A} b.
Definition bind {A B} (r : res A) (f : A -> mon -> res B) : res B :=
  match r with Ret a m => f a m | Bad b => Bad b end.
Notation "'do' x ',' m '<-' r ';' k" := (bind r (fun x m => k)) (at level 200, x pattern, m name, r at level 100, k at level 200).

Definition set_ms (m : mon) (s : stream) : mon := mkM s (galloc m).
(* allocation of n elements of sz bytes (vector constructor / resize of an empty vector) *)
Definition alloc (E : env) (site n sz : Z) (m : mon) : res unit :=
  if n <? 0 then Bad (Throw 2 site)
  else if e_cap E <? n * sz then Bad (Throw 1 site)
  else Ret tt (mkM (ms m) (galloc m + n * sz)).
(* what _isCountInFile (fixes/C09_2) tests: 0 <= n <= number of bytes not yet consumed *)
Definition remaining (m : mon) : Z := if good (ms m) then Z.of_nat (length (rest (ms m))) else 0.
Definition count_ok (E : env) (n : Z) (m : mon) : bool :=
  if fix_counts (e_cfg E) then (0 <=? n) && (n <=? remaining m) else true.

(* ------------------------------------------------------------------ _fileOpenRead *)
(* the class tag is the whole first line, trimmed (ASerializable.cpp:145) *)
Definition file_open (tag : list Z) (f : list Z) : option mon :=
  let (t, s) := getline (open_stream f) in
  if bytes_eqb (trim t) tag && good s then Some (mkM s 0) else None.

(* ------------------------------------------------------------------ _recordRead<T> *)
(* The loop "skip comment or empty lines". The test "!is.good() && !is.eof()" needs failbit without eofbit,
   which operator>> on a good stream never produces (device errors are outside the model). *)
Fixpoint rr_loop (fuel : nat) (s : stream) (word : list Z) : option (list Z * stream) :=
  if good s then
    match fuel with
    | O => None
    | S fuel' =>
        let (w0, s1) := read_word s in
        let w := trim w0 in
        match w with
        | [] => rr_loop fuel' s1 w
        | _ => if bytes_eqb w str_NA || negb (starts_hash w) then Some (w, s1)
               else let (t, s2) := getline s1 in rr_loop fuel' s2 t
        end
    end
  else Some (word, s).
(* the word on which the value is decoded ([] at end of file: the caller then gets T() and "true") *)
Definition record_word (m : mon) : res (list Z) :=
  match rr_loop (S (S (length (rest (ms m))))) (ms m) [] with
  | None => Bad (Hang 1)
  | Some (w, s') => Ret w (set_ms m s')
  end.
Definition read_int (m : mon) : res (option Z) := do w, m' <- record_word m; Ret (decode_int w) m'.
Definition read_double (m : mon) : res (option num) := do w, m' <- record_word m; Ret (decode_double w) m'.

(* ------------------------------------------------------------------ _recordReadVec / _recordReadVecInPlace *)
Fixpoint next_line (fuel : nat) (s : stream) (line : list Z) : option (list Z * stream) :=
  if good s then
    match fuel with
    | O => None
    | S fuel' =>
        let (t0, s1) := getline s in
        let t := trim t0 in
        if negb (is_nil t) && negb (starts_hash t) then Some (t, s1) else next_line fuel' s1 t
    end
  else Some (line, s).

Inductive vecres := VDone (ecr : Z) (acc : list (list Z)) | VFail | VOOB.
(* the loop over the words of the line; the store goes to element base+ecr of a buffer of [total] elements *)
Fixpoint rv_words (fixs : bool) (nvalues base total : Z) (ws : list (list Z)) (ecr : Z) (acc : list (list Z)) : vecres :=
  match ws with
  | [] => VDone ecr acc
  | w :: r =>
      if starts_hash w then VDone ecr acc
      else if (if fixs then nvalues <=? ecr else nvalues <? ecr) then VFail
      else if (0 <=? base + ecr) && (base + ecr <? total) then rv_words fixs nvalues base total r (ecr + 1) (w :: acc)
      else VOOB
  end.
(* common part: returns None when the reader returns false, else the words read (in order) *)
Definition read_vec_raw (E : env) (site : Z) (nvalues base total : Z) (m : mon) : res (option (list (list Z))) :=
  if nvalues =? 0 then Ret (Some []) m      (* "nothing to read for an empty vector" (fix C08_12): returns at once *)
  else if good (ms m) then
    match next_line (S (S (length (rest (ms m))))) (ms m) [] with
    | None => Bad (Hang site)
    | Some (line, s') =>
        match rv_words (fix_store (e_cfg E)) nvalues base total (words line) 0 [] with
        | VOOB => Bad (OOB site)
        | VFail => Ret None (set_ms m s')
        | VDone ecr acc => if nvalues =? ecr then Ret (Some (frev acc)) (set_ms m s') else Ret None (set_ms m s')
        end
    end
  else Ret None m.
(* _recordReadVec<T>(is, title, vec, nvalues): vec.resize(nvalues) first *)
Definition read_vec (E : env) (site : Z) (sz nvalues : Z) (m : mon) : res (option (list (list Z))) :=
  do _, m1 <- alloc E site nvalues sz m;
  read_vec_raw E site nvalues 0 nvalues m1.

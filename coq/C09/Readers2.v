(* C09 model, layer 2 (second wave): the readers that had only the generic safety rules.
     Rule::_deserialize + Rule::setMainNodeFromNodNames(nodes)      /repo/src/LithoRule/Rule.cpp:656, 187
     AnamContinuous::_deserialize, AnamHermite::_deserialize        /repo/src/Anamorphosis/AnamContinuous.cpp:182, AnamHermite.cpp:650
     ASerializable::_tableRead                                      /repo/src/Basic/ASerializable.cpp:203
     ANeigh::_deserialize, NeighUnique / NeighBench / NeighCell / NeighImage / NeighMoving::_deserialize
                                                                    /repo/src/Neigh/ANeigh.cpp:413, NeighMoving.cpp:147 ...
     Vario::_deserialize (VarioParam / DirParam part included)      /repo/src/Variogram/Vario.cpp:1824
     Model::_deserialize                                            /repo/src/Model/Model.cpp:1146
   What happens downstream of a reader and does not come back into its control flow (setters storing a value) is not
   modelled; what does come back is: the tables of node pointers of the Rule tree (null / out-of-range dereference),
   AVario::setCalcul (messageAbort on the calculation types it does not know), VarioParam::addDir (refusal), and for Model
   the construction of a CovAniso / a drift, represented by ORACLES (Section variables): the theorems hold whatever
   they answer.
   Sites: 50 generic value loops; 51 Rule nodes; 52 Rule pointer tables; 61 AnamHermite; 71 ANeigh; 72 NeighMoving; 73 NeighImage;
          81 Vario header; 82 Vario directions; 83 AVario::setCalcul; 84 Vario results; 91 Model header; 92 Model covariances;
          93 CovAniso construction (oracle); 94 drifts.
   The flags of [e_prop] are the fixes/C09_11 .. C09_14, all in /repo: p_all = the code as it is now, p_none = the readers before
   these fixes (kept for the regression cases). Proofs: Proofs2_*.v. *)
From Coq Require Import List ZArith QArith Bool.
From Gst Require Import C09.Model C09.Readers.
Import ListNotations.
Local Open Scope Z_scope.

(* for (i < n && ret) ret = ret && _recordRead<double>(...) *)
Fixpoint read_doubles (fuel : nat) (n i : Z) (acc : list num) (m : mon) : res (option (list num)) :=
  if i <? n then
    match fuel with
    | O => Bad (Hang 50)
    | S f => do ov, m1 <- read_double m;
             match ov with None => Ret None m1 | Some v => read_doubles f n (i + 1) (v :: acc) m1 end
    end
  else Ret (Some (frev acc)) m.
Fixpoint read_ints (fuel : nat) (n i : Z) (acc : list Z) (m : mon) : res (option (list Z)) :=
  if i <? n then
    match fuel with
    | O => Bad (Hang 50)
    | S f => do ov, m1 <- read_int m;
             match ov with None => Ret None m1 | Some v => read_ints f n (i + 1) (v :: acc) m1 end
    end
  else Ret (Some (frev acc)) m.
(* _recordRead<String> never fails *)
Fixpoint read_strings (fuel : nat) (n i : Z) (acc : list (list Z)) (m : mon) : res (list (list Z)) :=
  if i <? n then
    match fuel with
    | O => Bad (Hang 50)
    | S f => do w, m1 <- record_word m; read_strings f n (i + 1) (w :: acc) m1
    end
  else Ret (frev acc) m.
(* a count against the whole file (_isCountInFile(is, n, true), fixes/C09_12) *)
Definition count_in_file (E : env) (n : Z) : bool := (0 <=? n) && (n <=? e_flen E).

(* ASerializable::_isEndOfData(is): skips blanks and comment lines; true when nothing else is left (peek() at the end of the
   stream sets eofbit); when some data is found the stream is left in front of it *)
Fixpoint eod_loop (fuel : nat) (s : stream) : option (bool * stream) :=
  if good s then
    match fuel with
    | O => None
    | S f => match rest s with
             | [] => Some (true, mkS [] true (failb s))
             | c :: r => if (c =? 32) || (c =? 9) || (c =? 10) || (c =? 13) then eod_loop f (mkS r (eofb s) (failb s))
                         else if c =? 35 then eod_loop f (snd (getline s))
                         else Some (false, s)
             end
    end
  else Some (true, s).
Definition end_of_data (m : mon) : res bool :=
  match eod_loop (S (length (rest (ms m)))) (ms m) with
  | None => Bad (Hang 2)
  | Some (b, s') => Ret b (set_ms m s')
  end.
(* the records appended at the end of a file by recent versions: "if (ret && ! _isEndOfData(is)) ret = <reads>" after a reader *)
Definition opt_tail {A} (rd : mon -> res bool) (r : res (option A)) : res (option A) :=
  do o, m1 <- r;
  match o with None => Ret None m1 | Some a =>
  do e, m2 <- end_of_data m1;
  if e then Ret (Some a) m2 else
  do ok, m3 <- rd m2; Ret (if ok then Some a else None) m3
  end.
Definition is_some {A} (o : option A) : bool := match o with Some _ => true | None => false end.
Definition tail_ints (n : nat) (m : mon) : res bool := do o, m1 <- read_ints n (Z.of_nat n) 0 [] m; Ret (is_some o) m1.
Definition tail_double (m : mon) : res bool := do o, m1 <- read_double m; Ret (is_some o) m1.
Definition tail_doubles (fuel : nat) (n : Z) (m : mon) : res bool := do o, m1 <- read_doubles fuel n 0 [] m; Ret (is_some o) m1.

(* ------------------------------------------------------------------ Rule *)
Record rule := mkRule { ru_mode : Z; ru_rho : num; ru_nnode : Z; ru_built : bool; ru_complete : bool }.
Definition ntab := list (option (bool * bool)).       (* per rank: the threshold node exists, (r1 set, r2 set) *)
Inductive buildres := BOk (n1 n2 : ntab) | BErr | BCrash.
Definition tab_get (t : ntab) (r : Z) : option (option (bool * bool)) :=      (* None = index out of the table *)
  if (1 <=? r) && (r <=? zlen t) then Some (nth (Z.to_nat (r - 1)) t None) else None.
Definition tab_set (t : ntab) (r : Z) (v : option (bool * bool)) : ntab := upd_nth t (Z.to_nat (r - 1)) v.
Definition set_child (vers : Z) (c : bool * bool) : bool * bool := if vers =? 1 then (true, snd c) else (fst c, true).
Definition has_parent (prev : list (Z * Z)) (ft fr : Z) : bool := existsb (fun p => (fst p =? ft) && (snd p =? fr)) prev.
Definition tab_complete (t : ntab) : bool :=
  forallb (fun o => match o with Some (a, b) => a && b | None => true end) t.

Definition is_none2 (o : option (option (bool * bool))) : bool :=
  match o with Some None => true | _ => false end.

Fixpoint build_nodes (fixr : bool) (nb : Z) (first : bool) (prev : list (Z * Z)) (rows : list (list Z)) (n1 n2 : ntab) : buildres :=
  match rows with
  | [] => BOk n1 n2
  | [ft; fr; fv; nt; nr; fac] :: rest =>
      if negb ((nt =? 0) || (nt =? 1) || (nt =? 2)) then BErr
      else if negb (nt =? 0) && ((nr <? 1) || (nb <? nr)) then BErr       (* the rank identifies a threshold; that of a facies is not used *)
      else if ((nt =? 1) && negb (is_none2 (tab_get n1 nr))) || ((nt =? 2) && negb (is_none2 (tab_get n2 nr))) then BErr
      else if fixr && negb ((ft =? 0) || (ft =? 1) || (ft =? 2)) then BErr      (* C09_11: the type of the parent is checked too *)
      else if negb first && negb (has_parent prev ft fr) then
        (* the error message prints symbol[FROM_TYPE]: a table of three strings *)
        (if (0 <=? ft) && (ft <=? 2) then BErr else BCrash)
      else if fixr && first && negb (ft =? 0) then BErr              (* C09_11: the root hangs from nothing *)
      else if fixr && negb first && (ft =? 0) then BErr              (* C09_11: a facies leaf has no children *)
      else
        (* n?tab[FROM_RANK - 1]->setR1/R2(node): out-of-range index or null pointer = crash *)
        let link (t : ntab) : option ntab :=
          match tab_get t fr with
          | Some (Some c) => Some (tab_set t fr (Some (set_child fv c)))
          | _ => None
          end in
        let r1 := if ft =? 1 then link n1 else Some n1 in
        let r2 := if ft =? 2 then link n2 else Some n2 in
        match r1, r2 with
        | Some n1', Some n2' =>
            let n1'' := if nt =? 1 then tab_set n1' nr (Some (false, false)) else n1' in
            let n2'' := if nt =? 2 then tab_set n2' nr (Some (false, false)) else n2' in
            build_nodes fixr nb false ((nt, nr) :: prev) rest n1'' n2''
        | _, _ => BCrash
        end
  | _ :: _ => BErr
  end.
(* rows of 6 integers *)
Fixpoint chunk6 (fuel : nat) (l : list Z) : list (list Z) :=
  match fuel with
  | O => []
  | S f => match l with
           | a :: b :: c :: d :: e :: g :: r => [a; b; c; d; e; g] :: chunk6 f r
           | _ => []
           end
  end.
Definition rule_deserialize (E : env) (m : mon) : res (option rule) :=
  do omode, m1 <- read_int m;
  match omode with None => Ret None m1 | Some mode =>
  do orho, m2 <- read_double m1;
  match orho with None => Ret None m2 | Some rho =>
  do onb, m3 <- read_int m2;
  match onb with None => Ret None m3 | Some nb =>
  if (nb <=? 0) || negb (count_ok E (6 * nb) m3) then Ret None m3 else
  do _, m4 <- alloc E 51 (6 * nb) 4 m3;
  do onodes, m5 <- read_ints (e_fuel E) (6 * nb) 0 [] m4;
  match onodes with
  | None => Ret None m5
  | Some nodes =>
      (* setMainNodeFromNodNames(nodes): two tables of nb node pointers *)
      do _, m6 <- alloc E 52 (2 * nb) 8 m5;
      let empty := repeat (@None (bool * bool)) (Z.to_nat nb) in
      match build_nodes (fix_rule (e_prop E)) nb true [] (chunk6 (length nodes) nodes) empty empty with
      | BCrash => Bad (OOB 52)
      | BErr => if fix_rule (e_prop E) then Ret None m6                      (* C09_11: the error code is no longer dropped *)
                else Ret (Some (mkRule mode rho nb false false)) m6
      | BOk n1 n2 =>
          let complete := tab_complete n1 && tab_complete n2 in
          if fix_rule (e_prop E) && negb complete then Ret None m6           (* C09_11: every threshold node has its two children *)
          else Ret (Some (mkRule mode rho nb true complete)) m6
      end
  end
  end end end.

(* ------------------------------------------------------------------ AnamHermite *)
Record anamh := mkAnamH { ah_bounds : list num; ah_r : num; ah_psi : list num }.
Definition anamh_core (E : env) (m : mon) : res (option anamh) :=
  do ob, m1 <- read_doubles 10 10 0 [] m;            (* AnamContinuous::_deserialize: ten values *)
  match ob with None => Ret None m1 | Some bounds =>
  do orr, m2 <- read_double m1;
  match orr with None => Ret None m2 | Some r =>
  do onb, m3 <- read_int m2;
  match onb with None => Ret None m3 | Some nbpoly =>
  if (nbpoly <=? 0) || negb (count_ok E nbpoly m3) then Ret None m3 else
  do _, m4 <- alloc E 61 nbpoly 8 m3;                        (* hermite.resize(nbpoly) *)
  do _, m5 <- alloc E 61 nbpoly 8 m4;                        (* _tableRead: VectorDouble loctab(ntab) *)
  do ows, m6 <- read_vec E 61 0 nbpoly m5;
  match ows with
  | None => Ret None m6
  | Some ws => Ret (Some (mkAnamH bounds r (map value_double ws))) m6
  end
  end end end.
(* then, when the file goes on: the flag "bounds are taken into account" *)
Definition anamh_deserialize (E : env) (m : mon) : res (option anamh) := opt_tail (tail_ints 1) (anamh_core E m).

(* ------------------------------------------------------------------ ANeigh and its simple heirs *)
(* returns the space dimension *)
Definition aneigh_deserialize (E : env) (m : mon) : res (option Z) :=
  do ond, m1 <- read_int m;
  match ond with None => Ret None m1 | Some ndim =>
  if ndim <=? 0 then Ret None m1 else
  if fix_neigh (e_prop E) && negb (count_in_file E ndim) then Ret None m1 else     (* C09_12 *)
  do _, m2 <- alloc E 71 ndim 24 m1;                         (* setNDim: new SpaceRN(ndim), three vectors of ndim *)
  Ret (Some ndim) m2
  end.
(* ANeigh::_deserializeOptions: when the file goes on, four integers *)
Definition with_options {A} (r : res (option A)) : res (option A) := opt_tail (tail_ints 4) r.
Definition neighunique_deserialize (E : env) (m : mon) : res (option Z) := with_options (aneigh_deserialize E m).
Definition neighbench_core (E : env) (m : mon) : res (option (Z * num)) :=
  do ond, m1 <- aneigh_deserialize E m;
  match ond with None => Ret None m1 | Some ndim =>
  do ow, m2 <- read_double m1;
  match ow with None => Ret None m2 | Some w => Ret (Some (ndim, w)) m2 end
  end.
Definition neighbench_deserialize (E : env) (m : mon) : res (option (Z * num)) := with_options (neighbench_core E m).
Definition neighcell_core (E : env) (m : mon) : res (option (Z * Z)) :=
  do ond, m1 <- aneigh_deserialize E m;
  match ond with None => Ret None m1 | Some ndim =>
  do on, m2 <- read_int m1;
  match on with None => Ret None m2 | Some n => Ret (Some (ndim, n)) m2 end
  end.
Definition neighcell_deserialize (E : env) (m : mon) : res (option (Z * Z)) := with_options (neighcell_core E m).
(* NeighImage: dimension, skipping factor, one radius per dimension (read as doubles, kept as integers), options *)
Definition neighimage_core (E : env) (m : mon) : res (option (Z * Z * list num)) :=
  do ond, m1 <- aneigh_deserialize E m;
  match ond with None => Ret None m1 | Some ndim =>
  do os, m2 <- read_int m1;
  match os with None => Ret None m2 | Some skip =>
  do _, m3 <- alloc E 73 ndim 4 m2;                          (* _imageRadius.resize(getNDim(), 0) *)
  do orad, m4 <- read_doubles (e_fuel E) ndim 0 [] m3;
  match orad with None => Ret None m4 | Some rad => Ret (Some (ndim, skip, rad)) m4 end
  end end.
Definition neighimage_deserialize (E : env) (m : mon) : res (option (Z * Z * list num)) := with_options (neighimage_core E m).
Record neighmoving := mkNM { nm_ndim : Z; nm_ints : list Z; nm_dmax : num; nm_coeffs : list num; nm_rotmat : list num }.
Definition neighmoving_core (E : env) (m : mon) : res (option neighmoving) :=
  do ond, m1 <- aneigh_deserialize E m;
  match ond with None => Ret None m1 | Some ndim =>
  if negb (count_ok E ndim m1) then Ret None m1 else
  do _, m2 <- alloc E 72 ndim 8 m1;                          (* VectorDouble radius(ndim) *)
  do oi, m3 <- read_ints 5 5 0 [] m2;               (* flag_sector, nMini, nMaxi, nSect, nSMax *)
  match oi with None => Ret None m3 | Some ints =>
  do od, m4 <- read_double m3;
  match od with None => Ret None m4 | Some dmax =>
  do oa, m5 <- read_int m4;
  match oa with None => Ret None m5 | Some flag_aniso =>
  if flag_aniso =? 0 then Ret (Some (mkNM ndim ints dmax [] [])) m5 else
  do _, m6 <- alloc E 72 ndim 8 m5;                          (* nbgh_coeffs.resize(ndim) *)
  do oc, m7 <- read_doubles (e_fuel E) ndim 0 [] m6;
  match oc with None => Ret None m7 | Some coeffs =>
  do orf, m8 <- read_int m7;
  match orf with None => Ret None m8 | Some flag_rot =>
  (* BiTargetCheckDistance(dmax, coeffs): _anisoCoeffs(ndim), _anisoRotMat(ndim * ndim) *)
  if flag_rot =? 0 then
    do _, m9 <- alloc E 72 (ndim + ndim * ndim) 8 m8;
    Ret (Some (mkNM ndim ints dmax coeffs [])) m9
  else
  if negb (count_ok E (ndim * ndim) m8) then Ret None m8 else
  do _, m9 <- alloc E 72 (ndim * ndim) 8 m8;                 (* nbgh_rotmat.resize(ndim*ndim) *)
  do orm, m10 <- read_doubles (e_fuel E) (ndim * ndim) 0 [] m9;
  match orm with None => Ret None m10 | Some rot =>
  do _, m11 <- alloc E 72 (ndim + ndim * ndim) 8 m10;
  Ret (Some (mkNM ndim ints dmax coeffs rot)) m11
  end end end end end end
  end.
(* then the options, then (when the file still goes on) the distance for the continuous neighbourhood *)
Definition neighmoving_deserialize (E : env) (m : mon) : res (option neighmoving) :=
  opt_tail tail_double (with_options (neighmoving_core E m)).

(* ------------------------------------------------------------------ Vario *)
Record vdir := mkVD { vd_npas : Z; vd_grid : bool; vd_codir : list num; vd_size : Z }.
Record vario := mkVario { va_nvar : Z; va_ndir : Z; va_calcul : Z; va_dirs : list vdir }.
Definition calcul_asym (t : Z) : bool := (t =? 1) || (t =? 9) || (t =? 2).
(* for (i < size && ret): sw, hh, gg *)
Fixpoint vario_results (fuel : nat) (size i : Z) (m : mon) : res bool :=
  if i <? size then
    match fuel with
    | O => Bad (Hang 84)
    | S f => do o, m1 <- read_doubles 3 3 0 [] m;
             match o with None => Ret false m1 | Some _ => vario_results f size (i + 1) m1 end
    end
  else Ret true m.
(* an integer count, checked against the file, then (when positive) a vector record of that many doubles *)
Definition vario_opt_vec (E : env) (site : Z) (m : mon) : res bool :=
  do on, m1 <- read_int m;
  match on with None => Ret false m1 | Some n =>
  if (n <? 0) || negb (count_ok E n m1) then Ret false m1 else
  if 0 <? n then (do ov, m2 <- read_vec E site 8 n m1; Ret (is_some ov) m2) else Ret true m1
  end.
(* files with flag_calcul >= 4: slicing bench, slicing radius, reference date, breaks of each direction *)
Definition vario_dir_extra (E : env) (m : mon) : res bool :=
  do o, m1 <- read_doubles 2 2 0 [] m;
  match o with None => Ret false m1 | Some _ =>
  do oi, m2 <- read_int m1;
  match oi with None => Ret false m2 | Some _ => vario_opt_vec E 82 m2 end
  end.
Fixpoint vario_dirs (E : env) (fuel : nat) (ndim nvar ndir flag_calcul : Z) (asym : bool) (idir : Z) (dirs : list vdir) (m : mon)
  : res (option (list vdir)) :=
  if idir <? ndir then
    match fuel with
    | O => Bad (Hang 82)
    | S f =>
        do o1, m1 <- read_ints 2 2 0 [] m;                   (* flag_regular, npas *)
        match o1 with
        | Some [_; npas] =>
            if (npas <? 0) || (negb (flag_calcul =? 0) && negb (count_ok E npas m1)) then Ret None m1 else
            do o2, m2 <- read_int m1;                        (* opt_code *)
            match o2 with None => Ret None m2 | Some _ =>
            do o3, m3 <- read_doubles 3 3 0 [] m2;           (* tolcode, dpas, toldis *)
            match o3 with None => Ret None m3 | Some _ =>
            do o4, m4 <- read_int m3;                        (* isDefinedForGrid *)
            match o4 with None => Ret None m4 | Some isgrid =>
            do o5, m5 <- (if isgrid =? 0 then
                            do ot, ma <- read_double m4;      (* tolang *)
                            match ot with None => Ret None ma | Some _ => read_vec E 82 8 ndim ma end
                          else
                            do og, ma <- read_vec E 82 4 ndim m4;    (* grincr *)
                            match og with None => Ret None ma | Some _ => read_vec E 82 8 ndim ma end);
            match o5 with None => Ret None m5 | Some codir =>
            do ox, m5 <- (if 4 <=? flag_calcul then vario_dir_extra E m5 else Ret true m5);
            if negb ox then Ret None m5 else
            do _, m6 <- alloc E 82 ndim 24 m5;               (* SpaceRN space(ndim) *)
            let is_grid := negb (isgrid =? 0) && (0 <? ndim) in
            let added := match dirs with [] => true | d :: _ => Bool.eqb (vd_grid d) is_grid end in
            if fix_vario (e_prop E) && negb added then Ret None m6 else            (* C09_13: a direction that is not added *)
            let lag := if asym then 2 * npas + 1 else npas in
            let mk (sz : Z) := mkVD npas is_grid (map value_double codir) sz in
            if flag_calcul =? 0 then
              vario_dirs E f ndim nvar ndir flag_calcul asym (idir + 1) (if added then dirs ++ [mk 0] else dirs) m6
            else
              (* _directionResize(idir): getDirSize(idir) looks at the direction of rank idir among those ADDED *)
              let dirs0 := if added then dirs ++ [mk 0] else dirs in
              let size := if idir <? zlen dirs0
                          then (let np := vd_npas (nth (Z.to_nat idir) dirs0 (mk 0)) in
                                (if asym then 2 * np + 1 else np) * nvar * (nvar + 1) / 2)
                          else 0 in
              if fix_vario (e_prop E) && negb (count_ok E (3 * size) m6) then Ret None m6 else   (* C09_13 *)
              do _, m7 <- alloc E 84 (4 * size) 8 m6;        (* _sw, _gg, _hh, _utilize [idir] *)
              do okr, m8 <- vario_results (e_fuel E) size 0 m7;
              if okr then vario_dirs E f ndim nvar ndir flag_calcul asym (idir + 1) (if added then dirs ++ [mk size] else dirs) m8
              else Ret None m8
            end end end end
        | _ => Ret None m1
        end
    end
  else Ret (Some dirs) m.
Definition vario_deserialize (E : env) (m : mon) : res (option vario) :=
  do o1, m1 <- read_ints 3 3 0 [] m;                         (* ndim, nvar, ndir *)
  match o1 with
  | Some [ndim; nvar; ndir] =>
      do os, m2 <- read_double m1;                           (* scale *)
      match os with None => Ret None m2 | Some _ =>
      do of, m3 <- read_int m2;                              (* flag_calcul *)
      match of with None => Ret None m3 | Some flag_calcul =>
      if (ndim <? 0) || (nvar <=? 0) || ((0 <? ndir) && (ndim =? 0)) || negb (count_ok E ndim m3) || negb (count_ok E ndir m3)
         || negb (count_ok E (if flag_calcul =? 0 then nvar else nvar * nvar) m3) then Ret None m3 else
      if fix_vario (e_prop E) && negb (count_ok E (nvar * nvar) m3) then Ret None m3 else      (* C09_13 *)
      do _, m4 <- alloc E 81 nvar 32 m3;                     (* _variableNames.resize(nvar) *)
      do _, m5 <- (if 2 <=? flag_calcul then (do _, mm <- read_strings (e_fuel E) nvar 0 [] m4; Ret tt mm) else Ret tt m4);
      do _, m6 <- alloc E 81 (wrap32 (nvar * nvar)) 8 m5;    (* vars.resize(nvar * nvar), an int product *)
      do ov, m7 <- (if flag_calcul =? 0 then Ret (Some []) m6 else read_doubles (e_fuel E) (nvar * nvar) 0 [] m6);
      match ov with None => Ret None m7 | Some _ =>
      do _, m8 <- alloc E 81 (4 * ndir) 24 m7;               (* internalDirectionResize(ndir) *)
      do ot, m9 <- (if 3 <=? flag_calcul then read_int m8 else Ret (Some 0) m8);
      match ot with None => Ret None m9 | Some calc =>
      if (3 <=? flag_calcul) && ((calc <? 0) || (13 <? calc)) then Ret None m9 else
      do odt, m9 <- (if 4 <=? flag_calcul then vario_opt_vec E 81 m9 else Ret true m9);     (* the date bounds *)
      if negb odt then Ret None m9 else
      do od, m10 <- vario_dirs E (e_fuel E) ndim nvar ndir flag_calcul (calcul_asym calc) 0 [] m9;
      match od with
      | None => Ret None m10
      | Some dirs => Ret (Some (mkVario nvar ndir calc dirs)) m10
      end
      end end end end
  | _ => Ret None m1
  end.

(* ------------------------------------------------------------------ Model *)
Record gmodel := mkGM { gm_ndim : Z; gm_nvar : Z; gm_ncova : Z; gm_nbfl : Z; gm_types : list Z }.
Section ModelOracles.
(* downstream of the reader: does the construction of covariance number i (CovAniso, setParam, setRanges / setAnisoRotation /
   setRangeIsotropic, addCov) go through, or does one of these throw; is the drift identifier number i known *)
Variable accept_cov : Z -> bool.
Variable accept_drift : Z -> bool.
Fixpoint model_covs (E : env) (fuel : nat) (ndim nvar ncova icova : Z) (types : list Z) (m : mon) : res (option (list Z)) :=
  if icova <? ncova then
    match fuel with
    | O => Bad (Hang 92)
    | S f =>
        do ot, m1 <- read_int m;
        match ot with None => Ret None m1 | Some type =>
        do o2, m2 <- read_doubles 2 2 0 [] m1;               (* range, param *)
        match o2 with None => Ret None m2 | Some _ =>
        do oa, m3 <- read_int m2;
        match oa with None => Ret None m3 | Some flag_aniso =>
        if (type <? 0) || (30 <? type) then Ret None m3 else
        do ok, m4 <- (if flag_aniso =? 0 then Ret true m3 else
                      do _, ma <- alloc E 92 ndim 8 m3;      (* aniso_ranges.resize(ndim) *)
                      do oc, mb <- read_doubles (e_fuel E) ndim 0 [] ma;
                      match oc with None => Ret false mb | Some _ =>
                      do orf, mc <- read_int mb;
                      match orf with None => Ret false mc | Some flag_rot =>
                      if flag_rot =? 0 then Ret true mc else
                      if fix_model (e_prop E) && negb (count_ok E (ndim * ndim) mc) then Ret false mc else     (* C09_14 *)
                      do _, md <- alloc E 92 (wrap32 (ndim * ndim)) 8 mc;     (* aniso_rotmat.resize(ndim * ndim) *)
                      do orm, me <- read_doubles (e_fuel E) (ndim * ndim) 0 [] md;
                      match orm with None => Ret false me | Some _ => Ret true me end
                      end end);
        if negb ok then Ret None m4 else
        (* CovAniso cova(type, ctxt) ...: a Tensor (three ndim x ndim arrays) and a sill matrix *)
        do _, m5 <- alloc E 93 (3 * ndim * ndim + nvar * nvar) 8 m4;
        if negb (accept_cov icova) then
          (if fix_model (e_prop E) then Ret None m5 else Bad (Throw 4 93))         (* an AException leaves the reader *)
        else model_covs E f ndim nvar ncova (icova + 1) (type :: types) m5
        end end end
    end
  else Ret (Some (frev types)) m.
Fixpoint model_drifts (fuel : nat) (nbfl i : Z) (m : mon) : res bool :=
  if i <? nbfl then
    match fuel with
    | O => Bad (Hang 94)
    | S f => do _, m1 <- record_word m;
             if accept_drift i then model_drifts f nbfl (i + 1) m1 else Ret false m1
    end
  else Ret true m.
Definition model_deserialize (E : env) (m : mon) : res (option gmodel) :=
  do o1, m1 <- read_ints 2 2 0 [] m;                         (* ndim, nvar *)
  match o1 with
  | Some [ndim; nvar] =>
      do ofd, m2 <- read_double m1;                          (* field *)
      match ofd with None => Ret None m2 | Some _ =>
      do o3, m3 <- read_ints 2 2 0 [] m2;                    (* ncova, nbfl *)
      match o3 with
      | Some [ncova; nbfl] =>
          if (ndim <=? 0) || (nvar <=? 0) || negb (count_ok E ndim m3) || negb (count_ok E (nvar * nvar) m3)
             || negb (count_ok E ncova m3) || negb (count_ok E nbfl m3) || negb (count_ok E (ncova * nvar * nvar) m3) then Ret None m3 else
          do _, m4 <- alloc E 91 (nvar + nvar * nvar) 8 m3;  (* CovContext(nvar, ndim): means, covar0 *)
          do oc, m5 <- model_covs E (e_fuel E) ndim nvar ncova 0 [] m4;
          match oc with None => Ret None m5 | Some types =>
          do okd, m6 <- model_drifts (e_fuel E) nbfl 0 m5;
          if negb okd then Ret None m6 else
          do om, m7 <- (if nbfl <=? 0 then read_doubles (e_fuel E) nvar 0 [] m6 else Ret (Some []) m6);
          match om with None => Ret None m7 | Some _ =>
          do osl, m8 <- read_doubles (e_fuel E) (ncova * nvar * nvar) 0 [] m7;
          match osl with None => Ret None m8 | Some _ =>
          do oc0, m9 <- read_doubles (e_fuel E) (nvar * nvar) 0 [] m8;
          match oc0 with None => Ret None m9 | Some _ =>
            (* the means of a model with drifts, at the end of the file (absent from older files) *)
            if 0 <? nbfl then opt_tail (tail_doubles (e_fuel E) nvar) (Ret (Some (mkGM ndim nvar ncova nbfl types)) m9)
            else Ret (Some (mkGM ndim nvar ncova nbfl types)) m9
          end
          end end end
      | _ => Ret None m3
      end end
  | _ => Ret None m1
  end.
End ModelOracles.

(* ------------------------------------------------------------------ createFromNF *)
Definition tag_Rule : list Z := [82; 117; 108; 101].
Definition tag_AnamHermite : list Z := [65; 110; 97; 109; 72; 101; 114; 109; 105; 116; 101].
Definition tag_NeighUnique : list Z := [78; 101; 105; 103; 104; 85; 110; 105; 113; 117; 101].
Definition tag_NeighBench : list Z := [78; 101; 105; 103; 104; 66; 101; 110; 99; 104].
Definition tag_NeighCell : list Z := [78; 101; 105; 103; 104; 67; 101; 108; 108].
Definition tag_NeighImage : list Z := [78; 101; 105; 103; 104; 73; 109; 97; 103; 101].
Definition tag_NeighMoving : list Z := [78; 101; 105; 103; 104; 77; 111; 118; 105; 110; 103].
Definition tag_Vario : list Z := [86; 97; 114; 105; 111].
Definition tag_Model : list Z := [77; 111; 100; 101; 108].
Definition load_Rule := create_from_nf tag_Rule rule_deserialize.
Definition load_AnamHermite := create_from_nf tag_AnamHermite anamh_deserialize.
Definition load_NeighUnique := create_from_nf tag_NeighUnique neighunique_deserialize.
Definition load_NeighBench := create_from_nf tag_NeighBench neighbench_deserialize.
Definition load_NeighCell := create_from_nf tag_NeighCell neighcell_deserialize.
Definition load_NeighImage := create_from_nf tag_NeighImage neighimage_deserialize.
Definition load_NeighMoving := create_from_nf tag_NeighMoving neighmoving_deserialize.
Definition load_Vario := create_from_nf tag_Vario vario_deserialize.
Definition load_Model (acov adrift : Z -> bool) := create_from_nf tag_Model (model_deserialize acov adrift).

(* C09 model, layer 2: the class readers, mirrored statement by statement.
     locatorIdentify                       /repo/src/Db/PtrGeos.cpp:176
     Db::setLocatorByUID                   /repo/src/Db/Db.cpp:1136
     correctNamesForDuplicates             /repo/src/Basic/String.cpp:160
     Db::resetDims, Db::_loadData          Db.cpp:512, 4624
     Db::_deserialize                      Db.cpp:4569
     DbGrid::_deserialize                  /repo/src/Db/DbGrid.cpp:740   (Grid::resetFromVector /repo/src/Basic/Grid.cpp:131)
     Table::_deserialize                   /repo/src/Matrix/Table.cpp:156
     PolyLine2D::_deserialize              /repo/src/Basic/PolyLine2D.cpp:137
     PolyElem::_deserialize                /repo/src/Polygon/PolyElem.cpp:122
     Polygons::_deserialize                /repo/src/Polygon/Polygons.cpp:325
     Faults::_deserialize                  /repo/src/Faults/Faults.cpp:73
     X::createFromNF                       (open, check the class tag, deserialize, null on failure)
   Sites (the number carried by OOB / Throw / Hang):
     1 _recordRead loop; 11 Db locators record; 12 Db names record; 13 Db allvalues; 14 Db rows (in place);
     15 Db::resetDims; 16 Db::setLocatorByUID resize; 17 Db::_loadData; 18 correctNamesForDuplicates;
     21 DbGrid header vectors; 22 DbGrid header loop; 23 Rotation matrices; 31 Table::reset; 32 Table loop;
     41 PolyLine2D vectors; 42 PolyLine2D loop / record; 43 Polygons loop; 44 Faults loop.
   No proofs here. *)
From Coq Require Import List ZArith QArith Bool.
From Gst Require Import C09.Model.
Import ListNotations.
Local Open Scope Z_scope.

Definition zlen {A} (l : list A) : Z := Z.of_nat (length l).
Definition znth {A} (l : list A) (i : Z) (d : A) : A := if i <? 0 then d else nth (Z.to_nat i) l d.

(* ------------------------------------------------------------------ locatorIdentify *)
Definition loc_table : list (list Z * bool) := [
  ([120], false);
  ([122], false);
  ([118], false);
  ([102], false);
  ([103], false);
  ([108; 111; 119; 101; 114], false);
  ([117; 112; 112; 101; 114], false);
  ([112], false);
  ([119], true);
  ([99; 111; 100; 101], true);
  ([115; 101; 108], true);
  ([100; 111; 109], true);
  ([100; 98; 108; 107], false);
  ([97; 100; 105; 114], true);
  ([97; 100; 105; 112], true);
  ([115; 105; 122; 101], true);
  ([98; 117], true);
  ([98; 100], true);
  ([116; 105; 109; 101], false);
  ([108; 97; 121; 101; 114], true);
  ([110; 111; 115; 116; 97; 116], false);
  ([116; 97; 110; 103; 101; 110; 116], false);
  ([110; 99; 115; 105; 109; 117], false);
  ([102; 97; 99; 105; 101; 115], false);
  ([103; 97; 117; 115; 102; 97; 99], false);
  ([100; 97; 116; 101], true);
  ([114; 107; 108; 111; 119], false);
  ([114; 107; 117; 112], false);
  ([115; 117; 109], false)].
Definition NLOC : Z := 29.
Definition tolower (c : Z) : Z := if (65 <=? c) && (c <=? 90) then c + 32 else c.
Fixpoint find_loc (tbl : list (list Z * bool)) (i : Z) (s : list Z) : option (Z * list Z * bool) :=
  match tbl with
  | [] => None
  | (sref, uniq) :: r => if is_prefix sref s then Some (i, sref, uniq) else find_loc r (i + 1) s
  end.
Definition LONG_MAX : Z := 9223372036854775807.
Definition atoi (l : list Z) : Z :=     (* (int) strtol(l, NULL, 10) *)
  let (neg, l1) := take_sign (dropwhile isspace l) in
  let (d, _) := span_digits l1 in
  let v := (if neg then -1 else 1) * digits_val 0 d in
  wrap32 (Z.max (- LONG_MAX - 1) (Z.min LONG_MAX v)).
(* (error, type or -1, rank) *)
Definition locator_identify (s : list Z) : bool * Z * Z :=
  let sl := map tolower s in
  match find_loc loc_table 0 sl with
  | None => (false, -1, 0)
  | Some (i, sref, uniq) =>
      let tl := skipn (length sref) sl in
      let inum := if is_nil tl then -1 else atoi tl in
      if uniq && (1 <? inum) then (true, -1, -1)
      else (false, i, Z.max (wrap32 (inum - 1)) 0)
  end.

(* ------------------------------------------------------------------ the Db object *)
Record db := mkDb { d_ncol : Z; d_nech : Z; d_names : list (list Z); d_uidcol : list Z;
                    d_loc : list (list Z); d_array : list num }.
Definition no_loc : list (list Z) := repeat [] 29.
Definition db_empty : db := mkDb 0 0 [] [] no_loc [].

Fixpoint remove_first (u : Z) (l : list Z) : list Z :=
  match l with [] => [] | x :: r => if x =? u then r else x :: remove_first u r end.
(* p.resize(k+1, 0) when needed, then p[k] = v *)
Fixpoint set_at (l : list Z) (k : nat) (v : Z) : list Z :=
  match k, l with
  | O, [] => [v]
  | O, _ :: r => v :: r
  | S k', [] => 0 :: set_at [] k' v
  | S k', x :: r => x :: set_at r k' v
  end.
Fixpoint upd_nth {A} (l : list A) (k : nat) (v : A) : list A :=
  match k, l with
  | _, [] => []
  | O, _ :: r => v :: r
  | S k', x :: r => x :: upd_nth r k' v
  end.
(* Db::setLocatorByUID(iuid, type, rank, cleanSameLocator=false), rank >= 0 *)
Definition set_locator (E : env) (nuid : Z) (locs : list (list Z)) (iuid typ idx : Z) (m : mon) : res (list (list Z)) :=
  if (0 <=? iuid) && (iuid <? nuid) then
    let locs1 := map (remove_first iuid) locs in
    if typ <? 0 then Ret locs1 m
    else
      let p := znth locs1 typ [] in
      let nitem := zlen p in
      let idx' := idx in
      if nitem <=? idx' then
        if e_cap E <? (idx' + 1) * 4 then Bad (Throw 1 16)
        else Ret (upd_nth locs1 (Z.to_nat typ) (set_at p (Z.to_nat idx') iuid)) (mkM (ms m) (galloc m + (idx' + 1 - nitem) * 4))
      else Ret (upd_nth locs1 (Z.to_nat typ) (set_at p (Z.to_nat idx') iuid)) m
  else Ret locs m.

(* correctNamesForDuplicates(list) (String.cpp:160): from the second entry on, append ".1" to an entry as long as it
   equals one of the entries before it. [prev] holds the entries already settled, last first. *)
Fixpoint dedup_prev (fuel : nat) (prev : list (list Z)) (nm : list Z) : option (list Z) :=
  match fuel with
  | O => None
  | S f => if existsb (fun x => bytes_eqb x nm) prev then dedup_prev f prev (nm ++ [46; 49]) else Some nm
  end.
Fixpoint correct_names (prev : list (list Z)) (l : list (list Z)) : option (list (list Z)) :=
  match l with
  | [] => Some (frev prev)
  | nm :: r => match dedup_prev (S (length prev)) prev nm with
               | None => None
               | Some nm' => correct_names (nm' :: prev) r
               end
  end.

(* generateMultipleNames("New", n): New.1 ... New.n *)
Fixpoint dec_digits (fuel : nat) (z : Z) (acc : list Z) : list Z :=
  match fuel with
  | O => acc
  | S f => if z <? 10 then (48 + z) :: acc else dec_digits f (z / 10) ((48 + z mod 10) :: acc)
  end.
Definition new_name (i : Z) : list Z := [78; 101; 119; 46] ++ dec_digits 20 i [].
Definition zseq (n : Z) : list Z := map Z.of_nat (seq 0 (Z.to_nat n)).

(* the locators loop at the end of Db::_deserialize: setLocatorByUID(i, tabloc[i], tabnum[i]) *)
Fixpoint apply_locs (E : env) (ncol : Z) (i : Z) (tab : list (Z * Z)) (locs : list (list Z)) (m : mon) : res (list (list Z)) :=
  match tab with
  | (typ, idx) :: tab' =>
      do locs', m' <- set_locator E ncol locs i typ idx m;
      apply_locs E ncol (i + 1) tab' locs' m'
  | [] => Ret locs m
  end.

Fixpoint decode_locs (l : list (list Z)) : option (list (Z * Z)) :=
  match l with
  | [] => Some []
  | w :: r => let '(err, typ, idx) := locator_identify w in
              if err then None
              else match decode_locs r with Some t => Some ((typ, idx) :: t) | None => None end
  end.

(* the check of fixes/C09_5 after the names / locators loop: column i with role (t, k) is entry k of the list of t,
   and the lists hold as many entries as there are columns with a role *)
(* entry k of a list, -1 beyond its end (the length is tested first: k may be any 32-bit value) *)
Definition entry_at (l : list Z) (k : Z) : Z := if zlen l <=? k then -1 else znth l k (-1).
Fixpoint post_cols (locs : list (list Z)) (i : Z) (tab : list (Z * Z)) : bool :=
  match tab with
  | [] => true
  | (t, k) :: r => ((t <? 0) || (entry_at (znth locs t []) k =? i)) && post_cols locs (i + 1) r
  end.
Definition declared (tab : list (Z * Z)) : Z := zlen (filter (fun p => 0 <=? fst p) tab).
Definition post_ok (tab : list (Z * Z)) (locs : list (list Z)) : bool :=
  post_cols locs 0 tab && (zlen (concat locs) =? declared tab).

(* the loop over the samples: _recordReadVecInPlace(is, title, it, ncol), [it] running through allvalues *)
Fixpoint rows_loop (E : env) (fuel : nat) (nech ncol total : Z) (iech pos : Z) (acc : list (list Z)) (m : mon)
  : res (option (list (list Z))) :=
  if iech <? nech then
    match fuel with
    | O => Bad (Hang 14)
    | S fuel' =>
        do orow, m' <- read_vec_raw E 14 ncol pos total m;
        match orow with
        | None => Ret None m'
        | Some ws => rows_loop E fuel' nech ncol total (iech + 1) (pos + ncol) (frev ws ++ acc) m'
        end
    end
  else Ret (Some (frev acc)) m.

Definition zero : num := Num 0.
(* _loadData(ELoadBy::SAMPLE): array[icol * nech + iech] = tab[icol + ncol * iech] *)
Definition load_data (ncol nech : Z) (tab : list num) : list num :=
  flat_map (fun icol => map (fun iech => znth tab (icol + ncol * iech) NA) (zseq nech)) (zseq ncol).

Definition db_counts_ok (E : env) (ncol nech : Z) (m : mon) : bool :=
  count_ok E ncol m && count_ok E nech m && count_ok E (ncol * nech) m.

(* [gt] = None for a Db; for a DbGrid, Some (Grid::getNTotal() as computed in 32 bits, exact product of nx):
   DbGrid::resetDims(ncol, nech) ignores its second argument and uses the grid size. *)
Definition db_deserialize (E : env) (gt : option (Z * Z)) (m : mon) : res (option db) :=
  do oncol, m1 <- read_int m;
  match oncol with None => Ret None m1 | Some ncol =>
  do onech, m2 <- read_int m1;
  match onech with None => Ret None m2 | Some nech =>
  if negb (db_counts_ok E ncol nech m2) then Ret None m2 else
  do olocs, m3 <- (if 0 <? ncol then read_vec E 11 32 ncol m2 else Ret (Some []) m2);
  do onames, m4 <- (match olocs with
                    | Some _ => if 0 <? ncol then read_vec E 12 32 ncol m3 else Ret (Some []) m3
                    | None => Ret None m3
                    end);
  let total := wrap32 (nech * ncol) in
  do _, m5 <- alloc E 13 total 8 m4;            (* VectorDouble allvalues(nech * ncol), whatever ret *)
  match olocs, onames with
  | Some locs, Some names =>
      do orows, m6 <- rows_loop E (e_fuel E) nech ncol total 0 0 [] m5;
      match orows with
      | None => Ret None m6
      | Some ws =>
          match decode_locs locs with
          | None => if fix_locfail (e_cfg E) then Ret None m6    (* fix C09_3 (second hunk): a refused locator is a failure *)
                    else Ret (Some db_empty) m6        (* "return true" on a refused locator: nothing loaded *)
          | Some tab =>
              (* fixes/C09_5: a locator rank is below the number of columns of the file *)
              if fix_rank (e_cfg E) && existsb (fun p => ncol <=? snd p) tab then Ret None m6 else
              (* fix C09_4: a DbGrid refuses a number of samples that is not the grid size *)
              if fix_grid (e_cfg E) && match gt with Some (_, exact) => negb (nech =? exact) | None => false end then Ret None m6 else
              (* resetDims(ncol, nech) — virtual: DbGrid::resetDims replaces nech by the grid size *)
              let nech' := match gt with Some (n32, _) => n32 | None => nech end in
              let total' := wrap32 (nech' * ncol) in
              do _, m7 <- alloc E 15 ncol 36 m6;
              do _, m8 <- (if 0 <? total' then alloc E 15 total' 8 m7 else Ret tt m7);
              (* _loadData: for (icol < ncol) for (iech < _nech) array[icol * _nech + iech] = tab[icol + ncol * iech] *)
              if (0 <? ncol) && (0 <? total) && (0 <? nech') && (total <? ncol * nech') then Bad (OOB 17) else
              if (0 <? ncol) && (0 <? total) && (0 <? nech') && negb (total' =? nech' * ncol) then Bad (OOB 17) else
              let arr := if (0 <? ncol) && (0 <? total) && (0 <? nech') then load_data ncol nech' (map value_double ws)
                         else if 0 <? total' then repeat zero (Z.to_nat total') else [] in
              (* _colNames[i] = names[i] for every column, then correctNamesForDuplicates(_colNames) *)
              match correct_names [] names with
              | None => Bad (Hang 18)
              | Some nms =>
              do locs9, m9 <- apply_locs E ncol 0 tab no_loc m8;
              (* fixes/C09_5: every column finds itself at its declared rank and no role slot is a filler *)
              if fix_rank (e_cfg E) && negb (post_ok tab locs9) then Ret None m9 else
              Ret (Some (mkDb ncol nech' nms (zseq ncol) locs9 arr)) m9
              end
          end
      end
  | _, _ => Ret None m5
  end
  end end.

(* ------------------------------------------------------------------ DbGrid *)
Record grid := mkGrid { g_ndim : Z; g_nx : list Z; g_x0 : list num; g_dx : list num; g_angles : list num }.
Record dbgrid := mkDbGrid { dg_grid : grid; dg_db : db }.

Definition num_neg (x : num) : bool := match x with NA => false | Num q => negb (Qle_bool 0 q) end.
(* Grid::resetFromVector *)
Definition grid_define (ndim : Z) (nx : list Z) (x0 dx ang : list num) : grid :=
  let n := Z.to_nat ndim in
  if existsb (fun v => v <? 0) nx then mkGrid ndim nx (repeat zero n) (repeat zero n) (repeat zero n)
  else if existsb num_neg dx then mkGrid ndim nx x0 dx (repeat zero n)
  else mkGrid ndim nx x0 dx (if ndim =? 2 then [nth 0 ang zero; zero] else ang).

Definition opt_default {A} (d : A) (o : option A) : A := match o with Some a => a | None => d end.
(* the header loop: nx, x0, dx, angle per dimension; on a failed record the remaining entries keep their zero *)
Fixpoint grid_header (fuel : nat) (ndim idim : Z) (acc : list (Z * num * num * num)) (m : mon)
  : res (bool * list (Z * num * num * num)) :=
  if idim <? ndim then
    match fuel with
    | O => Bad (Hang 22)
    | S fuel' =>
        do onx, m1 <- read_int m;
        match onx with None => Ret (false, frev acc) m1 | Some nx =>
        do ox0, m2 <- read_double m1;
        match ox0 with None => Ret (false, frev acc) m2 | Some x0 =>
        do odx, m3 <- read_double m2;
        match odx with None => Ret (false, frev acc) m3 | Some dx =>
        do oan, m4 <- read_double m3;
        match oan with None => Ret (false, frev acc) m4 | Some an =>
        grid_header fuel' ndim (idim + 1) ((nx, x0, dx, an) :: acc) m4
        end end end end
    end
  else Ret (true, frev acc) m.

Definition prodZ (l : list Z) : Z := fold_right Z.mul 1 l.
(* Grid::getNTotal: int product, 0 when there is no dimension *)
Definition ntotal32 (ndim : Z) (nx : list Z) : Z := if ndim <=? 0 then 0 else fold_left (fun a v => wrap32 (a * v)) nx 1.
Definition ntotal_exact (ndim : Z) (nx : list Z) : Z := if ndim <=? 0 then 0 else prodZ nx.

Definition dbgrid_deserialize (E : env) (m : mon) : res (option dbgrid) :=
  do ondim, m1 <- read_int m;
  let ndim := opt_default 0 ondim in
  if negb (count_ok E ndim m1) then Ret None m1 else
  do _, m2 <- alloc E 21 ndim 28 m1;              (* nx, dx, x0, angles .resize(ndim) *)
  do hd, m3 <- (match ondim with
                | Some _ => grid_header (e_fuel E) ndim 0 [] m2
                | None => Ret (false, []) m2
                end);
  let '(ret, rows) := hd in
  (* fix C09_4: a failed header is reported before the grid is built *)
  if fix_grid (e_cfg E) && negb ret then Ret None m3 else
  (* gridDefine: Grid::_allocate + Rotation::resetFromSpaceDimension (two ndim x ndim matrices) *)
  do _, m4 <- alloc E 23 (ndim * ndim) 8 m3;
  do _, m5 <- alloc E 23 (ndim * ndim) 8 m4;
  if negb ret then Ret None m5 else
  let nx := map (fun r => fst (fst (fst r))) rows in
  let g := grid_define ndim nx (map (fun r => snd (fst (fst r))) rows) (map (fun r => snd (fst r)) rows) (map snd rows) in
  if fix_grid (e_cfg E) && (existsb (fun v => v <? 0) nx || existsb num_neg (g_dx g)) then Ret None m5 else
  do odb, m6 <- db_deserialize E (Some (ntotal32 ndim nx, ntotal_exact ndim nx)) m5;
  match odb with
  | Some d => Ret (Some (mkDbGrid g d)) m6
  | None => if fix_grid (e_cfg E) then Ret None m6 else Ret (Some (mkDbGrid g db_empty)) m6   (* "ret && Db::_deserialize(...)": result dropped *)
  end.

(* ------------------------------------------------------------------ Table *)
Record table := mkTable { t_nrows : Z; t_ncols : Z; t_vals : list num }.
(* the double loop of Table::_deserialize: for (irow < nrows && ret) for (icol < ncols && ret) *)
Fixpoint table_row (fuel : nat) (ncols icol : Z) (acc : list num) (m : mon) : res (option (list num)) :=
  if icol <? ncols then
    match fuel with
    | O => Bad (Hang 32)
    | S fuel' =>
        do ov, m1 <- read_double m;
        match ov with
        | None => Ret None m1
        | Some v => table_row fuel' ncols (icol + 1) (v :: acc) m1
        end
    end
  else Ret (Some acc) m.
Fixpoint table_rows (fuel0 fuel : nat) (nrows ncols irow : Z) (acc : list num) (m : mon) : res (option (list num)) :=
  if irow <? nrows then
    match fuel with
    | O => Bad (Hang 32)
    | S fuel' =>
        do orow, m1 <- table_row fuel0 ncols 0 acc m;
        match orow with
        | None => Ret None m1
        | Some acc' => table_rows fuel0 fuel' nrows ncols (irow + 1) acc' m1
        end
    end
  else Ret (Some (frev acc)) m.
Definition table_deserialize (E : env) (m : mon) : res (option table) :=
  do oncols, m1 <- read_int m;
  match oncols with None => Ret None m1 | Some ncols =>
  do onrows, m2 <- read_int m1;
  match onrows with None => Ret None m2 | Some nrows =>
  if negb (count_ok E ncols m2 && count_ok E nrows m2 && count_ok E (nrows * ncols) m2) then Ret None m2 else
  (* reset(nrows, ncols): Eigen::MatrixXd::Constant(nrows, ncols, 0.) — a negative size trips Eigen's assertion *)
  if (nrows <? 0) || (ncols <? 0) then Bad (Throw 3 31) else
  do _, m3 <- alloc E 31 (nrows * ncols) 8 m2;
  do ovals, m4 <- table_rows (e_fuel E) (e_fuel E) nrows ncols 0 [] m3;
  match ovals with
  | None => Ret None m4
  | Some vals => Ret (Some (mkTable nrows ncols vals)) m4
  end
  end end.

(* ------------------------------------------------------------------ PolyLine2D, PolyElem, Polygons, Faults *)
Record polyline := mkPL { pl_x : list num; pl_y : list num }.
Record polyelem := mkPE { pe_zmin : num; pe_zmax : num; pe_line : polyline }.

(* for (i < np) { ret = ret && _recordReadVec(buffer, 2); _x[i] = buffer[0]; _y[i] = buffer[1]; }
   After a failed record the remaining iterations only copy the (cleared) buffer and the object is discarded:
   the model leaves the loop at once. *)
Fixpoint pl_loop (E : env) (fuel : nat) (np i : Z) (accx accy : list num) (m : mon) : res (option polyline) :=
  if i <? np then
    match fuel with
    | O => Bad (Hang 42)
    | S fuel' =>
        do ow, m1 <- read_vec E 42 0 2 m;            (* buffer keeps its two elements: no growth *)
        match ow with
        | Some [a; b] => pl_loop E fuel' np (i + 1) (value_double a :: accx) (value_double b :: accy) m1
        | _ => Ret None m1
        end
    end
  else Ret (Some (mkPL (frev accx) (frev accy))) m.
Definition polyline_deserialize (E : env) (m : mon) : res (option polyline) :=
  do _, m0 <- alloc E 41 2 8 m;                     (* VectorDouble buffer(2) *)
  do onp, m1 <- read_int m0;
  let np := opt_default 0 onp in
  if np <? 0 then Ret None m1 else
  if negb (count_ok E np m1) then Ret None m1 else
  do _, m2 <- alloc E 41 np 8 m1;                   (* _x.resize(np) *)
  do _, m3 <- alloc E 41 np 8 m2;                   (* _y.resize(np) *)
  match onp with
  | None => Ret None m3
  | Some _ => pl_loop E (e_fuel E) np 0 [] [] m3
  end.
Definition polyelem_deserialize (E : env) (m : mon) : res (option polyelem) :=
  do ozmin, m1 <- read_double m;
  match ozmin with None => Ret None m1 | Some zmin =>
  do ozmax, m2 <- read_double m1;
  match ozmax with None => Ret None m2 | Some zmax =>
  do opl, m3 <- polyline_deserialize E m2;
  match opl with None => Ret None m3 | Some pl => Ret (Some (mkPE zmin zmax pl)) m3 end
  end end.
(* Polygons::_deserialize; addPolyElem keeps an element only when it has at least 3 vertices *)
Fixpoint polygons_loop (E : env) (fuel : nat) (npol i : Z) (acc : list polyelem) (m : mon) : res (option (list polyelem)) :=
  if i <? npol then
    match fuel with
    | O => Bad (Hang 43)
    | S fuel' =>
        do ope, m1 <- polyelem_deserialize E m;
        match ope with
        | None => Ret None m1
        | Some pe => polygons_loop E fuel' npol (i + 1)
                       (if 3 <=? zlen (pl_x (pe_line pe)) then pe :: acc else acc) m1
        end
    end
  else Ret (Some (frev acc)) m.
Definition polygons_deserialize (E : env) (m : mon) : res (option (list polyelem)) :=
  do onpol, m1 <- read_int m;
  match onpol with None => Ret None m1 | Some npol =>
  if negb (count_ok E npol m1) then Ret None m1 else
  polygons_loop E (e_fuel E) npol 0 [] m1
  end.
Fixpoint faults_loop (E : env) (fuel : nat) (n i : Z) (acc : list polyline) (m : mon) : res (option (list polyline)) :=
  if i <? n then
    match fuel with
    | O => Bad (Hang 44)
    | S fuel' =>
        do opl, m1 <- polyline_deserialize E m;
        match opl with
        | None => Ret None m1
        | Some pl => faults_loop E fuel' n (i + 1) (pl :: acc) m1
        end
    end
  else Ret (Some (frev acc)) m.
Definition faults_deserialize (E : env) (m : mon) : res (option (list polyline)) :=
  do on, m1 <- read_int m;
  match on with None => Ret None m1 | Some n =>
  if negb (count_ok E n m1) then Ret None m1 else
  faults_loop E (e_fuel E) n 0 [] m1
  end.

(* ------------------------------------------------------------------ X::createFromNF *)
Inductive outcome (A : Type) := Loaded (a : A) (ghost : Z) | Failed (ghost : Z) | Crashed (b : bad).
Arguments Loaded {A} a ghost.
Arguments Failed {A} ghost.
Arguments Crashed {A} b.
Definition create_from_nf {A} (tag : list Z) (rd : env -> mon -> res (option A)) (E : env) (f : list Z) : outcome A :=
  match file_open tag f with
  | None => Failed 0
  | Some m =>
      match rd E m with
      | Ret (Some a) m' => Loaded a (galloc m')
      | Ret None m' => Failed (galloc m')
      | Bad b => Crashed b
      end
  end.
Definition tag_Db : list Z := [68; 98].
Definition tag_DbGrid : list Z := [68; 98; 71; 114; 105; 100].
Definition tag_Table : list Z := [84; 97; 98; 108; 101].
Definition tag_Polygons : list Z := [80; 111; 108; 121; 103; 111; 110].
Definition tag_PolyElem : list Z := [80; 111; 108; 121; 69; 108; 101; 109].
Definition tag_PolyLine2D : list Z := [80; 111; 108; 121; 76; 105; 110; 101; 50; 68].
Definition tag_Faults : list Z := [70; 97; 117; 108; 116; 115].
Definition load_Db := create_from_nf tag_Db (fun E m => db_deserialize E None m).
Definition load_DbGrid := create_from_nf tag_DbGrid dbgrid_deserialize.
Definition load_Table := create_from_nf tag_Table table_deserialize.
Definition load_Polygons := create_from_nf tag_Polygons polygons_deserialize.
Definition load_PolyElem := create_from_nf tag_PolyElem polyelem_deserialize.
Definition load_PolyLine2D := create_from_nf tag_PolyLine2D polyline_deserialize.
Definition load_Faults := create_from_nf tag_Faults faults_deserialize.

(* C09 runner: decodes a case (cls cap bigfuel (bytes...)), runs the reader model of class [cls] on the bytes
     - as the code is now (cfg_fixed, p_all: every fix of fixes/C09_1 .. C09_17 is in /repo), fuel |f|+1,
     - the same with the large fuel given in the case (only when the first run ended in Hang),
     - as the code was before the fixes (regression: the old failure is recognised when a fix is reverted),
   and encodes the three outcomes. The CSV reader has a fourth outcome: the reader with the proposed fixes/C09_18.
   Classes 12, 17 .. 20 (MeshETurbo, AnamEmpirical, AnamDiscreteDD / IR, DbLine) are the models of the readers WITH the guards of the
   proposed fixes/C09_19 .. C09_22: the check compares them only when the implementation shows the guards. Executable only. *)
From Coq Require Import List ZArith QArith Bool.
From Gst Require Import lib.Sx C09.Model C09.Readers C09.Readers2 C09.Readers3 C09.Spec C09.Readers4 C09.Readers5.
Import ListNotations.
Local Open Scope Z_scope.

Definition ofNum (x : num) : sx := match x with NA => L [] | Num q => ofQ q end.
Definition ofBytes (l : list Z) : sx := L (map I l).
Definition ofZs (l : list Z) : sx := L (map I l).
Definition ofDb (d : db) : sx :=
  L [I (d_ncol d); I (d_nech d); L (map ofBytes (d_names d)); ofZs (d_uidcol d); L (map ofZs (d_loc d)); L (map ofNum (d_array d))].
Definition ofGrid (g : grid) : sx :=
  L [I (g_ndim g); ofZs (g_nx g); L (map ofNum (g_x0 g)); L (map ofNum (g_dx g)); L (map ofNum (g_angles g))].
Definition ofDbGrid (g : dbgrid) : sx := L [ofGrid (dg_grid g); ofDb (dg_db g)].
Definition ofTable (t : table) : sx := L [I (t_nrows t); I (t_ncols t); L (map ofNum (t_vals t))].
Definition ofPL (p : polyline) : sx := L [L (map ofNum (pl_x p)); L (map ofNum (pl_y p))].
Definition ofPE (p : polyelem) : sx :=
  L [ofNum (pe_zmin p); ofNum (pe_zmax p); L (map ofNum (pl_x (pe_line p))); L (map ofNum (pl_y (pe_line p)))].

(* ERule::fromValue: an unknown value gives the default (STD = 0) *)
Definition ofRule (r : rule) : sx := L [I (if (0 <=? ru_mode r) && (ru_mode r <=? 2) then ru_mode r else 0); ofNum (ru_rho r)].
Definition ofAnamH (a : anamh) : sx := L [I (zlen (ah_psi a)); L (map ofNum (ah_psi a)); ofNum (ah_r a)].
Definition ofNM (n : neighmoving) : sx := L [I (nm_ndim n); I (nth 1 (nm_ints n) 0); I (nth 2 (nm_ints n) 0)].
Definition ofVario (v : vario) : sx :=
  L [I (va_nvar v); I (zlen (va_dirs v)); I (va_calcul v); ofZs (map vd_npas (va_dirs v)); ofZs (map vd_size (va_dirs v))].
Definition ofGM (g : gmodel) : sx := L [I (gm_ndim g); I (gm_nvar g); I (gm_ncova g); I (gm_nbfl g)].
Definition ofAnamD (a : anamd) : list sx := [I (ad_ncut a); I (ad_nelem a); L (map ofNum (ad_zcut a)); L (map ofNum (ad_stats a))].
Definition ofAnamDD (a : anamdd) : sx := L (ofAnamD (dd_base a) ++ [ofNum (dd_s a); ofNum (dd_mu a)]).
Definition ofAnamIR (a : anamd * num) : sx := L (ofAnamD (fst a) ++ [ofNum (snd a)]).
Definition ofAnamE (a : aname) : sx := L [I (ae_ndisc a); ofNum (ae_sigma2e a); L (map ofNum (ae_z a)); L (map ofNum (ae_y a))].
Definition ofDbLine (x : dbline) : sx := L [L (map ofZs (dl_adds x)); ofDb (dl_db x)].
Definition ofOutcome {A} (dump : A -> sx) (wf : A -> bool) (o : outcome A) : sx :=
  match o with
  | Failed g => L [I 0; L []; I g]
  | Loaded a g => L [I 1; dump a; I g; ofB (wf a)]
  | Crashed (Throw k s) => L [I 2; I k; I s]
  | Crashed (OOB s) => L [I 3; I s]
  | Crashed (Hang s) => L [I 4; I s]
  end.
Definition is_hang {A} (o : outcome A) : bool := match o with Crashed (Hang _) => true | _ => false end.

(* [first] = true for the classes whose fixes are the flags of cfg (C09_1 .. C09_5), false for those of e_prop (C09_11 ..) *)
Definition run3 {A} (first : bool) (dump : A -> sx) (wf : A -> bool) (ld : env -> list Z -> outcome A) (cap : Z) (big : nat) (f : list Z) : sx :=
  let n := S (length f) in
  let fl := Z.of_nat (length f) in
  let o1 := ld (mkEnv cfg_fixed cap n fl p_all) f in
  let o2 := if is_hang o1 then ld (mkEnv cfg_fixed cap big fl p_all) f else o1 in
  (* the reader before the fixes: when the implementation behaves like this one, a fix has been reverted *)
  let o3 := if first then ld (mkEnv cfg_asis cap n fl p_none) f else ld (mkEnv cfg_fixed cap n fl p_none) f in
  L [ofOutcome dump wf o1; ofOutcome dump wf o2; ofOutcome dump wf o3].

Definition csv_variant (v : Z) : csvfmt :=
  mkCsv (negb (v =? 1)) (if v =? 2 then 1 else 0) (if v =? 3 then 59 else 44) (if v =? 3 then 44 else 46)
        (if v =? 4 then 2 else -1) (if v =? 4 then 3 else -1) (v =? 2).
Definition ofCsv (o : csvout) : sx :=
  match o with
  | CsvFail => L [I 0; L []; I 0]
  | CsvOk d => L [I 1; ofDb d; I 0; ofB (wf_db_b d)]
  | CsvThrow => L [I 2; I 4; I 100]
  | CsvAlloc => L [I 2; I 1; I 101]
  | CsvHang => L [I 4; I 100]
  end.
Definition run_csv (v cap : Z) (f : list Z) : sx :=
  let E := mkEnv cfg_fixed cap (S (length f)) (Z.of_nat (length f)) p_all in
  (* the code as it is now: fixes/C09_15 and C09_18 are in /repo; third = the reader before them *)
  let o1 := ofCsv (db_from_csv E true true (csv_variant v) f) in
  L [o1; o1; ofCsv (db_from_csv E false false (csv_variant v) f)].

(* class 43: the BMP reader on the bytes (no fuel, no cap: one model) *)
Definition ofBmp (o : bmpout) : sx :=
  match o with
  | BmpFail => L [I 0; L []; I 0]
  | BmpOOB => L [I 3; I 110]
  | BmpOk nx0 nx1 dx0 dx1 tab => L [I 1; L [I nx0; I nx1; ofNum dx0; ofNum dx1; ofZs tab]; I 0; ofB true]
  end.
Definition run_bmp (f : list Z) : sx := let o := ofBmp (bmp_read f) in L [o; o; o].

Definition run (c : sx) : sx :=
  match c with
  | L [I cls; I cap; I big; bytes] =>
      match asListOf asZ bytes with
      | None => sx_error 1
      | Some f =>
          let b := Z.to_nat big in
          if cls =? 1 then run3 true ofDb wf_db_b load_Db cap b f
          else if cls =? 2 then run3 true ofDbGrid wf_dbgrid_b load_DbGrid cap b f
          else if cls =? 3 then run3 true ofTable wf_table_b load_Table cap b f
          else if cls =? 4 then run3 true (fun l => L (map ofPE l)) wf_polygons_b load_Polygons cap b f
          else if cls =? 11 then run3 true ofPL wf_polyline_b load_PolyLine2D cap b f
          else if cls =? 14 then run3 true (fun l => L (map ofPL l)) wf_faults_b load_Faults cap b f
          else if cls =? 21 then run3 true ofPE wf_polyelem_b load_PolyElem cap b f
          else if cls =? 13 then run3 false ofRule wf_rule_b load_Rule cap b f
          else if cls =? 10 then run3 false ofAnamH (fun _ => true) load_AnamHermite cap b f
          else if cls =? 8 then run3 false (fun n => L [I n]) (fun _ => true) load_NeighUnique cap b f
          else if cls =? 9 then run3 false (fun p => L [I (fst p); ofNum (snd p)]) (fun _ => true) load_NeighBench cap b f
          else if cls =? 16 then run3 false (fun p => L [I (fst p); I (snd p)]) (fun _ => true) load_NeighCell cap b f
          else if cls =? 15 then run3 false (fun p => L [I (fst (fst p)); I (snd (fst p)); I (zlen (snd p))]) (fun _ => true) load_NeighImage cap b f
          else if cls =? 7 then run3 false ofNM (fun _ => true) load_NeighMoving cap b f
          else if cls =? 5 then run3 false ofVario wf_vario_b load_Vario cap b f
          else if cls =? 6 then run3 false ofGM (fun _ => true) (load_Model (fun _ => true) (fun _ => true)) cap b f
          else if cls =? 12 then run3 false (fun t => L [I (mt_ndim t); ofZs (mt_nx t); I (match mt_mesh t with Some n => n | None => -1 end);
                                                          I (match mt_grid t with Some n => n | None => -1 end)]) (fun _ => true) load_MeshETurbo cap b f
          else if cls =? 17 then run3 false ofAnamE (fun _ => true) load_AnamEmpirical cap b f
          else if cls =? 18 then run3 false ofAnamDD (fun _ => true) load_AnamDD cap b f
          else if cls =? 19 then run3 false ofAnamIR (fun _ => true) load_AnamIR cap b f
          else if cls =? 20 then run3 false ofDbLine (fun x => wf_db_b (dl_db x)) load_DbLine cap b f
          else if cls =? 43 then run_bmp f
          else if (30 <=? cls) && (cls <=? 34) then run_csv (cls - 30) cap f
          else sx_error 2
      end
  | _ => sx_error 0
  end.

(* C09 runner: decodes a case (cls cap bigfuel (bytes...)), runs the reader model of class [cls] on the bytes
     - as the code is now (cfg_fixed), with the fuel |f|+1 of the theorems,
     - as the code is now, with the large fuel given in the case (only when the first run ended in Hang),
     - (third slot: kept for a future candidate fix; currently the first outcome again),
   and encodes the three outcomes. Executable only. *)
From Coq Require Import List ZArith QArith Bool.
From Gst Require Import lib.Sx C09.Model C09.Readers C09.Readers2 C09.Spec.
Import ListNotations.
Local Open Scope Z_scope.

Definition ofNum (x : num) : sx := match x with NA => L [] | Num q => ofQ q end.
Definition ofBytes (l : list Z) : sx := L (map I l).
Definition ofZs (l : list Z) : sx := L (map I l).
Definition ofDb (d : db) : sx :=
  L [I (d_ncol d); I (d_nech d); L (map ofBytes (d_names d)); ofZs (d_uidcol d); L (map ofZs (d_loc d)); L (map ofNum (d_array d))].
Definition ofGrid (g : grid) : sx :=
  L [I (g_ndim g); ofZs (g_nx g); L (map ofNum (g_x0 g)); L (map ofNum (g_dx g)); L (map ofNum (g_angles g))].
Definition ofDbGrid (g : dbgrid) : sx := L [ofGrid (dg_grid g); ofDb (dg_db g)].
Definition ofTable (t : table) : sx := L [I (t_nrows t); I (t_ncols t); L (map ofNum (t_vals t))].
Definition ofPL (p : polyline) : sx := L [L (map ofNum (pl_x p)); L (map ofNum (pl_y p))].
Definition ofPE (p : polyelem) : sx :=
  L [ofNum (pe_zmin p); ofNum (pe_zmax p); L (map ofNum (pl_x (pe_line p))); L (map ofNum (pl_y (pe_line p)))].

(* ERule::fromValue: an unknown value gives the default (STD = 0) *)
Definition ofRule (r : rule) : sx := L [I (if (0 <=? ru_mode r) && (ru_mode r <=? 2) then ru_mode r else 0); ofNum (ru_rho r)].
Definition ofAnamH (a : anamh) : sx := L [I (zlen (ah_psi a)); L (map ofNum (ah_psi a)); ofNum (ah_r a)].
Definition ofNM (n : neighmoving) : sx := L [I (nm_ndim n); I (nth 1 (nm_ints n) 0); I (nth 2 (nm_ints n) 0)].
Definition ofVario (v : vario) : sx :=
  L [I (va_nvar v); I (zlen (va_dirs v)); I (va_calcul v); ofZs (map vd_npas (va_dirs v)); ofZs (map vd_size (va_dirs v))].
Definition ofGM (g : gmodel) : sx := L [I (gm_ndim g); I (gm_nvar g); I (gm_ncova g); I (gm_nbfl g)].
Definition ofOutcome {A} (dump : A -> sx) (wf : A -> bool) (o : outcome A) : sx :=
  match o with
  | Failed g => L [I 0; L []; I g]
  | Loaded a g => L [I 1; dump a; I g; ofB (wf a)]
  | Crashed (Throw k s) => L [I 2; I k; I s]
  | Crashed (OOB s) => L [I 3; I s]
  | Crashed (Hang s) => L [I 4; I s]
  end.
Definition is_hang {A} (o : outcome A) : bool := match o with Crashed (Hang _) => true | _ => false end.

Definition run3 {A} (dump : A -> sx) (wf : A -> bool) (ld : env -> list Z -> outcome A) (cap : Z) (big : nat) (f : list Z) : sx :=
  let n := S (length f) in
  let o1 := ld (mkEnv cfg_fixed cap n (Z.of_nat (length f)) p_none) f in
  let o2 := if is_hang o1 then ld (mkEnv cfg_fixed cap big (Z.of_nat (length f)) p_none) f else o1 in
  let o3 := ld (mkEnv cfg_fixed cap n (Z.of_nat (length f)) p_all) f in
  L [ofOutcome dump wf o1; ofOutcome dump wf o2; ofOutcome dump wf o3].

Definition run (c : sx) : sx :=
  match c with
  | L [I cls; I cap; I big; bytes] =>
      match asListOf asZ bytes with
      | None => sx_error 1
      | Some f =>
          let b := Z.to_nat big in
          if cls =? 1 then run3 ofDb wf_db_b load_Db cap b f
          else if cls =? 2 then run3 ofDbGrid wf_dbgrid_b load_DbGrid cap b f
          else if cls =? 3 then run3 ofTable wf_table_b load_Table cap b f
          else if cls =? 4 then run3 (fun l => L (map ofPE l)) wf_polygons_b load_Polygons cap b f
          else if cls =? 11 then run3 ofPL wf_polyline_b load_PolyLine2D cap b f
          else if cls =? 14 then run3 (fun l => L (map ofPL l)) wf_faults_b load_Faults cap b f
          else if cls =? 21 then run3 ofPE wf_polyelem_b load_PolyElem cap b f
          else if cls =? 13 then run3 ofRule wf_rule_b load_Rule cap b f
          else if cls =? 10 then run3 ofAnamH (fun _ => true) load_AnamHermite cap b f
          else if cls =? 8 then run3 (fun n => L [I n]) (fun _ => true) load_NeighUnique cap b f
          else if cls =? 9 then run3 (fun p => L [I (fst p); ofNum (snd p)]) (fun _ => true) load_NeighBench cap b f
          else if cls =? 16 then run3 (fun p => L [I (fst p); I (snd p)]) (fun _ => true) load_NeighCell cap b f
          else if cls =? 7 then run3 ofNM (fun _ => true) load_NeighMoving cap b f
          else if cls =? 5 then run3 ofVario wf_vario_b load_Vario cap b f
          else if cls =? 6 then run3 ofGM (fun _ => true) (load_Model (fun _ => true) (fun _ => true)) cap b f
          else sx_error 2
      end
  | _ => sx_error 0
  end.

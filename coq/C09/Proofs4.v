(* C09 proofs, layer 4: the readers guarded by the proposed fixes/C09_19 .. C09_21 (AnamDiscreteDD / IR, AnamEmpirical, DbLine):
   they return, never store out of bounds, never throw, allocate in proportion to the file, and what they return satisfies the
   class invariant. *)
From Coq Require Import List ZArith QArith Bool Lia Arith.
From Gst Require Import C09.Model C09.Readers C09.Readers2 C09.Spec C09.Readers4 C09.Proofs_prim C09.Proofs_loc C09.Proofs_db
  C09.Proofs_wf C09.Proofs_grid C09.Proofs_table C09.Proofs_poly C09.Proofs_top C09.Proofs2_loops.
Import ListNotations.
Local Open Scope Z_scope.

Section Fixed.
Variable E : env.
Variable flen : Z.
Hypothesis Hcfg : cfg_ge_now (e_cfg E).
Hypothesis Hflen : 0 <= flen < 2147483648.
Hypothesis Hfuel : flen < Z.of_nat (e_fuel E).
Hypothesis Hcap : alloc_bound flen <= e_cap E.

Let HFS : fix_store (e_cfg E) = true. Proof. destruct Hcfg as [H1 [H2 [H3 H4]]]; assumption. Qed.
Let HFC : fix_counts (e_cfg E) = true. Proof. destruct Hcfg as [H1 [H2 [H3 H4]]]; assumption. Qed.

(* _tableRead of n values, 0 <= n <= flen: costs 8 n, delivers n values *)
Lemma table_read_spec : forall site n m, 0 <= n <= flen ->
  match table_read E site n m with
  | Ret o m' => len m' <= len m /\ galloc m' = galloc m + n * 8 /\
                match o with Some l => zlen l = n | None => True end
  | Bad _ => False
  end.
Proof.
  intros site n m Hn. unfold table_read, read_vec. unfold alloc_bound in Hcap.
  rewrite alloc_ok by lia. cbn [bind]. rewrite alloc_ok by (cbn [galloc ms]; lia). cbn [bind].
  set (m2 := mkM _ _).
  assert (L2 : len m2 = len m) by reflexivity.
  assert (G2 : galloc m2 = galloc m + n * 8 + n * 0) by reflexivity.
  pose proof (read_vec_raw_fixed E site n 0 n m2 HFS ltac:(lia) ltac:(lia)) as HV. unfold vec_post in HV.
  destruct (read_vec_raw E site n 0 n m2) as [ows m3|b]; cbn [bind]; [|contradiction].
  destruct HV as [V1 [V2 V3]]. destruct ows as [ws|]; (split; [lia|split; [lia|]]); [|exact I].
  destruct V3 as [V3 _]. unfold zlen. rewrite map_length. exact V3.
Qed.

(* ---- AnamDiscrete *)
Lemma anamd_spec : forall m, len m <= flen -> rspec (48 * flen) wf_anamd m (anamd_deserialize E m).
Proof.
  intros m Hm. unfold anamd_deserialize, rspec. unfold alloc_bound in Hcap.
  assert (Hlm : 0 <= len m) by (unfold len; lia).
  pose proof (read_int_reads m) as R1. destruct (read_int m) as [o1 m1|b]; cbn [bind reads] in *; [|contradiction].
  destruct R1 as [L1 G1]. destruct o1 as [ncut|]; [|split; [lia|split; [lia|exact I]]].
  pose proof (read_int_reads m1) as R2. destruct (read_int m1) as [o2 m2|b]; cbn [bind reads] in *; [|contradiction].
  destruct R2 as [L2 G2]. destruct o2 as [nclass|]; [|split; [lia|split; [lia|exact I]]].
  pose proof (read_int_reads m2) as R3. destruct (read_int m2) as [o3 m3|b]; cbn [bind reads] in *; [|contradiction].
  destruct R3 as [L3 G3]. destruct o3 as [nelem|]; [|split; [lia|split; [lia|exact I]]].
  destruct ((ncut <? 0) || (nelem <? 6) || negb (nclass =? ncut + 1) || negb (count_ok E ncut m3)
            || negb (count_ok E (nclass * nelem) m3)) eqn:CK; [split; [lia|split; [lia|exact I]]|].
  apply orb_false_iff in CK. destruct CK as [CK C5]. apply orb_false_iff in CK. destruct CK as [CK C4].
  apply orb_false_iff in CK. destruct CK as [CK C3]. apply orb_false_iff in CK. destruct CK as [C1 C2].
  apply Z.ltb_ge in C1. apply Z.ltb_ge in C2. apply negb_false_iff in C3. apply Z.eqb_eq in C3.
  apply negb_false_iff in C4. apply negb_false_iff in C5.
  apply count_ok_fixed in C4; [|assumption]. apply count_ok_fixed in C5; [|assumption].
  remember (nclass * nelem) as ns eqn:Hns.
  rewrite alloc_ok by lia. cbn [bind].
  set (m4 := mkM _ _). assert (L4 : len m4 = len m3) by reflexivity. assert (G4 : galloc m4 = galloc m3 + ncut * 8) by reflexivity.
  pose proof (table_read_spec 62 ncut m4 ltac:(lia)) as T1.
  destruct (table_read E 62 ncut m4) as [oz m5|b]; cbn [bind]; [|contradiction].
  destruct T1 as [L5 [G5 W5]]. destruct oz as [zcut|]; [|split; [lia|split; [lia|exact I]]].
  rewrite alloc_ok by lia. cbn [bind].
  set (m6 := mkM _ _). assert (L6 : len m6 = len m5) by reflexivity. assert (G6 : galloc m6 = galloc m5 + ns * 8) by reflexivity.
  pose proof (table_read_spec 62 ns m6 ltac:(lia)) as T2.
  destruct (table_read E 62 ns m6) as [os m7|b]; cbn [bind]; [|contradiction].
  destruct T2 as [L7 [G7 W7]]. destruct os as [stats|]; [|split; [lia|split; [lia|exact I]]].
  rewrite alloc_ok by lia. cbn [bind].
  split; [change (len (mkM (ms m7) (galloc m7 + (ncut + ns) * 8))) with (len m7); lia|].
  split; [cbn [galloc]; lia|].
  unfold wf_anamd. cbn [ad_ncut ad_nelem ad_zcut ad_stats].
  split; [lia|split; [lia|split; [assumption|]]]. rewrite W7, Hns, C3. reflexivity.
Qed.

Ltac early3 := split; [lia|split; [lia|exact I]].

Lemma anamdd_spec : forall m, len m <= flen -> rspec (72 * flen) wf_anamdd m (anamdd_deserialize E m).
Proof.
  intros m Hm. unfold anamdd_deserialize, rspec. unfold alloc_bound in Hcap.
  assert (Hlm : 0 <= len m) by (unfold len; lia).
  pose proof (anamd_spec m Hm) as B. unfold rspec in B.
  destruct (anamd_deserialize E m) as [ob m1|b]; cbn [bind]; [|contradiction].
  destruct B as [L1 [G1 W1]]. destruct ob as [b|]; [|split; [lia|split; [lia|exact I]]].
  pose proof (read_double_reads m1) as R2. destruct (read_double m1) as [os m2|bb]; cbn [bind reads] in *; [|contradiction].
  destruct R2 as [L2 G2]. destruct os as [s|]; [|early3].
  pose proof (read_double_reads m2) as R3. destruct (read_double m2) as [omu m3|bb]; cbn [bind reads] in *; [|contradiction].
  destruct R3 as [L3 G3]. destruct omu as [mu|]; [|early3].
  remember (ad_ncut b * ad_ncut b) as n2 eqn:Hn2.
  destruct (count_ok E (2 * n2) m3) eqn:CK; cbn [negb]; [|early3].
  apply count_ok_fixed in CK; [|assumption].
  assert (Hn2pos : 0 <= n2) by (subst n2; apply Z.square_nonneg).
  rewrite alloc_ok by lia. cbn [bind].
  set (m4 := mkM _ _). assert (L4 : len m4 = len m3) by reflexivity. assert (G4 : galloc m4 = galloc m3 + n2 * 8) by reflexivity.
  pose proof (table_read_spec 64 n2 m4 ltac:(lia)) as T1.
  destruct (table_read E 64 n2 m4) as [o1 m5|bb]; cbn [bind]; [|contradiction].
  destruct T1 as [L5 [G5 W5]].
  rewrite alloc_ok by lia. cbn [bind].
  set (m6 := mkM _ _). assert (L6 : len m6 = len m5) by reflexivity. assert (G6 : galloc m6 = galloc m5 + n2 * 8) by reflexivity.
  destruct o1 as [z2f|]; [|early3].
  rewrite alloc_ok by lia. cbn [bind].
  set (m7 := mkM _ _). assert (L7 : len m7 = len m6) by reflexivity. assert (G7 : galloc m7 = galloc m6 + n2 * 8) by reflexivity.
  pose proof (table_read_spec 64 n2 m7 ltac:(lia)) as T2.
  destruct (table_read E 64 n2 m7) as [o2 m8|bb]; cbn [bind]; [|contradiction].
  destruct T2 as [L8 [G8 W8]].
  rewrite alloc_ok by lia. cbn [bind].
  set (m9 := mkM _ _). assert (L9 : len m9 = len m8) by reflexivity. assert (G9 : galloc m9 = galloc m8 + n2 * 8) by reflexivity.
  destruct o2 as [f2z|]; [|early3].
  split; [lia|split; [lia|]]. unfold wf_anamdd. cbn [dd_base dd_z2f dd_f2z]. rewrite <- Hn2. split; [assumption|split; assumption].
Qed.

Lemma anamir_spec : forall m, len m <= flen -> rspec (48 * flen) (fun p => wf_anamd (fst p)) m (anamir_deserialize E m).
Proof.
  intros m Hm. unfold anamir_deserialize, rspec.
  pose proof (anamd_spec m Hm) as B. unfold rspec in B.
  destruct (anamd_deserialize E m) as [ob m1|b]; cbn [bind]; [|contradiction].
  destruct B as [L1 [G1 W1]]. destruct ob as [b|]; [|early3].
  pose proof (read_double_reads m1) as R2. destruct (read_double m1) as [orr m2|bb]; cbn [bind reads] in *; [|contradiction].
  destruct R2 as [L2 G2]. destruct orr as [r|]; [|early3]. split; [lia|split; [lia|exact W1]].
Qed.

Lemma aname_spec : forall m, len m <= flen -> rspec (48 * flen) wf_aname m (aname_deserialize E m).
Proof.
  intros m Hm. unfold aname_deserialize. apply opt_tail_spec; [apply tail_ints_reads|].
  unfold aname_core, rspec. unfold alloc_bound in Hcap.
  assert (Hlm : 0 <= len m) by (unfold len; lia).
  pose proof (read_doubles_spec 10 10 0 [] m ltac:(lia) ltac:(simpl; lia)) as R0. unfold loop_post in R0.
  destruct (read_doubles 10 10 0 [] m) as [ob m1|b]; cbn [bind]; [|contradiction].
  destruct R0 as [L1 [G1 W1]]. destruct ob as [bounds|]; [|early3].
  pose proof (read_int_reads m1) as R2. destruct (read_int m1) as [on m2|b]; cbn [bind reads] in *; [|contradiction].
  destruct R2 as [L2 G2]. destruct on as [nd|]; [|early3].
  pose proof (read_double_reads m2) as R3. destruct (read_double m2) as [os m3|b]; cbn [bind reads] in *; [|contradiction].
  destruct R3 as [L3 G3]. destruct os as [sig|]; [|early3].
  destruct (count_ok E (2 * nd) m3) eqn:CK; cbn [negb]; [|early3].
  apply count_ok_fixed in CK; [|assumption].
  rewrite alloc_ok by lia. cbn [bind].
  set (m4 := mkM _ _). assert (L4 : len m4 = len m3) by reflexivity. assert (G4 : galloc m4 = galloc m3 + nd * 8) by reflexivity.
  pose proof (table_read_spec 65 nd m4 ltac:(lia)) as T1.
  destruct (table_read E 65 nd m4) as [oz m5|b]; cbn [bind]; [|contradiction].
  destruct T1 as [L5 [G5 W5]].
  rewrite alloc_ok by lia. cbn [bind].
  set (m6 := mkM _ _). assert (L6 : len m6 = len m5) by reflexivity. assert (G6 : galloc m6 = galloc m5 + nd * 8) by reflexivity.
  destruct oz as [z|]; [|early3].
  pose proof (table_read_spec 65 nd m6 ltac:(lia)) as T2.
  destruct (table_read E 65 nd m6) as [oy m7|b]; cbn [bind]; [|contradiction].
  destruct T2 as [L7 [G7 W7]]. destruct oy as [y|]; [|early3].
  rewrite alloc_ok by lia. cbn [bind].
  split; [change (len (mkM (ms m7) (galloc m7 + 2 * nd * 8))) with (len m7); lia|split; [cbn [galloc]; lia|]].
  unfold wf_aname. cbn [ae_ndisc ae_bounds ae_z ae_y]. split; [lia|split; [|split; assumption]].
  unfold zlen in *. simpl in W1. lia.
Qed.

(* ---- DbLine *)
Lemma dbline_lines_spec : forall fuel nb i acc m, len m <= flen -> 0 <= i <= nb -> nb - i <= Z.of_nat fuel ->
  match dbline_lines E fuel nb i acc m with
  | Ret o m' => len m' <= len m /\ galloc m <= galloc m' <= galloc m + (nb - i) * (4 * flen)
  | Bad _ => False
  end.
Proof.
  unfold alloc_bound in Hcap.
  induction fuel as [|f IH]; intros nb i acc m Hm Hi Hf; cbn [dbline_lines].
  - destruct (i <? nb) eqn:C; [apply Z.ltb_lt in C; simpl in Hf; lia|]. split; [lia|nia].
  - destruct (i <? nb) eqn:C; [|split; [lia|apply Z.ltb_ge in C; nia]]. apply Z.ltb_lt in C.
    assert (Hlm : 0 <= len m) by (unfold len; lia).
    assert (Hstep : 0 <= (nb - (i + 1)) * (4 * flen)) by nia.
    assert (Hsplit : (nb - i) * (4 * flen) = 4 * flen + (nb - (i + 1)) * (4 * flen)) by ring.
    pose proof (read_int_reads m) as R1. destruct (read_int m) as [on m1|b]; cbn [bind reads] in *; [|contradiction].
    destruct R1 as [L1 G1]. destruct on as [number|]; [|split; [lia|lia]].
    destruct (count_ok E number m1) eqn:CK; cbn [negb]; [|split; [lia|lia]].
    apply count_ok_fixed in CK; [|assumption].
    unfold read_vec. rewrite alloc_ok by lia. cbn [bind].
    set (m2 := mkM _ _). assert (L2 : len m2 = len m1) by reflexivity. assert (G2 : galloc m2 = galloc m1 + number * 4) by reflexivity.
    pose proof (read_vec_raw_fixed E 63 number 0 number m2 HFS ltac:(lia) ltac:(lia)) as HV. unfold vec_post in HV.
    destruct (read_vec_raw E 63 number 0 number m2) as [ows m3|b]; cbn [bind]; [|contradiction].
    destruct HV as [V1 [V2 V3]]. destruct ows as [ws|]; [|split; [lia|lia]].
    specialize (IH nb (i + 1) (map value_int ws :: acc) m3 ltac:(lia) ltac:(lia) ltac:(lia)).
    destruct (dbline_lines E f nb (i + 1) (map value_int ws :: acc) m3) as [o m'|b]; [|contradiction].
    destruct IH as [I1 I2]. split; [lia|lia].
Qed.

Lemma nodupZ_NoDup : forall l, nodupZ l = true -> NoDup l.
Proof.
  induction l as [|x l IH]; intros H; [constructor|]. simpl in H. apply andb_true_iff in H. destruct H as [H1 H2].
  constructor; [|apply IH; assumption]. intro HI. apply negb_true_iff in H1.
  assert (memZ x l = true); [|congruence]. clear -HI. induction l as [|y l IH]; [contradiction|].
  simpl. destruct HI as [HI|HI]; [subst; rewrite Z.eqb_refl; reflexivity|rewrite IH by assumption; apply orb_true_r].
Qed.
Lemma dbline_consistent_wf : forall adds d, wf_db d -> dbline_consistent adds (d_nech d) = true -> wf_dbline (mkDbLine adds d).
Proof.
  intros adds d W H. unfold dbline_consistent in H. apply andb_true_iff in H. destruct H as [H H3].
  apply andb_true_iff in H. destruct H as [H1 H2]. apply Z.eqb_eq in H1.
  unfold wf_dbline. cbn [dl_db dl_adds]. split; [assumption|split; [assumption|split; [apply nodupZ_NoDup; assumption|]]].
  apply Forall_forall. intros a Ha. rewrite forallb_forall in H2. specialize (H2 a Ha).
  apply andb_true_iff in H2. destruct H2 as [A1 A2]. apply Z.leb_le in A1. apply Z.ltb_lt in A2. lia.
Qed.

(* ghost bound: nbline * 24 + nbline * 4 flen + 240 flen *)
Lemma dbline_spec : forall m, len m <= flen -> fix_rank (e_cfg E) = true ->
  rspec (4 * flen * flen + 264 * flen) wf_dbline m (dbline_deserialize E m).
Proof.
  intros m Hm HR. unfold dbline_deserialize, rspec.
  assert (Hlm : 0 <= len m) by (unfold len; lia).
  assert (Hsq : 0 <= flen * flen) by nia.
  pose proof (read_int_reads m) as R1. destruct (read_int m) as [ond m1|b]; cbn [bind reads] in *; [|contradiction].
  destruct R1 as [L1 G1]. destruct ond as [nd|]; [|early3].
  pose proof (read_int_reads m1) as R2. destruct (read_int m1) as [onb m2|b]; cbn [bind reads] in *; [|contradiction].
  destruct R2 as [L2 G2]. destruct onb as [nb|]; [|early3].
  destruct (count_ok E nb m2) eqn:CK; cbn [negb]; [|early3].
  apply count_ok_fixed in CK; [|assumption].
  assert (HC : alloc_bound flen <= e_cap E) by exact Hcap. unfold alloc_bound in HC.
  rewrite alloc_ok by lia. cbn [bind].
  set (m3 := mkM _ _). assert (L3 : len m3 = len m2) by reflexivity. assert (G3 : galloc m3 = galloc m2 + nb * 24) by reflexivity.
  pose proof (dbline_lines_spec (e_fuel E) nb 0 [] m3 ltac:(lia) ltac:(lia) ltac:(lia)) as HL.
  destruct (dbline_lines E (e_fuel E) nb 0 [] m3) as [ol m4|b]; cbn [bind]; [|contradiction].
  destruct HL as [L4 G4]. replace (nb - 0) with nb in G4 by lia.
  assert (Hnb : nb * (4 * flen) <= 4 * flen * flen) by nia.
  destruct ol as [adds|]; [|early3].
  pose proof (db_spec E flen Hcfg Hflen Hfuel Hcap None m4 I ltac:(lia)) as HD. unfold dspec in HD.
  destruct (db_deserialize E None m4) as [od m5|b]; cbn [bind]; [|destruct HD; congruence].
  destruct HD as [D1 [D2 [D3 D4]]]. specialize (D3 HR).
  destruct od as [d|]; [|early3]. destruct (D4 HR) as [WD _].
  destruct (dbline_consistent adds (d_nech d)) eqn:CC; [|early3].
  split; [lia|split; [lia|]]. apply dbline_consistent_wf; assumption.
Qed.
End Fixed.

(* ------------------------------------------------------------------ MeshETurbo with the guards of fixes/C09_22 *)
Lemma turbo_totals_pos : forall nx a b r, turbo_totals nx a b = Some r -> Forall (fun v => 0 < v) nx.
Proof.
  induction nx as [|v nx IH]; intros a b r H; cbn [turbo_totals] in H; [constructor|].
  destruct (v <=? 0) eqn:C; [discriminate|]. apply Z.leb_gt in C.
  destruct ((INT_MAX <? a * (v - 1)) || (INT_MAX <? b * v)); [discriminate|]. constructor; [assumption|eapply IH; eassumption].
Qed.

Section Turbo.
Variable E : env.
Variable flen : Z.
Hypothesis Hcfg : cfg_ge_now (e_cfg E).
Hypothesis Hflen : 0 <= flen < 2147483648.
Hypothesis Hfuel : flen < Z.of_nat (e_fuel E).
Hypothesis Hcap : alloc_bound flen <= e_cap E.
Hypothesis Hfl : e_flen E = flen.

Let HFS : fix_store (e_cfg E) = true. Proof. destruct Hcfg as [H1 [H2 [H3 H4]]]; assumption. Qed.
Let HFC : fix_counts (e_cfg E) = true. Proof. destruct Hcfg as [H1 [H2 [H3 H4]]]; assumption. Qed.

Lemma read_vec_small : forall site sz n m, 0 <= sz <= 8 -> 0 <= n <= flen ->
  match read_vec E site sz n m with
  | Ret o m' => len m' <= len m /\ galloc m <= galloc m' <= galloc m + 8 * n /\
                match o with Some ws => zlen ws = n | None => True end
  | Bad _ => False
  end.
Proof.
  intros site sz n m Hs Hn. unfold read_vec. unfold alloc_bound in Hcap.
  rewrite alloc_ok by nia. cbn [bind].
  pose proof (read_vec_raw_fixed E site n 0 n (mkM (ms m) (galloc m + n * sz)) HFS ltac:(lia) ltac:(lia)) as H.
  unfold vec_post in H. destruct (read_vec_raw E site n 0 n (mkM (ms m) (galloc m + n * sz))) as [o m'|b]; [|contradiction].
  destruct H as [H1 [H2 H3]]. cbn [galloc] in H2. split; [exact H1|split; [nia|]]. destruct o; [|exact I]. destruct H3. assumption.
Qed.

Lemma turbo_mask_spec : forall mode total m, len m <= flen ->
  match turbo_mask E mode total m with
  | Ret o m' => len m' <= len m /\ galloc m <= galloc m' <= galloc m + 16 * flen /\
                match o with Some (Some n) => 0 <= n | _ => True end
  | Bad _ => False
  end.
Proof.
  intros mode total m Hm. unfold turbo_mask. unfold alloc_bound in Hcap. assert (Hlm : 0 <= len m) by (unfold len; lia).
  pose proof (read_int_reads m) as R1. destruct (read_int m) as [oa m1|b]; cbn [bind reads] in *; [|contradiction].
  destruct R1 as [L1 G1]. destruct oa as [nact|]; [|split; [lia|split; [lia|exact I]]].
  pose proof (read_int_reads m1) as R2. destruct (read_int m1) as [om m2|b]; cbn [bind reads] in *; [|contradiction].
  destruct R2 as [L2 G2]. destruct om as [nmask|]; [|split; [lia|split; [lia|exact I]]].
  destruct (nmask <=? 0); [split; [lia|split; [lia|exact I]]|].
  destruct (count_ok E nact m2) eqn:CK; cbn [negb]; [|split; [lia|split; [lia|exact I]]].
  apply count_ok_fixed in CK; [|assumption].
  pose proof (read_vec_small 74 4 nact m2 ltac:(lia) ltac:(lia)) as RV.
  destruct (read_vec E 74 4 nact m2) as [ov m3|b]; cbn [bind]; [|contradiction]. destruct RV as [L3 [G3 W3]].
  destruct ov as [ws|]; [|split; [lia|split; [lia|exact I]]].
  destruct (negb (forallb (fun r => (0 <=? r) && (r <? total)) (map value_int ws))); [split; [lia|split; [lia|exact I]]|].
  set (n4 := if (mode =? 0) && count_in_file E total then total else nact).
  assert (H4 : 0 <= n4 <= flen).
  { unfold n4. destruct ((mode =? 0) && count_in_file E total) eqn:CA; [|lia].
    apply andb_true_iff in CA. destruct CA as [_ CA]. unfold count_in_file in CA. apply andb_true_iff in CA. destruct CA as [C1 C2].
    apply Z.leb_le in C1. apply Z.leb_le in C2. lia. }
  clearbody n4. rewrite alloc_ok by lia. cbn [bind]. rewrite alloc_ok by (cbn [ms galloc]; lia). cbn [bind].
  split; [unfold len in *; cbn [ms]; lia|split; [cbn [galloc]; lia|lia]].
Qed.

Theorem meshturbo_spec : forall m, len m <= flen -> rspec (48 * flen + 512) wf_mturbo m (meshturbo_deserialize E m).
Proof.
  intros m Hm. unfold meshturbo_deserialize, rspec. unfold alloc_bound in Hcap. assert (Hlm : 0 <= len m) by (unfold len; lia).
  pose proof (read_int_reads m) as R1. destruct (read_int m) as [ond m1|b]; cbn [bind reads] in *; [|contradiction].
  destruct R1 as [L1 G1]. destruct ond as [ndim|]; [|split; [lia|split; [lia|exact I]]].
  destruct ((ndim <=? 0) || (3 <? ndim) || negb (count_ok E (ndim * ndim) m1)) eqn:CG; [split; [lia|split; [lia|exact I]]|].
  apply orb_false_iff in CG. destruct CG as [CG C3]. apply orb_false_iff in CG. destruct CG as [C1 C2].
  apply Z.leb_gt in C1. apply Z.ltb_ge in C2. apply negb_false_iff in C3. apply count_ok_fixed in C3; [|assumption].
  assert (HN2 : ndim <= ndim * ndim <= 9) by nia.
  pose proof (read_vec_small 74 4 ndim m1 ltac:(lia) ltac:(lia)) as V1.
  destruct (read_vec E 74 4 ndim m1) as [onx m2|b]; cbn [bind]; [|contradiction]. destruct V1 as [L2 [G2 W2]].
  destruct onx as [wnx|]; [|split; [lia|split; [lia|exact I]]].
  pose proof (read_vec_small 74 8 ndim m2 ltac:(lia) ltac:(lia)) as V2.
  destruct (read_vec E 74 8 ndim m2) as [odx m3|b]; cbn [bind]; [|contradiction]. destruct V2 as [L3 [G3 _]].
  destruct odx as [wdx|]; [|split; [lia|split; [lia|exact I]]].
  pose proof (read_vec_small 74 8 ndim m3 ltac:(lia) ltac:(lia)) as V3.
  destruct (read_vec E 74 8 ndim m3) as [ox0 m4|b]; cbn [bind]; [|contradiction]. destruct V3 as [L4 [G4 _]].
  destruct ox0 as [wx0|]; [|split; [lia|split; [lia|exact I]]].
  pose proof (read_vec_small 74 8 (ndim * ndim) m4 ltac:(lia) ltac:(lia)) as V4.
  destruct (read_vec E 74 8 (ndim * ndim) m4) as [orot m5|b]; cbn [bind]; [|contradiction]. destruct V4 as [L5 [G5 _]].
  destruct orot as [wrot|]; [|split; [lia|split; [lia|exact I]]].
  pose proof (read_ints_spec 2 2 0 [] m5 ltac:(lia) ltac:(simpl; lia)) as R6. unfold loop_post in R6.
  destruct (read_ints 2 2 0 [] m5) as [op m6|b]; cbn [bind]; [|contradiction]. destruct R6 as [L6 [G6 _]].
  destruct op as [[|pol [|mode [|x l]]]|]; try (split; [lia|split; [lia|exact I]]).
  destruct (turbo_totals (map value_int wnx) (npercell ndim) 1) as [[nmt ngt]|] eqn:TT; [|split; [lia|split; [lia|exact I]]].
  destruct (existsb neg_num (map value_double wdx)); [split; [lia|split; [lia|exact I]]|].
  rewrite alloc_ok by lia. cbn [bind].
  set (m7 := mkM _ _). assert (L7 : len m7 = len m6) by reflexivity.
  assert (G7 : galloc m7 = galloc m6 + (ndim * ndim + 6 * ndim) * 8) by reflexivity.
  pose proof (turbo_mask_spec mode nmt m7 ltac:(lia)) as M1.
  destruct (turbo_mask E mode nmt m7) as [omm m8|b]; cbn [bind]; [|contradiction]. destruct M1 as [L8 [G8 W8]].
  destruct omm as [mesh|]; [|split; [lia|split; [lia|exact I]]].
  pose proof (turbo_mask_spec mode ngt m8 ltac:(lia)) as M2.
  destruct (turbo_mask E mode ngt m8) as [ogm m9|b]; cbn [bind]; [|contradiction]. destruct M2 as [L9 [G9 W9]].
  destruct ogm as [grid|]; [|split; [lia|split; [lia|exact I]]].
  split; [lia|split; [lia|]]. unfold wf_mturbo. cbn [mt_ndim mt_nx mt_mesh mt_grid].
  split; [lia|split; [unfold zlen in *; rewrite map_length; assumption|split; [eapply turbo_totals_pos; exact TT|split; assumption]]].
Qed.
End Turbo.

(* ------------------------------------------------------------------ createFromNF on a whole file *)
Section Loaders4.
Variable E : env.
Variable f : list Z.
Hypothesis Hlen : flen f < 2147483648.

Theorem load_AnamDD_guarded : now_env E f (alloc_bound (flen f)) -> good_outcome wf_anamdd (alloc_bound (flen f)) (load_AnamDD E f).
Proof.
  intros HE. pose proof (flen_nonneg f). pose proof (fuel_of E f _ HE). destruct HE as [H1 [H2 H3]].
  eapply good_outcome_weaken; [|apply create_spec with (cost := 72 * flen f); [lia|]].
  - unfold alloc_bound. lia.
  - intros m Hm. apply (anamdd_spec E (flen f)); try assumption. lia.
Qed.
Theorem load_AnamIR_guarded : now_env E f (alloc_bound (flen f)) ->
  good_outcome (fun p => wf_anamd (fst p)) (alloc_bound (flen f)) (load_AnamIR E f).
Proof.
  intros HE. pose proof (flen_nonneg f). pose proof (fuel_of E f _ HE). destruct HE as [H1 [H2 H3]].
  eapply good_outcome_weaken; [|apply create_spec with (cost := 48 * flen f); [lia|]].
  - unfold alloc_bound. lia.
  - intros m Hm. apply (anamir_spec E (flen f)); try assumption. lia.
Qed.
Theorem load_AnamEmpirical_guarded : now_env E f (alloc_bound (flen f)) ->
  good_outcome wf_aname (alloc_bound (flen f)) (load_AnamEmpirical E f).
Proof.
  intros HE. pose proof (flen_nonneg f). pose proof (fuel_of E f _ HE). destruct HE as [H1 [H2 H3]].
  eapply good_outcome_weaken; [|apply create_spec with (cost := 48 * flen f); [lia|]].
  - unfold alloc_bound. lia.
  - intros m Hm. apply (aname_spec E (flen f)); try assumption. lia.
Qed.
Theorem load_MeshETurbo_guarded : now_env E f (alloc_bound (flen f)) -> e_flen E = flen f ->
  good_outcome wf_mturbo (alloc_bound (flen f)) (load_MeshETurbo E f).
Proof.
  intros HE HF. pose proof (flen_nonneg f). pose proof (fuel_of E f _ HE). destruct HE as [H1 [H2 H3]].
  eapply good_outcome_weaken; [|apply create_spec with (cost := 48 * flen f + 512); [lia|]].
  - unfold alloc_bound. lia.
  - intros m Hm. apply (meshturbo_spec E (flen f)); try assumption. lia.
Qed.
Theorem load_DbLine_guarded : fixed_env E f (alloc_bound_grid (flen f)) ->
  good_outcome wf_dbline (alloc_bound_grid (flen f)) (load_DbLine E f).
Proof.
  intros [HE HR]. pose proof (flen_nonneg f). pose proof (fuel_of E f _ HE). destruct HE as [H1 [H2 H3]].
  eapply good_outcome_weaken; [|apply create_spec with (cost := 4 * flen f * flen f + 264 * flen f); [nia|]].
  - unfold alloc_bound_grid. nia.
  - intros m Hm. apply (dbline_spec E (flen f)); try assumption; [lia|].
    unfold alloc_bound_grid in H3. unfold alloc_bound. nia.
Qed.
End Loaders4.

(* C09 proofs, second wave, part 5: Model with fixes/C09_14, whatever the constructors of covariances and drifts answer. *)
From Coq Require Import List ZArith QArith Bool Lia Arith.
From Gst Require Import C09.Model C09.Readers C09.Readers2 C09.Spec C09.Proofs_prim C09.Proofs2_loops C09.Proofs_db.
Import ListNotations.
Local Open Scope Z_scope.

Section Fixed.
Variable E : env.
Variable flen : Z.
Variable accept_cov accept_drift : Z -> bool.
Hypothesis Hcfg : cfg_ge_now (e_cfg E).
Hypothesis Hflen : 0 <= flen < 2147483648.
Hypothesis Hfuel : flen < Z.of_nat (e_fuel E).
Hypothesis Hcap : alloc_bound_model flen <= e_cap E.
Hypothesis HM : fix_model (e_prop E) = true.

Let HFC : fix_counts (e_cfg E) = true. Proof. destruct Hcfg as [H1 [H2 [H3 H4]]]; assumption. Qed.
Definition KC : Z := 32 * flen * flen + 32 * flen.
Lemma KC_nonneg : 0 <= KC. Proof. unfold KC. nia. Qed.
Lemma cap_KC : KC <= e_cap E. Proof. unfold KC, alloc_bound_model in *. nia. Qed.

(* the anisotropy block of one covariance *)
Lemma aniso_block : forall ndim m3, 0 < ndim <= flen -> len m3 <= flen ->
  match (do _, ma <- alloc E 92 ndim 8 m3;
         do oc, mb <- read_doubles (e_fuel E) ndim 0 [] ma;
         match oc with None => Ret false mb | Some _ =>
         do orf, mc <- read_int mb;
         match orf with None => Ret false mc | Some flag_rot =>
         if flag_rot =? 0 then Ret true mc else
         if fix_model (e_prop E) && negb (count_ok E (ndim * ndim) mc) then Ret false mc else
         do _, md <- alloc E 92 (wrap32 (ndim * ndim)) 8 mc;
         do orm, me <- read_doubles (e_fuel E) (ndim * ndim) 0 [] md;
         match orm with None => Ret false me | Some _ => Ret true me end
         end end) with
  | Ret _ m4 => len m4 <= len m3 /\ galloc m3 <= galloc m4 <= galloc m3 + 16 * flen
  | Bad _ => False
  end.
Proof.
  intros ndim m3 Hnd Hm. pose proof cap_KC as HC. unfold KC in HC.
  assert (Hl3 : 0 <= len m3) by (unfold len; lia).
  rewrite alloc_ok by nia. cbn [bind].
  set (ma := mkM (ms m3) (galloc m3 + ndim * 8)).
  assert (La : len ma = len m3) by reflexivity. assert (Ga : galloc ma = galloc m3 + ndim * 8) by reflexivity.
  pose proof (read_doubles_spec (e_fuel E) ndim 0 [] ma ltac:(lia) ltac:(lia)) as R. unfold loop_post in R.
  destruct (read_doubles (e_fuel E) ndim 0 [] ma) as [oc mb|b]; cbn [bind]; [|contradiction]. destruct R as [Lb [Gb _]].
  destruct oc; [|split; [lia|lia]].
  pose proof (read_int_reads mb) as R2. destruct (read_int mb) as [orf mc|b]; cbn [bind reads] in *; [|contradiction].
  destruct R2 as [Lc Gc]. destruct orf as [fr|]; [|split; [lia|lia]].
  destruct (fr =? 0); [split; [lia|lia]|].
  rewrite HM. cbn [andb]. destruct (negb (count_ok E (ndim * ndim) mc)) eqn:CK; [split; [lia|lia]|].
  apply negb_false_iff in CK. apply count_ok_fixed in CK; [|assumption].
  rewrite wrap32_small by lia. rewrite alloc_ok by nia. cbn [bind].
  set (md := mkM (ms mc) (galloc mc + ndim * ndim * 8)).
  assert (Ld : len md = len mc) by reflexivity. assert (Gd : galloc md = galloc mc + ndim * ndim * 8) by reflexivity.
  pose proof (read_doubles_spec (e_fuel E) (ndim * ndim) 0 [] md ltac:(lia) ltac:(lia)) as R3. unfold loop_post in R3.
  destruct (read_doubles (e_fuel E) (ndim * ndim) 0 [] md) as [orm me|b]; cbn [bind]; [|contradiction]. destruct R3 as [Le [Ge _]].
  destruct orm; split; lia.
Qed.

Lemma model_covs_spec : forall fuel ndim nvar ncova icova types m,
  len m <= flen -> 0 < ndim <= flen -> 0 < nvar -> nvar * nvar <= flen -> 0 <= icova <= ncova -> ncova - icova <= Z.of_nat fuel ->
  zlen types = icova ->
  match model_covs accept_cov E fuel ndim nvar ncova icova types m with
  | Ret o m' => len m' <= len m /\ galloc m <= galloc m' <= galloc m + KC * (ncova - icova) /\
                match o with Some ts => zlen ts = ncova | None => True end
  | Bad _ => False
  end.
Proof.
  induction fuel as [|f IH]; intros ndim nvar ncova icova types m Hm Hnd Hnv Hnv2 Hi Hf Ht; cbn [model_covs].
  - destruct (icova <? ncova) eqn:C; [apply Z.ltb_lt in C; simpl in Hf; lia|]. apply Z.ltb_ge in C.
    replace (ncova - icova) with 0 by lia. split; [lia|split; [lia|]]. unfold zlen in *. rewrite frev_length. lia.
  - assert (Hlm : 0 <= len m) by (unfold len; lia). pose proof KC_nonneg as HKn. pose proof cap_KC as HCK.
    destruct (icova <? ncova) eqn:C.
    2:{ apply Z.ltb_ge in C. replace (ncova - icova) with 0 by lia. split; [lia|split; [lia|]]. unfold zlen in *. rewrite frev_length. lia. }
    apply Z.ltb_lt in C.
    assert (HK : KC * (ncova - icova) = KC * (ncova - (icova + 1)) + KC) by ring.
    assert (HK0 : 0 <= KC * (ncova - (icova + 1))) by (clear - HKn C; nia).
    assert (HND : 3 * ndim * ndim + nvar * nvar <= 3 * flen * flen + flen) by (clear - Hnd Hnv2; nia).
    assert (HKC : 16 * flen + (3 * flen * flen + flen) * 8 <= KC) by (unfold KC; clear - Hflen; nia).
    assert (EARLY : forall m', len m' <= len m -> galloc m <= galloc m' <= galloc m + KC ->
            len m' <= len m /\ galloc m <= galloc m' <= galloc m + KC * (ncova - icova) /\ True).
    { intros m' A B. split; [lia|split; [rewrite HK; lia|exact I]]. }
    pose proof (read_int_reads m) as R1. destruct (read_int m) as [ot m1|b]; cbn [bind reads] in *; [|contradiction].
    destruct R1 as [L1 G1]. destruct ot as [type|]; [|apply EARLY; lia].
    pose proof (read_doubles_spec 2 2 0 [] m1 ltac:(lia) ltac:(simpl; lia)) as R2. unfold loop_post in R2.
    destruct (read_doubles 2 2 0 [] m1) as [o2 m2|b]; cbn [bind]; [|contradiction]. destruct R2 as [L2 [G2 _]].
    destruct o2; [|apply EARLY; lia].
    pose proof (read_int_reads m2) as R3. destruct (read_int m2) as [oa m3|b]; cbn [bind reads] in *; [|contradiction].
    destruct R3 as [L3 G3]. destruct oa as [fa|]; [|apply EARLY; lia].
    destruct ((type <? 0) || (30 <? type)); [apply EARLY; lia|].
    (* anisotropy *)
    match goal with |- match bind ?X _ with _ => _ end => set (blk := X) end.
    assert (HB : match blk with Ret _ m4 => len m4 <= len m3 /\ galloc m3 <= galloc m4 <= galloc m3 + 16 * flen | Bad _ => False end).
    { unfold blk. destruct (fa =? 0); [split; [lia|lia]|]. apply aniso_block; [assumption|lia]. }
    destruct blk as [ok m4|b]; cbn [bind]; [|contradiction]. destruct HB as [L4 G4].
    destruct ok; cbn [negb]; [|apply EARLY; lia].
    rewrite alloc_ok by lia. cbn [bind].
    set (m5 := mkM (ms m4) (galloc m4 + (3 * ndim * ndim + nvar * nvar) * 8)).
    assert (L5 : len m5 = len m4) by reflexivity.
    assert (G5 : galloc m5 = galloc m4 + (3 * ndim * ndim + nvar * nvar) * 8) by reflexivity.
    destruct (accept_cov icova); cbn [negb].
    + specialize (IH ndim nvar ncova (icova + 1) (type :: types) m5 ltac:(lia) Hnd Hnv Hnv2 ltac:(lia) ltac:(lia)
                     ltac:(unfold zlen in *; simpl length; lia)).
      destruct (model_covs accept_cov E f ndim nvar ncova (icova + 1) (type :: types) m5) as [o m'|b]; [|contradiction].
      destruct IH as [I1 [I2 I3]]. split; [lia|split; [rewrite HK; lia|exact I3]].
    + rewrite HM. apply EARLY; lia.
Qed.

Lemma model_drifts_spec : forall fuel nbfl i m, 0 <= i <= nbfl -> nbfl - i <= Z.of_nat fuel ->
  match model_drifts accept_drift fuel nbfl i m with
  | Ret _ m' => len m' <= len m /\ galloc m' = galloc m
  | Bad _ => False
  end.
Proof.
  induction fuel as [|f IH]; intros nbfl i m Hi Hf; cbn [model_drifts].
  - destruct (i <? nbfl) eqn:C; [apply Z.ltb_lt in C; simpl in Hf; lia|]. split; [lia|reflexivity].
  - destruct (i <? nbfl) eqn:C; [|split; [lia|reflexivity]]. apply Z.ltb_lt in C.
    pose proof (record_word_reads m) as R. destruct (record_word m) as [w m1|b]; cbn [bind reads] in *; [|contradiction].
    destruct R as [L1 G1]. destruct (accept_drift i); [|split; [lia|assumption]].
    specialize (IH nbfl (i + 1) m1 ltac:(lia) ltac:(lia)).
    destruct (model_drifts accept_drift f nbfl (i + 1) m1) as [r m'|b]; [|contradiction]. destruct IH. split; [lia|congruence].
Qed.

Theorem model_fixed : forall m, len m <= flen ->
  rspec (KC * flen + 64 * flen) wf_gmodel m (model_deserialize accept_cov accept_drift E m).
Proof.
  intros m Hm. unfold model_deserialize, rspec. pose proof KC_nonneg as HKn. pose proof cap_KC as HCK.
  assert (Hlm : 0 <= len m) by (unfold len; lia).
  assert (HKF : 0 <= KC * flen) by nia.
  assert (HC16 : 64 * flen <= e_cap E).
  { unfold alloc_bound_model in Hcap. assert (0 <= flen * flen * flen) by nia. assert (0 <= flen * flen) by nia. lia. }
  assert (EARLY : forall m', len m' <= len m -> galloc m <= galloc m' <= galloc m + KC * flen + 64 * flen ->
          len m' <= len m /\ galloc m <= galloc m' <= galloc m + (KC * flen + 64 * flen) /\ True).
  { intros m' A B. split; [lia|split; [lia|exact I]]. }
  pose proof (read_ints_spec 2 2 0 [] m ltac:(lia) ltac:(simpl; lia)) as R1. unfold loop_post in R1.
  destruct (read_ints 2 2 0 [] m) as [o1 m1|b]; cbn [bind]; [|contradiction]. destruct R1 as [L1 [G1 _]].
  destruct o1 as [[|ndim [|nvar [|x l]]]|]; try (apply EARLY; lia).
  pose proof (read_double_reads m1) as R2. destruct (read_double m1) as [ofd m2|b]; cbn [bind reads] in *; [|contradiction].
  destruct R2 as [L2 G2]. destruct ofd; [|apply EARLY; lia].
  pose proof (read_ints_spec 2 2 0 [] m2 ltac:(lia) ltac:(simpl; lia)) as R3. unfold loop_post in R3.
  destruct (read_ints 2 2 0 [] m2) as [o3 m3|b]; cbn [bind]; [|contradiction]. destruct R3 as [L3 [G3 _]].
  destruct o3 as [[|ncova [|nbfl [|x l]]]|]; try (apply EARLY; lia).
  destruct ((ndim <=? 0) || (nvar <=? 0) || negb (count_ok E ndim m3) || negb (count_ok E (nvar * nvar) m3)
            || negb (count_ok E ncova m3) || negb (count_ok E nbfl m3) || negb (count_ok E (ncova * nvar * nvar) m3)) eqn:CG; [apply EARLY; lia|].
  repeat (apply orb_false_iff in CG; destruct CG as [CG ?]).
  apply Z.leb_gt in CG.
  match goal with H : (nvar <=? 0) = false |- _ => apply Z.leb_gt in H end.
  repeat match goal with H : negb (count_ok E ?n m3) = false |- _ => apply negb_false_iff in H; apply count_ok_fixed in H; [|assumption] end.
  assert (HNV : nvar <= nvar * nvar) by nia.
  rewrite alloc_ok by lia. cbn [bind].
  set (m4 := mkM (ms m3) (galloc m3 + (nvar + nvar * nvar) * 8)).
  assert (L4 : len m4 = len m3) by reflexivity. assert (G4 : galloc m4 = galloc m3 + (nvar + nvar * nvar) * 8) by reflexivity.
  pose proof (model_covs_spec (e_fuel E) ndim nvar ncova 0 [] m4 ltac:(lia) ltac:(lia) ltac:(lia) ltac:(lia) ltac:(lia) ltac:(lia) eq_refl) as HCV.
  destruct (model_covs accept_cov E (e_fuel E) ndim nvar ncova 0 [] m4) as [oc m5|b]; cbn [bind]; [|contradiction].
  destruct HCV as [L5 [G5 W5]].
  assert (HNC : 0 <= ncova <= flen) by lia.
  assert (HKN : KC * (ncova - 0) <= KC * flen) by (clear - HKn HNC; nia).
  destruct oc as [types|]; [|apply EARLY; lia].
  pose proof (model_drifts_spec (e_fuel E) nbfl 0 m5 ltac:(lia) ltac:(lia)) as HDR.
  destruct (model_drifts accept_drift (e_fuel E) nbfl 0 m5) as [okd m6|b]; cbn [bind]; [|contradiction]. destruct HDR as [L6 G6].
  destruct okd; cbn [negb]; [|apply EARLY; lia].
  assert (HMN : loop_post m6 nvar 0 (@nil num) (read_doubles (e_fuel E) nvar 0 [] m6)) by (apply read_doubles_spec; lia).
  assert (HMM : match (if nbfl <=? 0 then read_doubles (e_fuel E) nvar 0 [] m6 else Ret (Some []) m6) with
                | Ret o m7 => len m7 <= len m6 /\ galloc m7 = galloc m6 | Bad _ => False end).
  { destruct (nbfl <=? 0); [|split; [lia|reflexivity]]. unfold loop_post in HMN.
    destruct (read_doubles (e_fuel E) nvar 0 [] m6); [|contradiction]. destruct HMN as [A [B _]]. split; assumption. }
  destruct (if nbfl <=? 0 then read_doubles (e_fuel E) nvar 0 [] m6 else Ret (Some []) m6) as [om m7|b]; cbn [bind]; [|contradiction].
  destruct HMM as [L7 G7]. destruct om; [|apply EARLY; lia].
  pose proof (read_doubles_spec (e_fuel E) (ncova * nvar * nvar) 0 [] m7 ltac:(lia) ltac:(lia)) as R8. unfold loop_post in R8.
  destruct (read_doubles (e_fuel E) (ncova * nvar * nvar) 0 [] m7) as [osl m8|b]; cbn [bind]; [|contradiction]. destruct R8 as [L8 [G8 _]].
  destruct osl; [|apply EARLY; lia].
  pose proof (read_doubles_spec (e_fuel E) (nvar * nvar) 0 [] m8 ltac:(lia) ltac:(lia)) as R9. unfold loop_post in R9.
  destruct (read_doubles (e_fuel E) (nvar * nvar) 0 [] m8) as [oc0 m9|b]; cbn [bind]; [|contradiction]. destruct R9 as [L9 [G9 _]].
  destruct oc0; [|apply EARLY; lia].
  assert (FIN : rspec (KC * flen + 64 * flen) wf_gmodel m (Ret (Some (mkGM ndim nvar ncova nbfl types)) m9)).
  { unfold rspec. split; [lia|split; [lia|]]. unfold wf_gmodel. cbn [gm_ndim gm_nvar gm_types gm_ncova]. split; [lia|split; [lia|assumption]]. }
  destruct (0 <? nbfl); [|exact FIN].
  apply (opt_tail_spec gmodel (tail_doubles (e_fuel E) nvar) _ wf_gmodel m _); [|exact FIN].
  intros m'. apply tail_doubles_reads. lia.
Qed.
End Fixed.

(* C09 proofs, part 3: PolyLine2D, PolyElem, Polygons, Faults as the code is now (fixes C09_1, C09_2 applied).
   Allocation is bounded by an amortised argument: potential = ghost counter + 16 * (bytes not yet consumed). *)
From Coq Require Import List ZArith QArith Bool Lia Arith.
From Gst Require Import C09.Model C09.Readers C09.Spec C09.Proofs_prim.
Import ListNotations.
Local Open Scope Z_scope.

Definition pspec {A} (wf : A -> Prop) (extra : Z) (m : mon) (r : res (option A)) : Prop :=
  match r with
  | Ret o m' => len m' <= len m /\ galloc m <= galloc m' /\
                match o with
                | Some a => wf a /\ galloc m' + 16 * len m' <= galloc m + 16 * len m + extra
                | None => galloc m' <= galloc m + 16 * len m + extra
                end
  | Bad _ => False
  end.

Section Fixed.
Variable E : env.
Variable flen : Z.
Hypothesis Hcfg : cfg_ge_now (e_cfg E).
Hypothesis Hflen : 0 <= flen.
Hypothesis Hfuel : flen < Z.of_nat (e_fuel E).
Hypothesis Hcap : alloc_bound flen <= e_cap E.

Lemma HFS : fix_store (e_cfg E) = true. Proof. destruct Hcfg as [H1 [H2 [H3 H4]]]; assumption. Qed.
Lemma HFC : fix_counts (e_cfg E) = true. Proof. destruct Hcfg as [H1 [H2 [H3 H4]]]; assumption. Qed.
Lemma cap_pos : 4096 <= e_cap E. Proof. unfold alloc_bound in Hcap. lia. Qed.

Lemma pl_loop_spec : forall fuel np i accx accy m,
  0 <= i <= np -> np - i < Z.of_nat fuel ->
  match pl_loop E fuel np i accx accy m with
  | Ret o m' => len m' <= len m /\ galloc m' = galloc m /\
                match o with
                | Some pl => len m' + (np - i) <= len m /\
                             zlen (pl_x pl) = zlen accx + (np - i) /\ zlen (pl_y pl) = zlen accy + (np - i)
                | None => True
                end
  | Bad _ => False
  end.
Proof.
  induction fuel as [|f IH]; intros np i accx accy m Hi Hf; simpl.
  - destruct (i <? np) eqn:C; [apply Z.ltb_lt in C; simpl in Hf; lia|]. apply Z.ltb_ge in C.
    split; [lia|split; [reflexivity|]]. cbn [pl_x pl_y]. unfold zlen. rewrite !frev_length. lia.
  - destruct (i <? np) eqn:C.
    + apply Z.ltb_lt in C. unfold read_vec. pose proof cap_pos as HCP.
      rewrite alloc_ok by lia. cbn [bind].
      set (m1 := mkM (ms m) (galloc m + 2 * 0)).
      pose proof (read_vec_raw_fixed E 42 2 0 2 m1 HFS) as HV.
      destruct (read_vec_raw E 42 2 0 2 m1) as [ow m2|b]; cbn [bind vec_post] in *; [|apply HV; lia].
      destruct HV as [V1 [V2 V3]]; [lia|lia|].
      assert (L1 : len m1 = len m) by reflexivity. assert (G1 : galloc m1 = galloc m) by (unfold m1; simpl; lia).
      destruct ow as [ws|]; [|split; [lia|split; [lia|exact I]]].
      destruct V3 as [V3 V4]. specialize (V4 ltac:(lia)).
      destruct ws as [|a [|b [|c r]]]; try (split; [lia|split; [lia|exact I]]).
      specialize (IH np (i + 1) (value_double a :: accx) (value_double b :: accy) m2).
      destruct (pl_loop E f np (i + 1) (value_double a :: accx) (value_double b :: accy) m2) as [o m'|bb].
      * destruct IH as [I1 [I2 I3]]; [lia|lia|]. split; [lia|split; [lia|]].
        destruct o as [pl|]; [|exact I]. destruct I3 as [J1 [J2 J3]]. unfold zlen in *. simpl length in *. lia.
      * apply IH; lia.
    + apply Z.ltb_ge in C. split; [lia|split; [reflexivity|]]. cbn [pl_x pl_y]. unfold zlen. rewrite !frev_length. lia.
Qed.

Lemma polyline_spec : forall m, len m <= flen -> pspec wf_polyline 16 m (polyline_deserialize E m).
Proof.
  intros m Hm. unfold polyline_deserialize, pspec. pose proof cap_pos as HCP. unfold alloc_bound in Hcap.
  assert (Hlm : 0 <= len m) by (unfold len; lia).
  rewrite alloc_ok by lia. cbn [bind].
  set (m0 := mkM (ms m) (galloc m + 2 * 8)).
  assert (L0 : len m0 = len m) by reflexivity. assert (G0 : galloc m0 = galloc m + 16) by (unfold m0; simpl; lia).
  pose proof (read_int_reads m0) as R1. destruct (read_int m0) as [onp m1|b]; cbn [bind reads] in *; [|contradiction].
  destruct R1 as [L1 G1].
  destruct (opt_default 0 onp <? 0) eqn:CN; [split; [lia|split; [lia|lia]]|]. apply Z.ltb_ge in CN.
  destruct (count_ok E (opt_default 0 onp) m1) eqn:CK; cbn [negb]; [|split; [lia|split; [lia|lia]]].
  apply count_ok_fixed in CK; [|exact HFC]. set (np := opt_default 0 onp) in *.
  rewrite alloc_ok by lia. cbn [bind]. rewrite alloc_ok by (simpl; lia). cbn [bind].
  set (m3 := mkM _ _).
  assert (L3 : len m3 = len m1) by reflexivity.
  assert (G3 : galloc m3 = galloc m1 + np * 8 + np * 8) by reflexivity.
  destruct onp as [np0|]; [|split; [lia|split; [lia|lia]]].
  pose proof (pl_loop_spec (e_fuel E) np 0 [] [] m3) as HL.
  destruct (pl_loop E (e_fuel E) np 0 [] [] m3) as [o m'|b]; [|apply HL; lia].
  destruct HL as [H1 [H2 H3]]; [lia|lia|]. split; [lia|split; [lia|]].
  destruct o as [pl|]; [|lia]. destruct H3 as [J1 [J2 J3]]. split; [|lia].
  unfold wf_polyline. unfold zlen in *. simpl in J2, J3. lia.
Qed.

Lemma polyelem_spec : forall m, len m <= flen -> pspec wf_polyelem 16 m (polyelem_deserialize E m).
Proof.
  intros m Hm. unfold polyelem_deserialize, pspec. assert (Hlm : 0 <= len m) by (unfold len; lia).
  pose proof (read_double_reads m) as R1. destruct (read_double m) as [oz m1|b]; cbn [bind reads] in *; [|contradiction].
  destruct R1 as [L1 G1]. destruct oz as [zmin|]; [|split; [lia|split; [lia|lia]]].
  pose proof (read_double_reads m1) as R2. destruct (read_double m1) as [oz m2|b]; cbn [bind reads] in *; [|contradiction].
  destruct R2 as [L2 G2]. destruct oz as [zmax|]; [|split; [lia|split; [lia|lia]]].
  pose proof (polyline_spec m2 ltac:(lia)) as HP. unfold pspec in HP.
  destruct (polyline_deserialize E m2) as [opl m3|b]; cbn [bind]; [|contradiction].
  destruct HP as [P1 [P2 P3]]. destruct opl as [pl|]; (split; [lia|split; [lia|]]); [|lia].
  destruct P3 as [P3 P4]. split; [exact P3|lia].
Qed.

Lemma polygons_loop_spec : forall fuel npol i acc m,
  len m <= flen -> 0 <= i <= npol -> npol - i < Z.of_nat fuel -> wf_polygons acc ->
  match polygons_loop E fuel npol i acc m with
  | Ret o m' => len m' <= len m /\ galloc m <= galloc m' <= galloc m + 16 * len m + 16 * (npol - i) /\
                match o with Some l => wf_polygons l | None => True end
  | Bad _ => False
  end.
Proof.
  induction fuel as [|f IH]; intros npol i acc m Hm Hi Hf Hw; cbn [polygons_loop].
  - destruct (i <? npol) eqn:C; [apply Z.ltb_lt in C; simpl in Hf; lia|]. apply Z.ltb_ge in C.
    assert (0 <= len m) by (unfold len; lia).
    split; [lia|split; [lia|]]. unfold wf_polygons in *. rewrite frev_rev. apply Forall_rev. exact Hw.
  - assert (0 <= len m) by (unfold len; lia).
    destruct (i <? npol) eqn:C.
    + apply Z.ltb_lt in C. pose proof (polyelem_spec m Hm) as HP. unfold pspec in HP.
      destruct (polyelem_deserialize E m) as [ope m1|b]; cbn [bind]; [|contradiction].
      destruct HP as [P1 [P2 P3]]. assert (0 <= len m1) by (unfold len; lia).
      destruct ope as [pe|]; cbv beta iota in P3; [|split; [lia|split; [lia|exact I]]].
      destruct P3 as [P3 P4].
      set (acc' := if 3 <=? zlen (pl_x (pe_line pe)) then pe :: acc else acc).
      assert (Hw' : wf_polygons acc').
      { unfold acc'. destruct (3 <=? zlen (pl_x (pe_line pe))) eqn:C3; [|exact Hw].
        apply Z.leb_le in C3. constructor; [split; assumption|exact Hw]. }
      specialize (IH npol (i + 1) acc' m1 ltac:(lia) ltac:(lia) ltac:(lia) Hw').
      destruct (polygons_loop E f npol (i + 1) acc' m1) as [o m'|b]; [|contradiction].
      destruct IH as [I1 [I2 I3]]. split; [lia|split; [lia|exact I3]].
    + apply Z.ltb_ge in C. split; [lia|split; [lia|]]. unfold wf_polygons in *. rewrite frev_rev. apply Forall_rev. exact Hw.
Qed.

Theorem polygons_fixed : forall m, len m <= flen -> rspec (32 * flen) wf_polygons m (polygons_deserialize E m).
Proof.
  intros m Hm. unfold polygons_deserialize, rspec.
  pose proof (read_int_reads m) as R1. destruct (read_int m) as [on m1|b]; cbn [bind reads] in *; [|contradiction].
  destruct R1 as [L1 G1]. assert (0 <= len m1) by (unfold len; lia).
  destruct on as [npol|]; [|split; [lia|split; [lia|exact I]]].
  destruct (count_ok E npol m1) eqn:CK; cbn [negb]; [|split; [lia|split; [lia|exact I]]].
  apply count_ok_fixed in CK; [|exact HFC].
  pose proof (polygons_loop_spec (e_fuel E) npol 0 [] m1 ltac:(lia) ltac:(lia) ltac:(lia) (Forall_nil _)) as HL.
  destruct (polygons_loop E (e_fuel E) npol 0 [] m1) as [o m'|b]; [|contradiction].
  destruct HL as [H1 [H2 H3]]. split; [lia|split; [lia|exact H3]].
Qed.

Lemma faults_loop_spec : forall fuel n i acc m,
  len m <= flen -> 0 <= i <= n -> n - i < Z.of_nat fuel -> wf_faults acc ->
  match faults_loop E fuel n i acc m with
  | Ret o m' => len m' <= len m /\ galloc m <= galloc m' <= galloc m + 16 * len m + 16 * (n - i) /\
                match o with Some l => wf_faults l | None => True end
  | Bad _ => False
  end.
Proof.
  induction fuel as [|f IH]; intros n i acc m Hm Hi Hf Hw; cbn [faults_loop].
  - destruct (i <? n) eqn:C; [apply Z.ltb_lt in C; simpl in Hf; lia|]. apply Z.ltb_ge in C.
    assert (0 <= len m) by (unfold len; lia).
    split; [lia|split; [lia|]]. unfold wf_faults in *. rewrite frev_rev. apply Forall_rev. exact Hw.
  - assert (0 <= len m) by (unfold len; lia).
    destruct (i <? n) eqn:C.
    + apply Z.ltb_lt in C. pose proof (polyline_spec m Hm) as HP. unfold pspec in HP.
      destruct (polyline_deserialize E m) as [opl m1|b]; cbn [bind]; [|contradiction].
      destruct HP as [P1 [P2 P3]]. assert (0 <= len m1) by (unfold len; lia).
      destruct opl as [pl|]; cbv beta iota in P3; [|split; [lia|split; [lia|exact I]]].
      destruct P3 as [P3 P4].
      assert (Hw' : wf_faults (pl :: acc)) by (constructor; assumption).
      specialize (IH n (i + 1) (pl :: acc) m1 ltac:(lia) ltac:(lia) ltac:(lia) Hw').
      destruct (faults_loop E f n (i + 1) (pl :: acc) m1) as [o m'|b]; [|contradiction].
      destruct IH as [I1 [I2 I3]]. split; [lia|split; [lia|exact I3]].
    + apply Z.ltb_ge in C. split; [lia|split; [lia|]]. unfold wf_faults in *. rewrite frev_rev. apply Forall_rev. exact Hw.
Qed.

Theorem faults_fixed : forall m, len m <= flen -> rspec (32 * flen) wf_faults m (faults_deserialize E m).
Proof.
  intros m Hm. unfold faults_deserialize, rspec.
  pose proof (read_int_reads m) as R1. destruct (read_int m) as [on m1|b]; cbn [bind reads] in *; [|contradiction].
  destruct R1 as [L1 G1]. assert (0 <= len m1) by (unfold len; lia).
  destruct on as [n|]; [|split; [lia|split; [lia|exact I]]].
  destruct (count_ok E n m1) eqn:CK; cbn [negb]; [|split; [lia|split; [lia|exact I]]].
  apply count_ok_fixed in CK; [|exact HFC].
  pose proof (faults_loop_spec (e_fuel E) n 0 [] m1 ltac:(lia) ltac:(lia) ltac:(lia) (Forall_nil _)) as HL.
  destruct (faults_loop E (e_fuel E) n 0 [] m1) as [o m'|b]; [|contradiction].
  destruct HL as [H1 [H2 H3]]. split; [lia|split; [lia|exact H3]].
Qed.

Theorem polyline_fixed : forall m, len m <= flen -> rspec (16 * flen + 16) wf_polyline m (polyline_deserialize E m).
Proof.
  intros m Hm. pose proof (polyline_spec m Hm) as H. unfold pspec, rspec in *.
  destruct (polyline_deserialize E m) as [o m'|b]; [|contradiction]. destruct H as [H1 [H2 H3]].
  assert (0 <= len m') by (unfold len; lia).
  split; [lia|]. destruct o as [a|]; [destruct H3 as [H3 H4]; split; [lia|exact H3]|split; [lia|exact I]].
Qed.
Theorem polyelem_fixed : forall m, len m <= flen -> rspec (16 * flen + 16) wf_polyelem m (polyelem_deserialize E m).
Proof.
  intros m Hm. pose proof (polyelem_spec m Hm) as H. unfold pspec, rspec in *.
  destruct (polyelem_deserialize E m) as [o m'|b]; [|contradiction]. destruct H as [H1 [H2 H3]].
  assert (0 <= len m') by (unfold len; lia).
  split; [lia|]. destruct o as [a|]; [destruct H3 as [H3 H4]; split; [lia|exact H3]|split; [lia|exact I]].
Qed.
End Fixed.

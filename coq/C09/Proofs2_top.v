(* C09 proofs, second wave, part 6: X::createFromNF for Rule, AnamHermite, the Neigh family, Vario, Model. *)
From Coq Require Import List ZArith QArith Bool Lia Arith.
From Gst Require Import C09.Model C09.Readers C09.Readers2 C09.Spec C09.Proofs_prim C09.Proofs_top
                        C09.Proofs2_loops C09.Proofs2_rule C09.Proofs2_neigh C09.Proofs2_vario C09.Proofs2_model.
Import ListNotations.
Local Open Scope Z_scope.

(* the code as it is now: fixes/C09_1 .. C09_5 (cfg) and C09_11 .. C09_14 (e_prop = p_all) are all in /repo *)
Definition full_env (E : env) (f : list Z) (bound : Z) : Prop :=
  now_env E f bound /\ e_flen E = flen f /\ e_prop E = p_all.

Section Loaders.
Variable E : env.
Variable f : list Z.
Hypothesis Hlen : flen f < 2147483648.

Lemma fl0 : 0 <= flen f. Proof. unfold flen. lia. Qed.

Theorem load_AnamHermite_now : now_env E f (alloc_bound (flen f)) -> good_outcome wf_anamh (alloc_bound (flen f)) (load_AnamHermite E f).
Proof.
  intros [H1 [H2 H3]]. pose proof fl0.
  eapply good_outcome_weaken; [|apply create_spec with (cost := 16 * flen f); [lia|]].
  - unfold alloc_bound. lia.
  - intros m Hm. apply (anamh_fixed E (flen f)); try assumption; try (unfold flen in *; lia); try (rewrite H5; reflexivity).
Qed.
Theorem load_Rule_full : full_env E f (alloc_bound (flen f)) -> good_outcome wf_rule (alloc_bound (flen f)) (load_Rule E f).
Proof.
  intros [[H1 [H2 H3]] [H4 H5]]. pose proof fl0.
  eapply good_outcome_weaken; [|apply create_spec with (cost := 40 * flen f); [lia|]].
  - unfold alloc_bound. lia.
  - intros m Hm. apply (rule_fixed E (flen f)); try assumption; try (unfold flen in *; lia); try (rewrite H5; reflexivity).
Qed.
Theorem load_NeighUnique_full : full_env E f (alloc_bound (flen f)) -> good_outcome (fun nd => 0 < nd) (alloc_bound (flen f)) (load_NeighUnique E f).
Proof.
  intros [[H1 [H2 H3]] [H4 H5]]. pose proof fl0.
  eapply good_outcome_weaken; [|apply create_spec with (cost := 24 * flen f); [lia|]].
  - unfold alloc_bound. lia.
  - intros m Hm. apply (neighunique_fixed E (flen f)); try assumption; try (unfold flen in *; lia); try (rewrite H5; reflexivity).
Qed.
Theorem load_NeighBench_full : full_env E f (alloc_bound (flen f)) -> good_outcome (fun p => 0 < fst p) (alloc_bound (flen f)) (load_NeighBench E f).
Proof.
  intros [[H1 [H2 H3]] [H4 H5]]. pose proof fl0.
  eapply good_outcome_weaken; [|apply create_spec with (cost := 24 * flen f); [lia|]].
  - unfold alloc_bound. lia.
  - intros m Hm. apply (neighbench_fixed E (flen f)); try assumption; try (unfold flen in *; lia); try (rewrite H5; reflexivity).
Qed.
Theorem load_NeighCell_full : full_env E f (alloc_bound (flen f)) -> good_outcome (fun p => 0 < fst p) (alloc_bound (flen f)) (load_NeighCell E f).
Proof.
  intros [[H1 [H2 H3]] [H4 H5]]. pose proof fl0.
  eapply good_outcome_weaken; [|apply create_spec with (cost := 24 * flen f); [lia|]].
  - unfold alloc_bound. lia.
  - intros m Hm. apply (neighcell_fixed E (flen f)); try assumption; try (unfold flen in *; lia); try (rewrite H5; reflexivity).
Qed.
Theorem load_NeighImage_full : full_env E f (alloc_bound (flen f)) ->
  good_outcome (fun p => 0 < fst (fst p) /\ zlen (snd p) = fst (fst p)) (alloc_bound (flen f)) (load_NeighImage E f).
Proof.
  intros [[H1 [H2 H3]] [H4 H5]]. pose proof fl0.
  eapply good_outcome_weaken; [|apply create_spec with (cost := 28 * flen f); [lia|]].
  - unfold alloc_bound. lia.
  - intros m Hm. apply (neighimage_fixed E (flen f)); try assumption; try (unfold flen in *; lia); try (rewrite H5; reflexivity).
Qed.
Theorem load_NeighMoving_full : full_env E f (alloc_bound_grid (flen f)) -> good_outcome wf_neighmoving (alloc_bound_grid (flen f)) (load_NeighMoving E f).
Proof.
  intros [[H1 [H2 H3]] [H4 H5]]. pose proof fl0.
  eapply good_outcome_weaken; [|apply create_spec with (cost := 16 * flen f * flen f + 64 * flen f); [nia|]].
  - unfold alloc_bound_grid. nia.
  - intros m Hm. apply (neighmoving_fixed E (flen f)); try assumption; try (unfold flen in *; lia); try (rewrite H5; reflexivity).
Qed.
Theorem load_Vario_full : full_env E f (alloc_bound_vario (flen f)) -> good_outcome wf_vario (alloc_bound_vario (flen f)) (load_Vario E f).
Proof.
  intros [[H1 [H2 H3]] [H4 H5]]. pose proof fl0.
  eapply good_outcome_weaken; [|apply create_spec with (cost := 64 * flen f * flen f + 256 * flen f); [nia|]].
  - unfold alloc_bound_vario. nia.
  - intros m Hm. apply (vario_fixed E (flen f)); try assumption; try (unfold flen in *; lia); try (rewrite H5; reflexivity).
Qed.
(* whatever the constructors of covariances and drifts answer *)
Theorem load_Model_full : forall acov adrift, full_env E f (alloc_bound_model (flen f)) ->
  good_outcome wf_gmodel (alloc_bound_model (flen f)) (load_Model acov adrift E f).
Proof.
  intros acov adrift [[H1 [H2 H3]] [H4 H5]]. pose proof fl0.
  eapply good_outcome_weaken; [|apply create_spec with (cost := KC (flen f) * flen f + 64 * flen f); [unfold KC; nia|]].
  - unfold alloc_bound_model, KC. nia.
  - intros m Hm. apply (model_fixed E (flen f)); try assumption; try (unfold flen in *; lia); try (rewrite H5; reflexivity).
Qed.
End Loaders.

(* uniform statements (the hypothesis on the file length is kept even where a proof does not use it) *)
Ltac use2 L := intros E f Hl H; first [exact (L E f Hl H) | exact (L E f H)].
Lemma P_anamh : forall E f, flen f < 2147483648 -> now_env E f (alloc_bound (flen f)) -> good_outcome wf_anamh (alloc_bound (flen f)) (load_AnamHermite E f).
Proof. use2 load_AnamHermite_now. Qed.
Lemma P_rule : forall E f, flen f < 2147483648 -> full_env E f (alloc_bound (flen f)) -> good_outcome wf_rule (alloc_bound (flen f)) (load_Rule E f).
Proof. use2 load_Rule_full. Qed.
Lemma P_neighm : forall E f, flen f < 2147483648 -> full_env E f (alloc_bound_grid (flen f)) -> good_outcome wf_neighmoving (alloc_bound_grid (flen f)) (load_NeighMoving E f).
Proof. use2 load_NeighMoving_full. Qed.
Lemma P_neighs : forall E f, flen f < 2147483648 -> full_env E f (alloc_bound (flen f)) ->
  good_outcome (fun nd => 0 < nd) (alloc_bound (flen f)) (load_NeighUnique E f) /\
  good_outcome (fun p => 0 < fst p) (alloc_bound (flen f)) (load_NeighBench E f) /\
  good_outcome (fun p => 0 < fst p) (alloc_bound (flen f)) (load_NeighCell E f).
Proof.
  intros E f Hl H. split; [|split].
  - first [exact (load_NeighUnique_full E f Hl H) | exact (load_NeighUnique_full E f H)].
  - first [exact (load_NeighBench_full E f Hl H) | exact (load_NeighBench_full E f H)].
  - first [exact (load_NeighCell_full E f Hl H) | exact (load_NeighCell_full E f H)].
Qed.
Lemma P_vario : forall E f, flen f < 2147483648 -> full_env E f (alloc_bound_vario (flen f)) -> good_outcome wf_vario (alloc_bound_vario (flen f)) (load_Vario E f).
Proof. use2 load_Vario_full. Qed.
Lemma P_model : forall E f, flen f < 2147483648 -> forall acov adrift, full_env E f (alloc_bound_model (flen f)) ->
  good_outcome wf_gmodel (alloc_bound_model (flen f)) (load_Model acov adrift E f).
Proof. intros E f Hl acov adrift H. first [exact (load_Model_full E f Hl acov adrift H) | exact (load_Model_full E f acov adrift H)]. Qed.

(* C09 proofs, part 6: DbGrid::_deserialize (the flags of cfg select the fixes; all on = the code as it is now). *)
From Coq Require Import List ZArith QArith Bool Lia Arith.
From Gst Require Import C09.Model C09.Readers C09.Spec C09.Proofs_prim C09.Proofs_loc C09.Proofs_db.
Import ListNotations.
Local Open Scope Z_scope.

(* Grid::getNTotal, computed with int multiplications, is the exact product modulo 2^32 *)
Lemma wrap32_congr : forall a v, wrap32 (wrap32 a * v) = wrap32 (a * v).
Proof.
  intros a v. unfold wrap32 at 1 3. f_equal.
  assert (H : wrap32 a = a + (- ((a + 2147483648) / 4294967296)) * 4294967296).
  { unfold wrap32. rewrite Z.mod_eq by lia. ring. }
  rewrite H.
  replace ((a + - ((a + 2147483648) / 4294967296) * 4294967296) * v + 2147483648)
    with ((a * v + 2147483648) + (- ((a + 2147483648) / 4294967296) * v) * 4294967296) by ring.
  apply Z_mod_plus_full.
Qed.
Lemma fold_wrap32 : forall nx a, fold_left (fun a v => wrap32 (a * v)) nx (wrap32 a) = wrap32 (a * prodZ nx).
Proof.
  induction nx as [|v nx IH]; intros a; simpl.
  - f_equal. ring.
  - rewrite wrap32_congr. rewrite IH. f_equal. ring.
Qed.
Lemma ntotal32_wrap : forall ndim nx, ntotal32 ndim nx = wrap32 (ntotal_exact ndim nx).
Proof.
  intros. unfold ntotal32, ntotal_exact. destruct (ndim <=? 0); [reflexivity|].
  change 1 with (wrap32 1) at 1. rewrite fold_wrap32. f_equal. ring.
Qed.

Lemma existsb_false_Forall : forall A (f : A -> bool) l, existsb f l = false -> Forall (fun x => f x = false) l.
Proof.
  induction l as [|x l IH]; intros H; simpl in H; [constructor|].
  apply orb_false_iff in H. destruct H. constructor; auto.
Qed.

Section Fixed.
Variable E : env.
Variable flen : Z.
Hypothesis Hcfg : cfg_ge_now (e_cfg E).
Hypothesis Hflen : 0 <= flen < 2147483648.
Hypothesis Hfuel : flen < Z.of_nat (e_fuel E).
Hypothesis Hcap : alloc_bound_grid flen <= e_cap E.

Lemma Hcap1 : alloc_bound flen <= e_cap E.
Proof. unfold alloc_bound, alloc_bound_grid in *. nia. Qed.

Lemma grid_header_spec : forall fuel ndim idim acc m,
  0 <= idim <= ndim -> ndim - idim < Z.of_nat fuel ->
  match grid_header fuel ndim idim acc m with
  | Ret (ret, rows) m' => len m' <= len m /\ galloc m' = galloc m /\
                          (ret = true -> zlen rows = zlen acc + (ndim - idim))
  | Bad _ => False
  end.
Proof.
  induction fuel as [|f IH]; intros ndim idim acc m Hi Hf; cbn [grid_header].
  - destruct (idim <? ndim) eqn:C; [apply Z.ltb_lt in C; simpl in Hf; lia|]. apply Z.ltb_ge in C.
    split; [lia|split; [reflexivity|]]. intros _. unfold zlen. rewrite frev_length. lia.
  - destruct (idim <? ndim) eqn:C.
    + apply Z.ltb_lt in C.
      pose proof (read_int_reads m) as R1. destruct (read_int m) as [o1 m1|b]; cbn [bind reads] in *; [|contradiction].
      destruct R1 as [L1 G1]. destruct o1 as [nx|]; [|split; [lia|split; [assumption|discriminate]]].
      pose proof (read_double_reads m1) as R2. destruct (read_double m1) as [o2 m2|b]; cbn [bind reads] in *; [|contradiction].
      destruct R2 as [L2 G2]. destruct o2 as [x0|]; [|split; [lia|split; [congruence|discriminate]]].
      pose proof (read_double_reads m2) as R3. destruct (read_double m2) as [o3 m3|b]; cbn [bind reads] in *; [|contradiction].
      destruct R3 as [L3 G3]. destruct o3 as [dx|]; [|split; [lia|split; [congruence|discriminate]]].
      pose proof (read_double_reads m3) as R4. destruct (read_double m3) as [o4 m4|b]; cbn [bind reads] in *; [|contradiction].
      destruct R4 as [L4 G4]. destruct o4 as [an|]; [|split; [lia|split; [congruence|discriminate]]].
      specialize (IH ndim (idim + 1) ((nx, x0, dx, an) :: acc) m4 ltac:(lia) ltac:(lia)).
      destruct (grid_header f ndim (idim + 1) ((nx, x0, dx, an) :: acc) m4) as [[ret rows] m'|b]; [|contradiction].
      destruct IH as [I1 [I2 I3]]. split; [lia|split; [congruence|]]. intros HR. specialize (I3 HR).
      unfold zlen in *. simpl length in I3. lia.
    + apply Z.ltb_ge in C. split; [lia|split; [reflexivity|]]. intros _. unfold zlen. rewrite frev_length. lia.
Qed.

Definition gspec (m : mon) (r : res (option dbgrid)) : Prop :=
  match r with
  | Ret o m' => len m' <= len m /\ galloc m <= galloc m' /\
                (fix_rank (e_cfg E) = true -> galloc m' <= galloc m + (16 * flen * flen + 300 * flen)) /\
                match o with Some x => fix_rank (e_cfg E) = true -> wf_dbgrid x | None => True end
  | Bad b => is_throw16 b = true /\ fix_rank (e_cfg E) = false
  end.
Ltac earlyg := split; [lia|split; [nia|split; [intros _; nia|exact I]]].

Theorem dbgrid_spec : forall m, len m <= flen -> gspec m (dbgrid_deserialize E m).
Proof.
  intros m Hm. unfold dbgrid_deserialize, gspec. pose proof Hcap1 as HC1. unfold alloc_bound, alloc_bound_grid in *.
  assert (Hlm : 0 <= len m) by (unfold len; lia).
  assert (HFC : fix_counts (e_cfg E) = true) by (destruct Hcfg as [H1' [H2' [H3' H4']]]; assumption).
  assert (HFG : fix_grid (e_cfg E) = true) by (destruct Hcfg as [H1' [H2' [H3' H4']]]; assumption).
  pose proof (read_int_reads m) as R1. destruct (read_int m) as [ondim m1|b]; cbn [bind reads] in *; [|contradiction].
  destruct R1 as [L1 G1].
  destruct (count_ok E (opt_default 0 ondim) m1) eqn:CK; cbn [negb]; [|earlyg].
  apply count_ok_fixed in CK; [|assumption]. set (ndim := opt_default 0 ondim) in *.
  rewrite alloc_ok by lia. cbn [bind].
  set (m2 := mkM (ms m1) (galloc m1 + ndim * 28)).
  assert (L2 : len m2 = len m1) by reflexivity. assert (G2 : galloc m2 = galloc m1 + ndim * 28) by reflexivity.
  assert (HH : match (match ondim with Some _ => grid_header (e_fuel E) ndim 0 [] m2 | None => Ret (false, []) m2 end) with
               | Ret (ret, rows) m3 => len m3 <= len m2 /\ galloc m3 = galloc m2 /\ (ret = true -> zlen rows = ndim)
               | Bad _ => False end).
  { destruct ondim; [|split; [lia|split; [reflexivity|discriminate]]].
    pose proof (grid_header_spec (e_fuel E) ndim 0 [] m2 ltac:(lia) ltac:(lia)) as HG.
    destruct (grid_header (e_fuel E) ndim 0 [] m2) as [[ret rows] m3|b]; [|contradiction].
    destruct HG as [H1 [H2 H3]]. split; [assumption|split; [assumption|]]. intros HR. specialize (H3 HR). unfold zlen in *; simpl in H3. lia. }
  destruct (match ondim with Some _ => grid_header (e_fuel E) ndim 0 [] m2 | None => Ret (false, []) m2 end) as [[ret rows] m3|b];
    cbn [bind]; [|contradiction].
  destruct HH as [L3 [G3 W3]].
  rewrite HFG. destruct ret; cbn [negb andb]; [|earlyg].
  rewrite alloc_ok by nia. cbn [bind]. rewrite alloc_ok by (simpl; nia). cbn [bind].
  set (m5 := mkM _ _).
  assert (L5 : len m5 = len m3) by reflexivity.
  assert (G5 : galloc m5 = galloc m3 + ndim * ndim * 8 + ndim * ndim * 8) by reflexivity.
  specialize (W3 eq_refl).
  set (nx := map (fun r => fst (fst (fst r))) rows).
  set (g := grid_define ndim nx (map (fun r => snd (fst (fst r))) rows) (map (fun r => snd (fst r)) rows) (map snd rows)).
  cbn [andb].
  destruct (existsb (fun v => v <? 0) nx || existsb num_neg (g_dx g)) eqn:CN; [earlyg|].
  apply orb_false_iff in CN. destruct CN as [CN1 CN2].
  assert (Hg : g = mkGrid ndim nx (map (fun r => snd (fst (fst r))) rows) (map (fun r => snd (fst r)) rows)
                      (if ndim =? 2 then [nth 0 (map snd rows) zero; zero] else map snd rows)).
  { unfold g in *. unfold grid_define in *. rewrite CN1 in *. 
    destruct (existsb num_neg (map (fun r => snd (fst r)) rows)) eqn:CD; [simpl in CN2; congruence|reflexivity]. }
  pose proof (db_spec E flen Hcfg Hflen Hfuel HC1 (Some (ntotal32 ndim nx, ntotal_exact ndim nx)) m5 (ntotal32_wrap ndim nx) ltac:(lia)) as HD.
  unfold dspec in HD.
  destruct (db_deserialize E (Some (ntotal32 ndim nx, ntotal_exact ndim nx)) m5) as [odb m6|b]; cbn [bind]; [|exact HD].
  destruct HD as [D1 [D2 [D3 D4]]].
  destruct odb as [d|]; [|split; [lia|split; [nia|split; [intros HR; specialize (D3 HR); nia|exact I]]]].
  split; [lia|split; [nia|split; [intros HR; specialize (D3 HR); nia|]]].
  intros HR. specialize (D4 HR). destruct D4 as [D4 D5]. unfold wf_dbgrid. cbn [dg_grid dg_db]. split; [|split; [assumption|]].
  - rewrite Hg. unfold wf_grid. cbn [g_ndim g_nx g_x0 g_dx g_angles]. unfold zlen in *. unfold nx. rewrite !map_length.
    split; [lia|split; [assumption|split; [assumption|split; [assumption|split]]]].
    + destruct (ndim =? 2) eqn:C2; [apply Z.eqb_eq in C2; simpl; lia|rewrite map_length; assumption].
    + apply existsb_false_Forall in CN1. eapply Forall_impl; [|exact CN1]. simpl. intros a Ha. apply Z.ltb_ge in Ha. assumption.
  - rewrite D5. unfold grid_ntotal. rewrite Hg. reflexivity.
Qed.
End Fixed.

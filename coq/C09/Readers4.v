(* C09 model, layer 4: the readers guarded by the proposed fixes/C09_19 .. C09_22 (same _isCountInFile pattern as the others).
     AnamDiscrete::_deserialize, AnamDiscreteDD / AnamDiscreteIR::_deserialize    /repo/src/Anamorphosis/AnamDiscrete*.cpp
     AnamEmpirical::_deserialize                                                  /repo/src/Anamorphosis/AnamEmpirical.cpp
     DbLine::_deserialize + DbLine::isConsistent                                  /repo/src/Db/DbLine.cpp
   These are the models of the readers WITH their guards (the unguarded readers have no model: the generic rules of the check
   report them); the check uses them as soon as the implementation shows the guards (probe files), and not before.
     MeshETurbo::_deserialize (the grid and the two indirections as counts)    /repo/src/Mesh/MeshETurbo.cpp
   Sites: 62 AnamDiscrete, 64 AnamDiscreteDD, 65 AnamEmpirical, 63 DbLine, 74 MeshETurbo.  Proofs: Proofs4.v. *)
From Coq Require Import List ZArith QArith Bool.
From Gst Require Import C09.Model C09.Readers C09.Readers2 C09.Spec.
Import ListNotations.
Local Open Scope Z_scope.

(* ASerializable::_tableRead(is, title, ntab, tab): VectorDouble loctab(ntab), then _recordReadVec (its resize is a no-op) *)
Definition table_read (E : env) (site ntab : Z) (m : mon) : res (option (list num)) :=
  do _, m1 <- alloc E site ntab 8 m;
  do ows, m2 <- read_vec E site 0 ntab m1;
  match ows with None => Ret None m2 | Some ws => Ret (Some (map value_double ws)) m2 end.

(* ------------------------------------------------------------------ AnamDiscrete *)
Record anamd := mkAnamD { ad_ncut : Z; ad_nelem : Z; ad_zcut : list num; ad_stats : list num }.
Definition anamd_deserialize (E : env) (m : mon) : res (option anamd) :=
  do o1, m1 <- read_int m;
  match o1 with None => Ret None m1 | Some ncut =>
  do o2, m2 <- read_int m1;
  match o2 with None => Ret None m2 | Some nclass =>
  do o3, m3 <- read_int m2;
  match o3 with None => Ret None m3 | Some nelem =>
  (* fixes/C09_19; 6 = ANAM_KD_NELEM, the columns of the statistics used by the classes *)
  if (ncut <? 0) || (nelem <? 6) || negb (nclass =? ncut + 1) || negb (count_ok E ncut m3) || negb (count_ok E (nclass * nelem) m3)
  then Ret None m3 else
  do _, m4 <- alloc E 62 ncut 8 m3;                           (* zCut.resize(nCut) *)
  do oz, m5 <- table_read E 62 ncut m4;
  match oz with None => Ret None m5 | Some zcut =>
  do _, m6 <- alloc E 62 (nclass * nelem) 8 m5;               (* stats.resize(nClass * nElem) *)
  do os, m7 <- table_read E 62 (nclass * nelem) m6;
  match os with None => Ret None m7 | Some stats =>
  do _, m8 <- alloc E 62 (ncut + nclass * nelem) 8 m7;        (* the setters: _zCut and the nclass x nelem matrix *)
  Ret (Some (mkAnamD ncut nelem zcut stats)) m8
  end end end end end.

Record anamdd := mkAnamDD { dd_base : anamd; dd_s : num; dd_mu : num; dd_z2f : list num; dd_f2z : list num }.
Definition anamdd_deserialize (E : env) (m : mon) : res (option anamdd) :=
  do ob, m1 <- anamd_deserialize E m;
  match ob with None => Ret None m1 | Some b =>
  do os, m2 <- read_double m1;
  match os with None => Ret None m2 | Some s =>
  do omu, m3 <- read_double m2;
  match omu with None => Ret None m3 | Some mu =>
  let n2 := ad_ncut b * ad_ncut b in
  if negb (count_ok E (2 * n2) m3) then Ret None m3 else      (* fixes/C09_19; 6 = ANAM_KD_NELEM, the columns of the statistics used by the classes *)
  do _, m4 <- alloc E 64 n2 8 m3;                             (* VectorDouble local(ncut * ncut) *)
  do o1, m5 <- table_read E 64 n2 m4;
  do _, m6 <- alloc E 64 n2 8 m5;                             (* pcaz2f.resetFromVD: executed whatever the reading gave *)
  match o1 with None => Ret None m6 | Some z2f =>
  do _, m7 <- alloc E 64 n2 8 m6;
  do o2, m8 <- table_read E 64 n2 m7;
  do _, m9 <- alloc E 64 n2 8 m8;
  match o2 with None => Ret None m9 | Some f2z => Ret (Some (mkAnamDD b s mu z2f f2z)) m9 end
  end end end end.

Definition anamir_deserialize (E : env) (m : mon) : res (option (anamd * num)) :=
  do ob, m1 <- anamd_deserialize E m;
  match ob with None => Ret None m1 | Some b =>
  do orr, m2 <- read_double m1;
  match orr with None => Ret None m2 | Some r => Ret (Some (b, r)) m2 end
  end.

(* ------------------------------------------------------------------ AnamEmpirical *)
Record aname := mkAnamE { ae_bounds : list num; ae_ndisc : Z; ae_sigma2e : num; ae_z : list num; ae_y : list num }.
Definition aname_core (E : env) (m : mon) : res (option aname) :=
  do ob, m1 <- read_doubles 10 10 0 [] m;            (* AnamContinuous::_deserialize: ten values *)
  match ob with None => Ret None m1 | Some bounds =>
  do on, m2 <- read_int m1;
  match on with None => Ret None m2 | Some ndisc =>
  do os, m3 <- read_double m2;
  match os with None => Ret None m3 | Some sig =>
  if negb (count_ok E (2 * ndisc) m3) then Ret None m3 else   (* fixes/C09_20 *)
  do _, m4 <- alloc E 65 ndisc 8 m3;                          (* zdisc.resize(ndisc) *)
  do oz, m5 <- table_read E 65 ndisc m4;
  do _, m6 <- alloc E 65 ndisc 8 m5;                          (* ydisc.resize(ndisc): executed whatever the reading gave *)
  match oz with None => Ret None m6 | Some z =>
  do oy, m7 <- table_read E 65 ndisc m6;
  match oy with None => Ret None m7 | Some y =>
  do _, m8 <- alloc E 65 (2 * ndisc) 8 m7;                    (* setNDisc, setDisc *)
  Ret (Some (mkAnamE bounds ndisc sig z y)) m8
  end end end end end.
(* then, when the file goes on: the two dilution flags *)
Definition aname_deserialize (E : env) (m : mon) : res (option aname) := opt_tail (tail_ints 2) (aname_core E m).

(* ------------------------------------------------------------------ DbLine *)
Record dbline := mkDbLine { dl_adds : list (list Z); dl_db : db }.
Fixpoint dbline_lines (E : env) (fuel : nat) (nb i : Z) (acc : list (list Z)) (m : mon) : res (option (list (list Z))) :=
  if i <? nb then
    match fuel with
    | O => Bad (Hang 63)
    | S f =>
        do on, m1 <- read_int m;
        match on with None => Ret None m1 | Some number =>
        if negb (count_ok E number m1) then Ret None m1 else   (* fixes/C09_21 *)
        do ows, m2 <- read_vec E 63 4 number m1;
        match ows with
        | None => Ret None m2
        | Some ws => dbline_lines E f nb (i + 1) (map value_int ws :: acc) m2
        end end
    end
  else Ret (Some (frev acc)) m.
(* DbLine::isConsistent (with the range test and the marking of fixes/C09_21): the addresses designate each sample once *)
Definition dbline_consistent (adds : list (list Z)) (nech : Z) : bool :=
  let all := concat adds in
  (zlen all =? nech) && forallb (fun a => (0 <=? a) && (a <? nech)) all && nodupZ all.
Definition dbline_deserialize (E : env) (m : mon) : res (option dbline) :=
  do ond, m1 <- read_int m;                                   (* the space dimension: read, not used *)
  match ond with None => Ret None m1 | Some _ =>
  do onb, m2 <- read_int m1;
  match onb with None => Ret None m2 | Some nbline =>
  if negb (count_ok E nbline m2) then Ret None m2 else        (* fixes/C09_21 *)
  do _, m3 <- alloc E 63 nbline 24 m2;                        (* _lineAdds.resize(nbline) *)
  do ol, m4 <- dbline_lines E (e_fuel E) nbline 0 [] m3;
  match ol with None => Ret None m4 | Some adds =>
  do od, m5 <- db_deserialize E None m4;
  match od with None => Ret None m5 | Some d =>
  if dbline_consistent adds (d_nech d) then Ret (Some (mkDbLine adds d)) m5 else Ret None m5
  end end end end.

(* ------------------------------------------------------------------ MeshETurbo (with the guards of fixes/C09_22) *)
(* the masks: Some n = an indirection over n active elements *)
Record mturbo := mkMT { mt_ndim : Z; mt_nx : list Z; mt_mesh : option Z; mt_grid : option Z }.
Definition npercell (ndim : Z) : Z := if ndim =? 1 then 1 else if ndim =? 2 then 2 else 6.
(* numbers of meshes and of nodes of the complete grid, in long; every count positive and both products within an int *)
Fixpoint turbo_totals (nx : list Z) (nm ng : Z) : option (Z * Z) :=
  match nx with
  | [] => Some (nm, ng)
  | v :: r => if v <=? 0 then None else
              if (INT_MAX <? nm * (v - 1)) || (INT_MAX <? ng * v) then None else turbo_totals r (nm * (v - 1)) (ng * v)
  end.
(* active count, masking count, then (masking count > 0) the ranks, each inside [0, total); Indirection::buildFromRankRInA
   holds one int per element of the complete grid in array mode (0), unless that is out of proportion with the file (map) *)
Definition turbo_mask (E : env) (mode total : Z) (m : mon) : res (option (option Z)) :=
  do oa, m1 <- read_int m;
  match oa with None => Ret None m1 | Some nact =>
  do om, m2 <- read_int m1;
  match om with None => Ret None m2 | Some nmask =>
  if nmask <=? 0 then Ret (Some None) m2 else
  if negb (count_ok E nact m2) then Ret None m2 else
  do ov, m3 <- read_vec E 74 4 nact m2;
  match ov with None => Ret None m3 | Some ws =>
  if negb (forallb (fun r => (0 <=? r) && (r <? total)) (map value_int ws)) then Ret None m3 else
  let arr := (mode =? 0) && count_in_file E total in
  do _, m4 <- alloc E 74 (if arr then total else nact) 4 m3;
  do _, m5 <- alloc E 74 nact 4 m4;                          (* _vecRToA = rels *)
  Ret (Some (Some nact)) m5
  end end end.
Definition neg_num (d : num) : bool := match d with Num q => negb (Qle_bool 0 q) | NA => false end.
Definition meshturbo_deserialize (E : env) (m : mon) : res (option mturbo) :=
  do ond, m1 <- read_int m;
  match ond with None => Ret None m1 | Some ndim =>
  if (ndim <=? 0) || (3 <? ndim) || negb (count_ok E (ndim * ndim) m1) then Ret None m1 else
  do onx, m2 <- read_vec E 74 4 ndim m1;
  match onx with None => Ret None m2 | Some wnx =>
  do odx, m3 <- read_vec E 74 8 ndim m2;
  match odx with None => Ret None m3 | Some wdx =>
  do ox0, m4 <- read_vec E 74 8 ndim m3;
  match ox0 with None => Ret None m4 | Some _ =>
  do orot, m5 <- read_vec E 74 8 (ndim * ndim) m4;
  match orot with None => Ret None m5 | Some _ =>
  do op, m6 <- read_ints 2 2 0 [] m5;                        (* polarization, storing mode *)
  match op with
  | Some [_; mode] =>
      let nx := map value_int wnx in
      match turbo_totals nx (npercell ndim) 1 with None => Ret None m6 | Some (nmt, ngt) =>
      (* initFromGridByMatrix: Grid::resetFromVector refuses a negative mesh *)
      if existsb neg_num (map value_double wdx) then Ret None m6 else
      do _, m7 <- alloc E 74 (ndim * ndim + 6 * ndim) 8 m6;  (* the grid, its rotation, the extension *)
      do omm, m8 <- turbo_mask E mode nmt m7;
      match omm with None => Ret None m8 | Some mesh =>
      do ogm, m9 <- turbo_mask E mode ngt m8;
      match ogm with None => Ret None m9 | Some grid => Ret (Some (mkMT ndim nx mesh grid)) m9 end
      end end
  | _ => Ret None m6
  end end end end end end.

(* class invariants *)
Definition wf_anamd (a : anamd) : Prop :=
  0 <= ad_ncut a /\ 6 <= ad_nelem a /\ zlen (ad_zcut a) = ad_ncut a /\ zlen (ad_stats a) = (ad_ncut a + 1) * ad_nelem a.
Definition wf_anamdd (a : anamdd) : Prop :=
  wf_anamd (dd_base a) /\ zlen (dd_z2f a) = ad_ncut (dd_base a) * ad_ncut (dd_base a) /\
  zlen (dd_f2z a) = ad_ncut (dd_base a) * ad_ncut (dd_base a).
Definition wf_aname (a : aname) : Prop :=
  0 <= ae_ndisc a /\ zlen (ae_bounds a) = 10 /\ zlen (ae_z a) = ae_ndisc a /\ zlen (ae_y a) = ae_ndisc a.
Definition wf_mturbo (t : mturbo) : Prop :=
  1 <= mt_ndim t <= 3 /\ zlen (mt_nx t) = mt_ndim t /\ Forall (fun v => 0 < v) (mt_nx t) /\
  match mt_mesh t with Some n => 0 <= n | None => True end /\ match mt_grid t with Some n => 0 <= n | None => True end.
Definition wf_dbline (x : dbline) : Prop :=
  wf_db (dl_db x) /\ zlen (concat (dl_adds x)) = d_nech (dl_db x) /\ NoDup (concat (dl_adds x)) /\
  Forall (fun a => 0 <= a < d_nech (dl_db x)) (concat (dl_adds x)).

(* ------------------------------------------------------------------ createFromNF *)
Definition tag_AnamDD : list Z := [65; 110; 97; 109; 68; 105; 115; 99; 114; 101; 116; 101; 68; 68].
Definition tag_AnamIR : list Z := [65; 110; 97; 109; 68; 105; 115; 99; 114; 101; 116; 101; 73; 82].
Definition tag_AnamEmpirical : list Z := [65; 110; 97; 109; 69; 109; 112; 105; 114; 105; 99; 97; 108].
Definition tag_DbLine : list Z := [68; 98; 76; 105; 110; 101].
Definition tag_MeshETurbo : list Z := [77; 101; 115; 104; 69; 84; 117; 114; 98; 111].
Definition load_AnamDD := create_from_nf tag_AnamDD anamdd_deserialize.
Definition load_AnamIR := create_from_nf tag_AnamIR anamir_deserialize.
Definition load_AnamEmpirical := create_from_nf tag_AnamEmpirical aname_deserialize.
Definition load_DbLine := create_from_nf tag_DbLine dbline_deserialize.
Definition load_MeshETurbo := create_from_nf tag_MeshETurbo meshturbo_deserialize.

(* C09 proofs, part 2: Table::_deserialize as the code is now (fixes C09_1, C09_2 applied) — clean, total, allocation bounded, well-formed. *)
From Coq Require Import List ZArith QArith Bool Lia Arith.
From Gst Require Import C09.Model C09.Readers C09.Spec C09.Proofs_prim.
Import ListNotations.
Local Open Scope Z_scope.

Section Fixed.
Variable E : env.
Variable flen : Z.
Hypothesis Hcfg : cfg_ge_now (e_cfg E).
Hypothesis Hflen : 0 <= flen.
Hypothesis Hfuel : flen < Z.of_nat (e_fuel E).
Hypothesis Hcap : alloc_bound flen <= e_cap E.

Lemma table_row_spec : forall fuel ncols icol acc m,
  0 <= icol <= ncols -> ncols - icol < Z.of_nat fuel ->
  match table_row fuel ncols icol acc m with
  | Ret o m' => len m' <= len m /\ galloc m' = galloc m /\
                match o with Some acc' => zlen acc' = zlen acc + (ncols - icol) | None => True end
  | Bad _ => False
  end.
Proof.
  induction fuel as [|f IH]; intros ncols icol acc m Hi Hf; simpl.
  - destruct (icol <? ncols) eqn:C; [apply Z.ltb_lt in C; simpl in Hf; lia|].
    apply Z.ltb_ge in C. split; [lia|split; [reflexivity|]]. unfold zlen. lia.
  - destruct (icol <? ncols) eqn:C.
    + apply Z.ltb_lt in C. pose proof (read_double_reads m) as HR.
      destruct (read_double m) as [ov m1|b]; simpl in *; [|contradiction]. destruct HR as [HR1 HR2].
      destruct ov as [v|]; [|split; [lia|split; [assumption|exact I]]].
      specialize (IH ncols (icol + 1) (v :: acc) m1). 
      destruct (table_row f ncols (icol + 1) (v :: acc) m1) as [o m'|b].
      * destruct IH as [I1 [I2 I3]]; [lia|lia|]. split; [lia|split; [congruence|]].
        destruct o; [|exact I]. unfold zlen in *. simpl length in I3. lia.
      * apply IH; lia.
    + apply Z.ltb_ge in C. split; [lia|split; [reflexivity|]]. unfold zlen. lia.
Qed.

Lemma table_rows_spec : forall fuel nrows ncols irow acc m,
  0 <= ncols -> ncols < Z.of_nat (e_fuel E) -> 0 <= irow <= nrows -> nrows - irow < Z.of_nat fuel ->
  match table_rows (e_fuel E) fuel nrows ncols irow acc m with
  | Ret o m' => len m' <= len m /\ galloc m' = galloc m /\
                match o with Some vals => zlen vals = zlen acc + (nrows - irow) * ncols | None => True end
  | Bad _ => False
  end.
Proof.
  induction fuel as [|f IH]; intros nrows ncols irow acc m Hc Hcf Hi Hf; simpl.
  - destruct (irow <? nrows) eqn:C; [apply Z.ltb_lt in C; simpl in Hf; lia|].
    apply Z.ltb_ge in C. split; [lia|split; [reflexivity|]]. unfold zlen. rewrite frev_length. nia.
  - destruct (irow <? nrows) eqn:C.
    + apply Z.ltb_lt in C.
      pose proof (table_row_spec (e_fuel E) ncols 0 acc m) as HR.
      destruct (table_row (e_fuel E) ncols 0 acc m) as [orow m1|b]; simpl; [|apply HR; lia].
      destruct HR as [H1 [H2 H3]]; [lia|lia|].
      destruct orow as [acc'|]; [|split; [lia|split; [assumption|exact I]]].
      specialize (IH nrows ncols (irow + 1) acc' m1).
      destruct (table_rows (e_fuel E) f nrows ncols (irow + 1) acc' m1) as [o m'|b].
      * destruct IH as [I1 [I2 I3]]; [lia|lia|lia|lia|]. split; [lia|split; [congruence|]].
        destruct o; [|exact I]. rewrite I3, H3. ring.
      * apply IH; lia.
    + apply Z.ltb_ge in C. split; [lia|split; [reflexivity|]]. unfold zlen. rewrite frev_length. nia.
Qed.

Theorem table_fixed : forall m, len m <= flen ->
  rspec (8 * flen) wf_table m (table_deserialize E m).
Proof.
  intros m Hm. unfold table_deserialize, rspec.
  pose proof (read_int_reads m) as R1. destruct (read_int m) as [oncols m1|b]; cbn [bind reads] in *; [|contradiction].
  destruct R1 as [L1 G1]. destruct oncols as [ncols|]; [|split; [lia|split; [lia|exact I]]].
  pose proof (read_int_reads m1) as R2. destruct (read_int m1) as [onrows m2|b]; cbn [bind reads] in *; [|contradiction].
  destruct R2 as [L2 G2]. destruct onrows as [nrows|]; [|split; [lia|split; [lia|exact I]]].
  destruct (count_ok E ncols m2 && count_ok E nrows m2 && count_ok E (nrows * ncols) m2) eqn:CK; cbn [negb];
    [|split; [lia|split; [lia|exact I]]].
  apply andb_true_iff in CK. destruct CK as [CK C3]. apply andb_true_iff in CK. destruct CK as [C1 C2].
  assert (HFC : fix_counts (e_cfg E) = true) by (destruct Hcfg as [H1' [H2' [H3' H4']]]; assumption).
  apply count_ok_fixed in C1; [|assumption]. apply count_ok_fixed in C2; [|assumption]. apply count_ok_fixed in C3; [|assumption].
  replace ((nrows <? 0) || (ncols <? 0)) with false
    by (symmetry; apply orb_false_iff; split; apply Z.ltb_ge; lia).
  unfold alloc_bound in Hcap.
  rewrite alloc_ok by lia. cbn [bind].
  set (m3 := mkM (ms m2) (galloc m2 + nrows * ncols * 8)).
  pose proof (table_rows_spec (e_fuel E) nrows ncols 0 [] m3) as HT.
  destruct (table_rows (e_fuel E) (e_fuel E) nrows ncols 0 [] m3) as [ovals m4|b]; cbn [bind]; [|apply HT; lia].
  destruct HT as [T1 [T2 T3]]; [lia|lia|lia|lia|].
  assert (len m3 = len m2) by reflexivity. assert (galloc m3 = galloc m2 + nrows * ncols * 8) by reflexivity.
  destruct ovals as [vals|]; (split; [lia|split; [lia|]]); [|exact I].
  unfold wf_table; simpl. unfold zlen in *. simpl in T3. split; [lia|split; [lia|lia]].
Qed.
End Fixed.

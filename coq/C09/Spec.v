(* C09 spec: what "the loader fails cleanly" means on the model.
     - clean outcome: the reader returns (an object or a failure); it never performs an out-of-bounds store,
       never lets a C++ exception / assertion escape, never loops without consuming input;
     - allocation bound: the ghost counter stays below an explicit function of the file length;
     - class invariants of the objects a reader may return (for Db: the invariant of C07 — a rectangular table, names
       pairwise different, the uid table enumerates the columns, role lists without repetition, made of live uids, pairwise disjoint).
   Boolean versions are used by Run.v; their equivalence with the Prop versions is proved in Proofs_wf.v. *)
From Coq Require Import List ZArith QArith Bool.
From Gst Require Import C09.Model C09.Readers C09.Readers2.
Import ListNotations.
Local Open Scope Z_scope.

(* ------------------------------------------------------------------ outcomes *)
Definition clean {A} (o : outcome A) : Prop := match o with Crashed _ => False | _ => True end.
Definition no_oob {A} (o : outcome A) : Prop := match o with Crashed (OOB _) => False | _ => True end.
Definition no_hang {A} (o : outcome A) : Prop := match o with Crashed (Hang _) => False | _ => True end.
Definition no_throw {A} (o : outcome A) : Prop := match o with Crashed (Throw _ _) => False | _ => True end.
Definition ghost_of {A} (o : outcome A) : Z := match o with Loaded _ g => g | Failed g => g | Crashed _ => 0 end.
Definition loaded {A} (o : outcome A) (a : A) : Prop := exists g, o = Loaded a g.

(* ------------------------------------------------------------------ class invariants *)
Definition wf_db (d : db) : Prop :=
  0 <= d_ncol d /\ 0 <= d_nech d /\
  zlen (d_names d) = d_ncol d /\ NoDup (d_names d) /\
  d_uidcol d = zseq (d_ncol d) /\
  zlen (d_array d) = d_ncol d * d_nech d /\
  length (d_loc d) = 29%nat /\
  NoDup (concat (d_loc d)) /\
  Forall (fun u => 0 <= u < d_ncol d) (concat (d_loc d)).

Definition wf_grid (g : grid) : Prop :=
  0 <= g_ndim g /\ zlen (g_nx g) = g_ndim g /\ zlen (g_x0 g) = g_ndim g /\ zlen (g_dx g) = g_ndim g /\
  zlen (g_angles g) = g_ndim g /\ Forall (fun v => 0 <= v) (g_nx g).
Definition grid_ntotal (g : grid) : Z := ntotal_exact (g_ndim g) (g_nx g).
Definition wf_dbgrid (x : dbgrid) : Prop :=
  wf_grid (dg_grid x) /\ wf_db (dg_db x) /\ d_nech (dg_db x) = grid_ntotal (dg_grid x).

Definition wf_table (t : table) : Prop :=
  0 <= t_nrows t /\ 0 <= t_ncols t /\ zlen (t_vals t) = t_nrows t * t_ncols t.
Definition wf_polyline (p : polyline) : Prop := length (pl_x p) = length (pl_y p).
Definition wf_polyelem (p : polyelem) : Prop := wf_polyline (pe_line p).
Definition wf_polygons (l : list polyelem) : Prop :=
  Forall (fun p => wf_polyelem p /\ 3 <= zlen (pl_x (pe_line p))) l.
Definition wf_faults (l : list polyline) : Prop := Forall wf_polyline l.

(* second wave *)
Definition wf_rule (r : rule) : Prop := ru_built r = true /\ ru_complete r = true /\ 0 < ru_nnode r.
Definition wf_anamh (a : anamh) : Prop := 0 < zlen (ah_psi a) /\ zlen (ah_bounds a) = 10.
Definition wf_neighmoving (n : neighmoving) : Prop :=
  0 < nm_ndim n /\ zlen (nm_ints n) = 5 /\ (nm_coeffs n = [] \/ zlen (nm_coeffs n) = nm_ndim n) /\
  (nm_rotmat n = [] \/ zlen (nm_rotmat n) = nm_ndim n * nm_ndim n).
Definition wf_vario (v : vario) : Prop := 0 < va_nvar v /\ zlen (va_dirs v) = va_ndir v.
Definition wf_gmodel (g : gmodel) : Prop := 0 < gm_ndim g /\ 0 < gm_nvar g /\ zlen (gm_types g) = gm_ncova g.
Definition wf_rule_b (r : rule) : bool := ru_built r && ru_complete r && (0 <? ru_nnode r).
Definition wf_vario_b (v : vario) : bool := (0 <? va_nvar v) && (zlen (va_dirs v) =? va_ndir v).

(* ------------------------------------------------------------------ boolean versions *)
Fixpoint memZ (x : Z) (l : list Z) : bool := match l with [] => false | y :: r => (x =? y) || memZ x r end.
Fixpoint nodupZ (l : list Z) : bool := match l with [] => true | x :: r => negb (memZ x r) && nodupZ r end.
Fixpoint memL (x : list Z) (l : list (list Z)) : bool := match l with [] => false | y :: r => bytes_eqb y x || memL x r end.
Fixpoint nodupL (l : list (list Z)) : bool := match l with [] => true | x :: r => negb (memL x r) && nodupL r end.
Fixpoint list_eqZ (a b : list Z) : bool :=
  match a, b with [], [] => true | x :: a', y :: b' => (x =? y) && list_eqZ a' b' | _, _ => false end.
Definition wf_db_b (d : db) : bool :=
  (0 <=? d_ncol d) && (0 <=? d_nech d) &&
  (zlen (d_names d) =? d_ncol d) && nodupL (d_names d) &&
  list_eqZ (d_uidcol d) (zseq (d_ncol d)) &&
  (zlen (d_array d) =? d_ncol d * d_nech d) &&
  Nat.eqb (length (d_loc d)) 29 &&
  nodupZ (concat (d_loc d)) &&
  forallb (fun u => (0 <=? u) && (u <? d_ncol d)) (concat (d_loc d)).
Definition wf_grid_b (g : grid) : bool :=
  (0 <=? g_ndim g) && (zlen (g_nx g) =? g_ndim g) && (zlen (g_x0 g) =? g_ndim g) && (zlen (g_dx g) =? g_ndim g) &&
  (zlen (g_angles g) =? g_ndim g) && forallb (fun v => 0 <=? v) (g_nx g).
Definition wf_dbgrid_b (x : dbgrid) : bool :=
  wf_grid_b (dg_grid x) && wf_db_b (dg_db x) && (d_nech (dg_db x) =? grid_ntotal (dg_grid x)).
Definition wf_table_b (t : table) : bool :=
  (0 <=? t_nrows t) && (0 <=? t_ncols t) && (zlen (t_vals t) =? t_nrows t * t_ncols t).
Definition wf_polyline_b (p : polyline) : bool := Nat.eqb (length (pl_x p)) (length (pl_y p)).
Definition wf_polyelem_b (p : polyelem) : bool := wf_polyline_b (pe_line p).
Definition wf_polygons_b (l : list polyelem) : bool :=
  forallb (fun p => wf_polyelem_b p && (3 <=? zlen (pl_x (pe_line p)))) l.
Definition wf_faults_b (l : list polyline) : bool := forallb wf_polyline_b l.

(* ------------------------------------------------------------------ allocation bounds (bytes) *)
(* linear bound for the readers whose allocations are proportional to counts: a = 256, b = 4096 *)
Definition alloc_bound (flen : Z) : Z := 256 * flen + 4096.
(* DbGrid also allocates two ndim x ndim rotation matrices *)
Definition alloc_bound_grid (flen : Z) : Z := 16 * flen * flen + 512 * flen + 8192.
(* Vario: per direction, vectors of ndim values and result arrays bounded by the file; Model: per covariance, ndim x ndim tensors *)
Definition alloc_bound_vario (flen : Z) : Z := 64 * flen * flen + 512 * flen + 8192.
Definition alloc_bound_model (flen : Z) : Z := 64 * flen * flen * flen + 64 * flen * flen + 512 * flen + 8192.

(* C09 proofs, part 11: the property statements, assembled from the per-class theorems. *)
From Coq Require Import List ZArith QArith Bool Lia.
From Gst Require Import C09.Model C09.Readers C09.Spec C09.Witness C09.Proofs_prim C09.Proofs_loc C09.Proofs_top C09.Proofs_refute.
Import ListNotations.
Local Open Scope Z_scope.

(* the seven modelled loaders on one file *)
Definition all_loaders (P : forall A, outcome A -> Prop) (E : env) (f : list Z) : Prop :=
  P _ (load_Db E f) /\ P _ (load_DbGrid E f) /\ P _ (load_Table E f) /\ P _ (load_Polygons E f) /\
  P _ (load_PolyElem E f) /\ P _ (load_PolyLine2D E f) /\ P _ (load_Faults E f).
(* the five whose reader does not go through Db::setLocatorByUID *)
Definition five_loaders (P : forall A, outcome A -> Prop) (E : env) (f : list Z) : Prop :=
  P _ (load_Table E f) /\ P _ (load_Polygons E f) /\ P _ (load_PolyElem E f) /\ P _ (load_PolyLine2D E f) /\ P _ (load_Faults E f).

(* hypotheses: files below 2 GB; the code as it is now (or more fixes); fuel |f|+1 or more; allocation cap not below the bound *)
Definition hyp_now (E : env) (f : list Z) : Prop := flen f < 2147483648 /\ now_env E f (alloc_bound_grid (flen f)).
Definition hyp_fixed (E : env) (f : list Z) : Prop := flen f < 2147483648 /\ fixed_env E f (alloc_bound_grid (flen f)).

Lemma lin_of_grid : forall E f, now_env E f (alloc_bound_grid (flen f)) -> now_env E f (alloc_bound (flen f)).
Proof.
  intros E f [H2 [H3 H4]]. split; [assumption|split; [assumption|]].
  assert (0 <= flen f) by (unfold flen; lia). unfold alloc_bound, alloc_bound_grid in *. nia.
Qed.
Lemma hyp_fixed_now : forall E f, hyp_fixed E f -> hyp_now E f.
Proof. intros E f [H1 [H2 H3]]. split; assumption. Qed.

Lemma safe_parts : forall A (o : outcome A), safe_outcome o -> no_oob o /\ no_hang o.
Proof. intros A [a g|g|[s|k s|s]] H; simpl in *; try discriminate; repeat split. Qed.
Lemma clean_parts : forall A (o : outcome A), clean o -> no_oob o /\ no_hang o /\ no_throw o.
Proof. intros A [a g|g|[s|k s|s]] H; simpl in *; try contradiction; repeat split. Qed.
Lemma clean_safe : forall A (o : outcome A), clean o -> safe_outcome o.
Proof. intros A [a g|g|b] H; simpl in *; try contradiction; exact I. Qed.

Lemma good_five : forall E f, hyp_now E f ->
  good_outcome wf_table (alloc_bound (flen f)) (load_Table E f) /\
  good_outcome wf_polygons (alloc_bound (flen f)) (load_Polygons E f) /\
  good_outcome wf_polyelem (alloc_bound (flen f)) (load_PolyElem E f) /\
  good_outcome wf_polyline (alloc_bound (flen f)) (load_PolyLine2D E f) /\
  good_outcome wf_faults (alloc_bound (flen f)) (load_Faults E f).
Proof.
  intros E f [H1 H2]. pose proof (lin_of_grid _ _ H2) as HL.
  split; [apply load_Table_now; assumption|].
  split; [apply load_Polygons_now; assumption|].
  split; [apply load_PolyElem_now; assumption|].
  split; [apply load_PolyLine2D_now; assumption|].
  apply load_Faults_now; assumption.
Qed.
Lemma safe_all : forall E f, hyp_now E f -> all_loaders (fun A o => safe_outcome o) E f.
Proof.
  intros E f H. destruct (good_five E f H) as [[A3 _] [[A4 _] [[A5 _] [[A6 _] [A7 _]]]]]. destruct H as [H1 H2].
  unfold all_loaders. split; [apply load_Db_now; [assumption|apply lin_of_grid; assumption]|].
  split; [apply load_DbGrid_now; assumption|].
  repeat split; apply clean_safe; assumption.
Qed.

(* ---- the code as it is now *)
Lemma main_no_oob : forall E f, hyp_now E f -> all_loaders (fun A o => no_oob o) E f.
Proof.
  intros E f H. pose proof (safe_all E f H) as HS. unfold all_loaders in *.
  destruct HS as [C1 [C2 [C3 [C4 [C5 [C6 C7]]]]]].
  repeat split; match goal with |- no_oob ?o => apply (safe_parts _ o); assumption end.
Qed.
Lemma main_total : forall E f, hyp_now E f -> all_loaders (fun A o => no_hang o) E f.
Proof.
  intros E f H. pose proof (safe_all E f H) as HS. unfold all_loaders in *.
  destruct HS as [C1 [C2 [C3 [C4 [C5 [C6 C7]]]]]].
  repeat split; match goal with |- no_hang ?o => apply (safe_parts _ o); assumption end.
Qed.
Lemma main_only_throw16 : forall E f, hyp_now E f -> all_loaders (fun A o => safe_outcome o) E f.
Proof. exact safe_all. Qed.
Lemma main_five : forall E f, hyp_now E f ->
  good_outcome wf_table (alloc_bound (flen f)) (load_Table E f) /\
  good_outcome wf_polygons (alloc_bound (flen f)) (load_Polygons E f) /\
  good_outcome wf_polyelem (alloc_bound (flen f)) (load_PolyElem E f) /\
  good_outcome wf_polyline (alloc_bound (flen f)) (load_PolyLine2D E f) /\
  good_outcome wf_faults (alloc_bound (flen f)) (load_Faults E f).
Proof. exact good_five. Qed.
Lemma main_prefix : forall E f n, hyp_now E (firstn n f) -> all_loaders (fun A o => safe_outcome o) E (firstn n f).
Proof. intros E f n H. apply safe_all. assumption. Qed.

(* ---- with fixes/C09_5 *)
Lemma main_db_fixed : forall E f, hyp_fixed E f ->
  good_outcome wf_db (alloc_bound (flen f)) (load_Db E f) /\
  good_outcome wf_dbgrid (alloc_bound_grid (flen f)) (load_DbGrid E f).
Proof.
  intros E f [H1 [H2 H3]]. split.
  - apply load_Db_fixed; [assumption|]. split; [apply lin_of_grid; assumption|assumption].
  - apply load_DbGrid_fixed; [assumption|]. split; assumption.
Qed.
Lemma main_clean_fixed : forall E f, hyp_fixed E f -> all_loaders (fun A o => clean o) E f.
Proof.
  intros E f H. destruct (main_db_fixed E f H) as [[A1 _] [A2 _]].
  destruct (good_five E f (hyp_fixed_now _ _ H)) as [[A3 _] [[A4 _] [[A5 _] [[A6 _] [A7 _]]]]].
  unfold all_loaders. tauto.
Qed.

(* ---- the statements of Properties.v: the code as it is now = hyp_fixed *)
Definition hyp := hyp_fixed.
Lemma envs_satisfy_hyps2 : hyp (fix_env v_db) v_db /\ hyp (fix_env v_dbgrid) v_dbgrid.
Proof. vm_compute. repeat split; try reflexivity; intro H; discriminate H. Qed.
Lemma main_all_no_oob : forall E f, hyp E f -> all_loaders (fun A o => no_oob o) E f.
Proof.
  intros E f H. pose proof (main_clean_fixed E f H) as HC. unfold all_loaders in *.
  destruct HC as [C1 [C2 [C3 [C4 [C5 [C6 C7]]]]]].
  repeat split; match goal with |- no_oob ?o => apply (clean_parts _ o); assumption end.
Qed.
Lemma main_all_total : forall E f, hyp E f -> all_loaders (fun A o => no_hang o) E f.
Proof.
  intros E f H. pose proof (main_clean_fixed E f H) as HC. unfold all_loaders in *.
  destruct HC as [C1 [C2 [C3 [C4 [C5 [C6 C7]]]]]].
  repeat split; match goal with |- no_hang ?o => apply (clean_parts _ o); assumption end.
Qed.
Lemma main_all_no_throw : forall E f, hyp E f -> all_loaders (fun A o => no_throw o) E f.
Proof.
  intros E f H. pose proof (main_clean_fixed E f H) as HC. unfold all_loaders in *.
  destruct HC as [C1 [C2 [C3 [C4 [C5 [C6 C7]]]]]].
  repeat split; match goal with |- no_throw ?o => apply (clean_parts _ o); assumption end.
Qed.
Lemma main_all_good : forall E f, hyp E f ->
  good_outcome wf_db (alloc_bound (flen f)) (load_Db E f) /\
  good_outcome wf_dbgrid (alloc_bound_grid (flen f)) (load_DbGrid E f) /\
  good_outcome wf_table (alloc_bound (flen f)) (load_Table E f) /\
  good_outcome wf_polygons (alloc_bound (flen f)) (load_Polygons E f) /\
  good_outcome wf_polyelem (alloc_bound (flen f)) (load_PolyElem E f) /\
  good_outcome wf_polyline (alloc_bound (flen f)) (load_PolyLine2D E f) /\
  good_outcome wf_faults (alloc_bound (flen f)) (load_Faults E f).
Proof.
  intros E f H. destruct (main_db_fixed E f H) as [A1 A2].
  destruct (good_five E f (hyp_fixed_now _ _ H)) as [A3 [A4 [A5 [A6 A7]]]].
  exact (conj A1 (conj A2 (conj A3 (conj A4 (conj A5 (conj A6 A7)))))).
Qed.
Lemma main_all_alloc : forall E f, hyp E f ->
  ghost_of (load_Db E f) <= alloc_bound (flen f) /\ ghost_of (load_DbGrid E f) <= alloc_bound_grid (flen f) /\
  ghost_of (load_Table E f) <= alloc_bound (flen f) /\ ghost_of (load_Polygons E f) <= alloc_bound (flen f) /\
  ghost_of (load_PolyElem E f) <= alloc_bound (flen f) /\ ghost_of (load_PolyLine2D E f) <= alloc_bound (flen f) /\
  ghost_of (load_Faults E f) <= alloc_bound (flen f).
Proof.
  intros E f H. destruct (main_all_good E f H) as [[_ [A1 _]] [[_ [A2 _]] [[_ [A3 _]] [[_ [A4 _]] [[_ [A5 _]] [[_ [A6 _]] [_ [A7 _]]]]]]]].
  repeat split; lia.
Qed.
Lemma main_all_wf : forall E f, hyp E f ->
  (forall d, loaded (load_Db E f) d -> wf_db d) /\ (forall x, loaded (load_DbGrid E f) x -> wf_dbgrid x) /\
  (forall t, loaded (load_Table E f) t -> wf_table t) /\ (forall l, loaded (load_Polygons E f) l -> wf_polygons l) /\
  (forall p, loaded (load_PolyElem E f) p -> wf_polyelem p) /\ (forall p, loaded (load_PolyLine2D E f) p -> wf_polyline p) /\
  (forall l, loaded (load_Faults E f) l -> wf_faults l).
Proof.
  intros E f H. destruct (main_all_good E f H) as [[_ [_ A1]] [[_ [_ A2]] [[_ [_ A3]] [[_ [_ A4]] [[_ [_ A5]] [[_ [_ A6]] [_ [_ A7]]]]]]]].
  exact (conj A1 (conj A2 (conj A3 (conj A4 (conj A5 (conj A6 A7)))))).
Qed.
Lemma main_all_prefix : forall E f n, hyp E (firstn n f) -> all_loaders (fun A o => clean o) E (firstn n f).
Proof. intros E f n H. apply main_clean_fixed. assumption. Qed.

(* the primitives never loop and never store, whatever the configuration *)
Lemma main_recordRead : forall m, reads m (record_word m).
Proof. exact record_word_reads. Qed.

(* C09 proofs, part 7: the boolean invariants evaluated by the runner are the declarative ones. *)
From Coq Require Import List ZArith QArith Bool Lia Arith.
From Gst Require Import C09.Model C09.Readers C09.Spec C09.Proofs_prim C09.Proofs_loc.
Import ListNotations.
Local Open Scope Z_scope.

Lemma memZ_In : forall x l, memZ x l = true <-> In x l.
Proof.
  induction l as [|y l IH]; simpl; [split; [discriminate|contradiction]|].
  rewrite orb_true_iff, IH, Z.eqb_eq. split; intros [H|H]; auto.
Qed.
Lemma nodupZ_NoDup : forall l, nodupZ l = true <-> NoDup l.
Proof.
  induction l as [|x l IH]; simpl; [split; [constructor|reflexivity]|].
  rewrite andb_true_iff, negb_true_iff, IH. split.
  - intros [H1 H2]. constructor; [|assumption]. intro HI. apply memZ_In in HI. congruence.
  - intros H. inversion H; subst. split; [|assumption]. destruct (memZ x l) eqn:E; [|reflexivity].
    apply memZ_In in E. contradiction.
Qed.
Lemma memL_In : forall x l, memL x l = true <-> In x l.
Proof.
  induction l as [|y l IH]; simpl; [split; [discriminate|contradiction]|].
  rewrite orb_true_iff, IH. split; intros [H|H]; auto.
  - left. apply bytes_eqb_eq. assumption.
  - left. subst. apply bytes_eqb_refl.
Qed.
Lemma nodupL_NoDup : forall l, nodupL l = true <-> NoDup l.
Proof.
  induction l as [|x l IH]; simpl; [split; [constructor|reflexivity]|].
  rewrite andb_true_iff, negb_true_iff, IH. split.
  - intros [H1 H2]. constructor; [|assumption]. intro HI. apply memL_In in HI. congruence.
  - intros H. inversion H; subst. split; [|assumption]. destruct (memL x l) eqn:E; [|reflexivity].
    apply memL_In in E. contradiction.
Qed.
Lemma list_eqZ_eq : forall a b, list_eqZ a b = true <-> a = b.
Proof.
  induction a as [|x a IH]; intros [|y b]; simpl; try (split; [discriminate|discriminate]); [split; reflexivity|].
  rewrite andb_true_iff, Z.eqb_eq, IH. split; [intros [H1 H2]; congruence|intros H; inversion H; auto].
Qed.
Lemma forallb_Forall : forall A (f : A -> bool) (P : A -> Prop), (forall x, f x = true <-> P x) ->
  forall l, forallb f l = true <-> Forall P l.
Proof.
  intros A f P H. induction l as [|x l IH]; simpl; [split; [constructor|reflexivity]|].
  rewrite andb_true_iff, H, IH. split; [intros [H1 H2]; constructor; assumption|intros HF; inversion HF; auto].
Qed.

Theorem wf_db_b_spec : forall d, wf_db_b d = true <-> wf_db d.
Proof.
  intros d. unfold wf_db_b, wf_db. rewrite !andb_true_iff, !Z.leb_le, !Z.eqb_eq, list_eqZ_eq, nodupZ_NoDup, nodupL_NoDup, Nat.eqb_eq.
  rewrite (forallb_Forall _ _ (fun u => 0 <= u < d_ncol d)).
  - tauto.
  - intros x. rewrite andb_true_iff, Z.leb_le, Z.ltb_lt. tauto.
Qed.
Theorem wf_grid_b_spec : forall g, wf_grid_b g = true <-> wf_grid g.
Proof.
  intros g. unfold wf_grid_b, wf_grid. rewrite !andb_true_iff, !Z.leb_le, !Z.eqb_eq.
  rewrite (forallb_Forall _ _ (fun v => 0 <= v)).
  - tauto.
  - intros x. apply Z.leb_le.
Qed.
Theorem wf_dbgrid_b_spec : forall x, wf_dbgrid_b x = true <-> wf_dbgrid x.
Proof.
  intros x. unfold wf_dbgrid_b, wf_dbgrid. rewrite !andb_true_iff, wf_grid_b_spec, wf_db_b_spec, Z.eqb_eq. tauto.
Qed.
Theorem wf_table_b_spec : forall t, wf_table_b t = true <-> wf_table t.
Proof. intros t. unfold wf_table_b, wf_table. rewrite !andb_true_iff, !Z.leb_le, Z.eqb_eq. tauto. Qed.
Theorem wf_polyline_b_spec : forall p, wf_polyline_b p = true <-> wf_polyline p.
Proof. intros p. unfold wf_polyline_b, wf_polyline. apply Nat.eqb_eq. Qed.
Theorem wf_polygons_b_spec : forall l, wf_polygons_b l = true <-> wf_polygons l.
Proof.
  intros l. unfold wf_polygons_b, wf_polygons. apply forallb_Forall. intros p.
  rewrite andb_true_iff, Z.leb_le. unfold wf_polyelem_b, wf_polyelem. rewrite wf_polyline_b_spec. tauto.
Qed.
Theorem wf_faults_b_spec : forall l, wf_faults_b l = true <-> wf_faults l.
Proof. intros l. unfold wf_faults_b, wf_faults. apply forallb_Forall. apply wf_polyline_b_spec. Qed.

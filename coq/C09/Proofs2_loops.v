(* C09 proofs, second wave, part 1: the value loops and the small readers (ANeigh family, AnamHermite). *)
From Coq Require Import List ZArith QArith Bool Lia Arith.
From Gst Require Import C09.Model C09.Readers C09.Readers2 C09.Spec C09.Proofs_prim.
Import ListNotations.
Local Open Scope Z_scope.

(* a loop of reads: returns, consumes a suffix, allocates nothing; on success it delivers n - i more values *)
Definition loop_post {A} (m : mon) (n i : Z) (acc : list A) (r : res (option (list A))) : Prop :=
  match r with
  | Ret o m' => len m' <= len m /\ galloc m' = galloc m /\
                match o with Some l => zlen l = zlen acc + (n - i) | None => True end
  | Bad _ => False
  end.
Lemma read_doubles_spec : forall fuel n i acc m, 0 <= i <= n -> n - i <= Z.of_nat fuel ->
  loop_post m n i acc (read_doubles fuel n i acc m).
Proof.
  induction fuel as [|f IH]; intros n i acc m Hi Hf; cbn [read_doubles]; unfold loop_post.
  - destruct (i <? n) eqn:C; [apply Z.ltb_lt in C; simpl in Hf; lia|]. apply Z.ltb_ge in C.
    split; [lia|split; [reflexivity|]]. unfold zlen. rewrite frev_length. lia.
  - destruct (i <? n) eqn:C.
    + apply Z.ltb_lt in C. pose proof (read_double_reads m) as HR.
      destruct (read_double m) as [ov m1|b]; cbn [bind reads] in *; [|contradiction]. destruct HR as [H1 H2].
      destruct ov as [v|]; [|split; [lia|split; [assumption|exact I]]].
      specialize (IH n (i + 1) (v :: acc) m1 ltac:(lia) ltac:(lia)). unfold loop_post in IH.
      destruct (read_doubles f n (i + 1) (v :: acc) m1) as [o m'|b]; [|contradiction].
      destruct IH as [I1 [I2 I3]]. split; [lia|split; [congruence|]]. destruct o; [|exact I].
      unfold zlen in *. simpl length in I3. lia.
    + apply Z.ltb_ge in C. split; [lia|split; [reflexivity|]]. unfold zlen. rewrite frev_length. lia.
Qed.
Lemma read_ints_spec : forall fuel n i acc m, 0 <= i <= n -> n - i <= Z.of_nat fuel ->
  loop_post m n i acc (read_ints fuel n i acc m).
Proof.
  induction fuel as [|f IH]; intros n i acc m Hi Hf; cbn [read_ints]; unfold loop_post.
  - destruct (i <? n) eqn:C; [apply Z.ltb_lt in C; simpl in Hf; lia|]. apply Z.ltb_ge in C.
    split; [lia|split; [reflexivity|]]. unfold zlen. rewrite frev_length. lia.
  - destruct (i <? n) eqn:C.
    + apply Z.ltb_lt in C. pose proof (read_int_reads m) as HR.
      destruct (read_int m) as [ov m1|b]; cbn [bind reads] in *; [|contradiction]. destruct HR as [H1 H2].
      destruct ov as [v|]; [|split; [lia|split; [assumption|exact I]]].
      specialize (IH n (i + 1) (v :: acc) m1 ltac:(lia) ltac:(lia)). unfold loop_post in IH.
      destruct (read_ints f n (i + 1) (v :: acc) m1) as [o m'|b]; [|contradiction].
      destruct IH as [I1 [I2 I3]]. split; [lia|split; [congruence|]]. destruct o; [|exact I].
      unfold zlen in *. simpl length in I3. lia.
    + apply Z.ltb_ge in C. split; [lia|split; [reflexivity|]]. unfold zlen. rewrite frev_length. lia.
Qed.
Lemma read_strings_spec : forall fuel n i acc m, 0 <= i <= n -> n - i <= Z.of_nat fuel ->
  match read_strings fuel n i acc m with
  | Ret l m' => len m' <= len m /\ galloc m' = galloc m
  | Bad _ => False
  end.
Proof.
  induction fuel as [|f IH]; intros n i acc m Hi Hf; cbn [read_strings].
  - destruct (i <? n) eqn:C; [apply Z.ltb_lt in C; simpl in Hf; lia|]. split; [lia|reflexivity].
  - destruct (i <? n) eqn:C; [|split; [lia|reflexivity]].
    apply Z.ltb_lt in C. pose proof (record_word_reads m) as HR.
    destruct (record_word m) as [w m1|b]; cbn [bind reads] in *; [|contradiction]. destruct HR as [H1 H2].
    specialize (IH n (i + 1) (w :: acc) m1 ltac:(lia) ltac:(lia)).
    destruct (read_strings f n (i + 1) (w :: acc) m1) as [l m'|b]; [|contradiction].
    destruct IH. split; [lia|congruence].
Qed.
(* _isEndOfData: returns, consumes a suffix, allocates nothing *)
Lemma eod_loop_spec : forall fuel s, (mu s <= fuel)%nat ->
  exists b s', eod_loop fuel s = Some (b, s') /\ (slen s' <= slen s)%nat.
Proof.
  induction fuel as [|f IH]; intros s HM; cbn [eod_loop].
  - destruct (good s) eqn:G; [unfold mu in HM; rewrite G in HM; lia|]. exists true, s. split; [reflexivity|lia].
  - destruct (good s) eqn:G; [|exists true, s; split; [reflexivity|lia]].
    unfold mu in HM. rewrite G in HM.
    destruct (rest s) as [|c r] eqn:R.
    + eexists _, _. split; [reflexivity|]. unfold slen. simpl. lia.
    + cbn [length] in HM. destruct ((c =? 32) || (c =? 9) || (c =? 10) || (c =? 13)).
      * destruct (IH (mkS r (eofb s) (failb s))) as [b [s' [H1 H2]]].
        { unfold mu, good in *. cbn [eofb failb rest]. rewrite G. lia. }
        exists b, s'. split; [assumption|]. unfold slen in *. rewrite R. cbn [rest] in H2. simpl. lia.
      * destruct (c =? 35).
        -- destruct (getline s) as [t s1] eqn:GL. cbn [snd].
           pose proof (getline_mu_lt _ _ _ G GL) as HL. pose proof (getline_slen _ _ _ GL) as HS.
           destruct (IH s1) as [b [s' [H1 H2]]]; [unfold mu in HL at 2; rewrite G, R in HL; cbn [length] in HL; lia|].
           exists b, s'. split; [assumption|lia].
        -- exists false, s. split; [reflexivity|lia].
Qed.
Lemma end_of_data_reads : forall m, reads m (end_of_data m).
Proof.
  intros m. unfold end_of_data, reads.
  destruct (eod_loop_spec (S (length (rest (ms m)))) (ms m)) as [b [s' [H1 H2]]]; [unfold mu; destruct (good (ms m)); lia|].
  rewrite H1. unfold len, set_ms. cbn [ms galloc]. split; [lia|reflexivity].
Qed.
Lemma tail_ints_reads : forall n m, reads m (tail_ints n m).
Proof.
  intros n m. unfold tail_ints, reads. pose proof (read_ints_spec n (Z.of_nat n) 0 [] m ltac:(lia) ltac:(lia)) as R. unfold loop_post in R.
  destruct (read_ints n (Z.of_nat n) 0 [] m) as [o m1|b]; cbn [bind]; [|contradiction]. destruct R as [A [B _]]. split; assumption.
Qed.
Lemma tail_double_reads : forall m, reads m (tail_double m).
Proof.
  intros m. unfold tail_double, reads. pose proof (read_double_reads m) as R.
  destruct (read_double m) as [o m1|b]; cbn [bind reads] in *; [exact R|contradiction].
Qed.
Lemma tail_doubles_reads : forall fuel n m, 0 <= n <= Z.of_nat fuel -> reads m (tail_doubles fuel n m).
Proof.
  intros fuel n m Hn. unfold tail_doubles, reads. pose proof (read_doubles_spec fuel n 0 [] m ltac:(lia) ltac:(lia)) as R. unfold loop_post in R.
  destruct (read_doubles fuel n 0 [] m) as [o m1|b]; cbn [bind]; [|contradiction]. destruct R as [A [B _]]. split; assumption.
Qed.
(* the optional records at the end of a file change neither the bounds nor the invariant of what is returned *)
Lemma opt_tail_spec : forall A (rd : mon -> res bool) cost (wf : A -> Prop) m (r : res (option A)),
  (forall m', reads m' (rd m')) -> rspec cost wf m r -> rspec cost wf m (opt_tail rd r).
Proof.
  intros A rd cost wf m r HR H. unfold opt_tail, rspec in *. destruct r as [o m1|b]; cbn [bind]; [|contradiction].
  destruct H as [L1 [G1 W1]]. destruct o as [a|]; [|split; [lia|split; [lia|exact I]]].
  pose proof (end_of_data_reads m1) as RE. destruct (end_of_data m1) as [e m2|b]; cbn [bind reads] in *; [|contradiction].
  destruct RE as [L2 G2]. destruct e; [split; [lia|split; [lia|assumption]]|].
  pose proof (HR m2) as RT. destruct (rd m2) as [ok m3|b]; cbn [bind reads] in *; [|contradiction].
  destruct RT as [L3 G3]. destruct ok; (split; [lia|split; [lia|]]); [assumption|exact I].
Qed.

(* the fixed-size groups (fuel = n = a small constant) *)

Section Fixed.
Variable E : env.
Variable flen : Z.
Hypothesis Hcfg : cfg_ge_now (e_cfg E).
Hypothesis Hflen : 0 <= flen.
Hypothesis Hfuel : flen < Z.of_nat (e_fuel E).
Hypothesis Hcap : alloc_bound flen <= e_cap E.
Hypothesis Hfl : e_flen E = flen.

Let HFS : fix_store (e_cfg E) = true. Proof. destruct Hcfg as [H1 [H2 [H3 H4]]]; assumption. Qed.
Let HFC : fix_counts (e_cfg E) = true. Proof. destruct Hcfg as [H1 [H2 [H3 H4]]]; assumption. Qed.

(* ---- ANeigh: with fixes/C09_12 the dimension is bounded by the file *)
Lemma aneigh_spec : forall m, len m <= flen -> fix_neigh (e_prop E) = true ->
  rspec (24 * flen) (fun nd => 0 < nd <= flen) m (aneigh_deserialize E m).
Proof.
  intros m Hm HN. unfold aneigh_deserialize, rspec. unfold alloc_bound in Hcap.
  pose proof (read_int_reads m) as R1. destruct (read_int m) as [ond m1|b]; cbn [bind reads] in *; [|contradiction].
  destruct R1 as [L1 G1]. destruct ond as [ndim|]; [|split; [lia|split; [lia|exact I]]].
  destruct (ndim <=? 0) eqn:C0; [split; [lia|split; [lia|exact I]]|]. apply Z.leb_gt in C0.
  rewrite HN. cbn [andb]. destruct (count_in_file E ndim) eqn:CF; cbn [negb]; [|split; [lia|split; [lia|exact I]]].
  unfold count_in_file in CF. apply andb_true_iff in CF. destruct CF as [_ CF]. apply Z.leb_le in CF. rewrite Hfl in CF.
  rewrite alloc_ok by lia. cbn [bind].
  split; [change (len (mkM (ms m1) (galloc m1 + ndim * 24))) with (len m1); lia|split; [cbn [galloc]; lia|lia]].
Qed.
Theorem neighunique_fixed : forall m, len m <= flen -> fix_neigh (e_prop E) = true ->
  rspec (24 * flen) (fun nd => 0 < nd) m (neighunique_deserialize E m).
Proof.
  intros m Hm HN. unfold neighunique_deserialize, with_options. apply opt_tail_spec; [apply tail_ints_reads|].
  pose proof (aneigh_spec m Hm HN) as H. unfold rspec in *.
  destruct (aneigh_deserialize E m) as [o m'|b]; [|contradiction]. destruct H as [H1 [H2 H3]].
  split; [assumption|split; [assumption|]]. destruct o; [lia|exact I].
Qed.
Theorem neighbench_fixed : forall m, len m <= flen -> fix_neigh (e_prop E) = true ->
  rspec (24 * flen) (fun p => 0 < fst p) m (neighbench_deserialize E m).
Proof.
  intros m Hm HN. unfold neighbench_deserialize, with_options. apply opt_tail_spec; [apply tail_ints_reads|].
  pose proof (aneigh_spec m Hm HN) as H. unfold neighbench_core, rspec in *.
  destruct (aneigh_deserialize E m) as [o m1|b]; cbn [bind]; [|contradiction]. destruct H as [H1 [H2 H3]].
  destruct o as [ndim|]; [|split; [lia|split; [lia|exact I]]].
  pose proof (read_double_reads m1) as R. destruct (read_double m1) as [ow m2|b]; cbn [bind reads] in *; [|contradiction].
  destruct R as [L2 G2]. destruct ow; (split; [lia|split; [lia|]]); [cbn [fst]; lia|exact I].
Qed.
Theorem neighcell_fixed : forall m, len m <= flen -> fix_neigh (e_prop E) = true ->
  rspec (24 * flen) (fun p => 0 < fst p) m (neighcell_deserialize E m).
Proof.
  intros m Hm HN. unfold neighcell_deserialize, with_options. apply opt_tail_spec; [apply tail_ints_reads|].
  pose proof (aneigh_spec m Hm HN) as H. unfold neighcell_core, rspec in *.
  destruct (aneigh_deserialize E m) as [o m1|b]; cbn [bind]; [|contradiction]. destruct H as [H1 [H2 H3]].
  destruct o as [ndim|]; [|split; [lia|split; [lia|exact I]]].
  pose proof (read_int_reads m1) as R. destruct (read_int m1) as [ow m2|b]; cbn [bind reads] in *; [|contradiction].
  destruct R as [L2 G2]. destruct ow; (split; [lia|split; [lia|]]); [cbn [fst]; lia|exact I].
Qed.

Theorem neighimage_fixed : forall m, len m <= flen -> fix_neigh (e_prop E) = true ->
  rspec (28 * flen) (fun p => 0 < fst (fst p) /\ zlen (snd p) = fst (fst p)) m (neighimage_deserialize E m).
Proof.
  intros m Hm HN. unfold neighimage_deserialize, with_options. apply opt_tail_spec; [apply tail_ints_reads|].
  pose proof (aneigh_spec m Hm HN) as H. unfold neighimage_core, rspec in *. unfold alloc_bound in Hcap.
  destruct (aneigh_deserialize E m) as [o m1|b]; cbn [bind]; [|contradiction]. destruct H as [H1 [H2 H3]].
  destruct o as [ndim|]; [|split; [lia|split; [lia|exact I]]].
  pose proof (read_int_reads m1) as R. destruct (read_int m1) as [os m2|b]; cbn [bind reads] in *; [|contradiction].
  destruct R as [L2 G2]. destruct os as [skip|]; [|split; [lia|split; [lia|exact I]]].
  rewrite alloc_ok by lia. cbn [bind].
  set (m3 := mkM _ _). assert (L3 : len m3 = len m2) by reflexivity. assert (G3 : galloc m3 = galloc m2 + ndim * 4) by reflexivity.
  pose proof (read_doubles_spec (e_fuel E) ndim 0 [] m3 ltac:(lia) ltac:(lia)) as RD. unfold loop_post in RD.
  destruct (read_doubles (e_fuel E) ndim 0 [] m3) as [orad m4|b]; cbn [bind]; [|contradiction].
  destruct RD as [L4 [G4 W4]]. destruct orad as [rad|]; (split; [lia|split; [lia|]]); [|exact I].
  cbn [fst snd]. split; [lia|]. unfold zlen in *. simpl in W4. lia.
Qed.

(* ---- AnamHermite (the code as it is now) *)
Theorem anamh_fixed : forall m, len m <= flen -> rspec (16 * flen) wf_anamh m (anamh_deserialize E m).
Proof.
  clear Hfl.
  intros m Hm. unfold anamh_deserialize. apply opt_tail_spec; [apply tail_ints_reads|].
  unfold anamh_core, rspec. unfold alloc_bound in Hcap.
  assert (Hlm : 0 <= len m) by (unfold len; lia).
  pose proof (read_doubles_spec 10 10 0 [] m ltac:(lia) ltac:(simpl; lia)) as R0. unfold loop_post in R0.
  destruct (read_doubles 10 10 0 [] m) as [ob m1|b]; cbn [bind]; [|contradiction].
  destruct R0 as [L1 [G1 W1]]. destruct ob as [bounds|]; [|split; [lia|split; [lia|exact I]]].
  pose proof (read_double_reads m1) as R2. destruct (read_double m1) as [orr m2|b]; cbn [bind reads] in *; [|contradiction].
  destruct R2 as [L2 G2]. destruct orr as [r|]; [|split; [lia|split; [lia|exact I]]].
  pose proof (read_int_reads m2) as R3. destruct (read_int m2) as [onb m3|b]; cbn [bind reads] in *; [|contradiction].
  destruct R3 as [L3 G3]. destruct onb as [nb|]; [|split; [lia|split; [lia|exact I]]].
  destruct ((nb <=? 0) || negb (count_ok E nb m3)) eqn:CK; [split; [lia|split; [lia|exact I]]|].
  apply orb_false_iff in CK. destruct CK as [C0 CK]. apply Z.leb_gt in C0. apply negb_false_iff in CK.
  apply count_ok_fixed in CK; [|assumption].
  rewrite alloc_ok by lia. cbn [bind]. rewrite alloc_ok by (simpl; lia). cbn [bind].
  unfold read_vec. rewrite alloc_ok by (simpl; lia). cbn [bind].
  set (m5 := mkM _ _).
  assert (L5 : len m5 = len m3) by reflexivity.
  assert (G5 : galloc m5 = galloc m3 + nb * 8 + nb * 8 + nb * 0) by reflexivity.
  pose proof (read_vec_raw_fixed E 61 nb 0 nb m5 HFS ltac:(lia) ltac:(lia)) as HV. unfold vec_post in HV.
  destruct (read_vec_raw E 61 nb 0 nb m5) as [ows m6|b]; cbn [bind]; [|contradiction].
  destruct HV as [V1 [V2 V3]]. destruct ows as [ws|]; (split; [lia|split; [lia|]]); [|exact I].
  destruct V3 as [V3 _]. unfold wf_anamh. cbn [ah_psi ah_bounds]. unfold zlen in *. rewrite map_length. simpl in W1. lia.
Qed.
End Fixed.

(* C09 proofs, part 5: Db::_deserialize (also as the second half of DbGrid::_deserialize) with the candidate fixes. *)
From Coq Require Import List ZArith QArith Bool Lia Arith.
From Gst Require Import C09.Model C09.Readers C09.Spec C09.Proofs_prim C09.Proofs_loc.
Import ListNotations.
Local Open Scope Z_scope.

Lemma wrap32_small : forall z, -2147483648 <= z < 2147483648 -> wrap32 z = z.
Proof. intros z H. unfold wrap32. rewrite Z.mod_small by lia. lia. Qed.

Lemma zseq_length : forall n, zlen (zseq n) = Z.max n 0.
Proof. intros. unfold zlen, zseq. rewrite map_length, seq_length. lia. Qed.
Lemma flat_map_const_length : forall A B (f : A -> list B) (l : list A) k,
  (forall a, length (f a) = k) -> length (flat_map f l) = (length l * k)%nat.
Proof.
  intros A B f l k H. induction l as [|x l IH]; simpl; [reflexivity|]. rewrite app_length, H, IH. reflexivity.
Qed.
Lemma load_data_length : forall ncol nech tab, 0 <= ncol -> 0 <= nech -> zlen (load_data ncol nech tab) = ncol * nech.
Proof.
  intros ncol nech tab H1 H2. unfold load_data, zlen.
  rewrite (flat_map_const_length _ _ _ _ (Z.to_nat nech)).
  - unfold zseq. rewrite map_length, seq_length. nia.
  - intros a. unfold zseq. rewrite !map_length, seq_length. reflexivity.
Qed.

Lemma decode_locs_spec : forall l tab, decode_locs l = Some tab ->
  length tab = length l /\ Forall (fun p => 0 <= snd p) tab.
Proof.
  induction l as [|w l IH]; intros tab H; simpl in H.
  - inversion H; subst. split; [reflexivity|constructor].
  - destruct (locator_identify w) as [[err typ] idx] eqn:LI. destruct err; [discriminate|].
    destruct (decode_locs l) as [t|] eqn:D; [|discriminate]. inversion H; subst.
    destruct (IH t eq_refl) as [I1 I2]. split; [simpl; congruence|]. constructor; [|assumption].
    simpl. unfold locator_identify in LI.
    destruct (find_loc loc_table 0 (map tolower w)) as [[[i sref] uniq]|].
    + destruct (uniq && (1 <? (if is_nil (skipn (length sref) (map tolower w)) then -1 else atoi (skipn (length sref) (map tolower w))))).
      * inversion LI.
      * inversion LI; subst. lia.
    + inversion LI; subst. lia.
Qed.

Section Fixed.
Variable E : env.
Variable flen : Z.
Hypothesis Hcfg : e_cfg E = cfg_fixed.
Hypothesis Hflen : 0 <= flen < 2147483648.
Hypothesis Hfuel : flen < Z.of_nat (e_fuel E).
Hypothesis Hcap : alloc_bound flen <= e_cap E.

Let HFS : fix_store (e_cfg E) = true. Proof. rewrite Hcfg; reflexivity. Qed.
Let HFC : fix_counts (e_cfg E) = true. Proof. rewrite Hcfg; reflexivity. Qed.
Let HFL : fix_loc (e_cfg E) = true. Proof. rewrite Hcfg; reflexivity. Qed.
Let HFG : fix_grid (e_cfg E) = true. Proof. rewrite Hcfg; reflexivity. Qed.

Lemma rows_loop_spec : forall fuel nech ncol iech acc m,
  0 <= ncol -> 0 <= iech <= nech -> nech - iech < Z.of_nat fuel ->
  match rows_loop E fuel nech ncol (nech * ncol) iech (iech * ncol) acc m with
  | Ret o m' => len m' <= len m /\ galloc m' = galloc m
  | Bad _ => False
  end.
Proof.
  induction fuel as [|f IH]; intros nech ncol iech acc m Hc Hi Hf; cbn [rows_loop].
  - destruct (iech <? nech) eqn:C; [apply Z.ltb_lt in C; simpl in Hf; lia|]. split; [lia|reflexivity].
  - destruct (iech <? nech) eqn:C; [|split; [lia|reflexivity]].
    apply Z.ltb_lt in C.
    pose proof (read_vec_raw_fixed E 14 ncol (iech * ncol) (nech * ncol) m HFS) as HV.
    destruct (read_vec_raw E 14 ncol (iech * ncol) (nech * ncol) m) as [orow m1|b]; cbn [bind vec_post] in *; [|apply HV; nia].
    destruct HV as [V1 [V2 V3]]; [nia|nia|].
    destruct orow as [ws|]; [|split; [lia|assumption]].
    replace (iech * ncol + ncol) with ((iech + 1) * ncol) by ring.
    specialize (IH nech ncol (iech + 1) (frev ws ++ acc) m1 Hc ltac:(lia) ltac:(lia)).
    destruct (rows_loop E f nech ncol (nech * ncol) (iech + 1) ((iech + 1) * ncol) (frev ws ++ acc) m1) as [o m'|b]; [|contradiction].
    destruct IH as [I1 I2]. split; [lia|congruence].
Qed.

Lemma apply_cols_spec : forall ncol names tab i cur locs m,
  0 <= i -> i + zlen names <= ncol -> length tab = length names -> Forall (fun p => 0 <= snd p) tab ->
  zlen cur = ncol -> (ncol + 1) * 4 <= e_cap E -> LI i locs ->
  match apply_cols E ncol i names tab cur locs m with
  | Ret nl m' => ms m' = ms m /\ galloc m <= galloc m' <= galloc m + 4 * zlen names /\
                 zlen (fst nl) = ncol /\ LI (i + zlen names) (snd nl)
  | Bad _ => False
  end.
Proof.
  intros ncol. induction names as [|nm names IH]; intros tab i cur locs m Hi Hn Hl Ht Hc Hcp HL; cbn [apply_cols].
  - unfold zlen; simpl. destruct tab; (split; [reflexivity|split; [lia|split; [assumption|]]]); replace (i + 0) with i by lia; assumption.
  - destruct tab as [|[typ idx] tab]; [simpl in Hl; discriminate|].
    unfold zlen in Hn; simpl length in Hn.
    destruct (set_name_total cur (Z.to_nat i) nm) as [cur' [HS1 HS2]]; [unfold zlen in Hc; lia|].
    rewrite HS1. apply Forall_cons_iff in Ht. destruct Ht as [H1 H2]. simpl in H1.
    pose proof (set_locator_fixed E ncol locs i typ idx m HFL ltac:(lia) H1 Hcp HL) as HSL.
    destruct (set_locator E ncol locs i typ idx m) as [locs' m1|b]; cbn [bind]; [|contradiction].
    destruct HSL as [S1 [S2 S3]].
    specialize (IH tab (i + 1) cur' locs' m1 ltac:(lia) ltac:(unfold zlen; lia) ltac:(simpl in Hl; lia) H2
                   ltac:(unfold zlen in *; lia) Hcp S3).
    destruct (apply_cols E ncol (i + 1) names tab cur' locs' m1) as [nl m'|b]; [|contradiction].
    destruct IH as [I1 [I2 [I3 I4]]]. unfold zlen in *. simpl length.
    split; [congruence|split; [lia|split; [assumption|]]].
    replace (i + Z.of_nat (S (length names))) with (i + 1 + Z.of_nat (length names)) by lia. assumption.
Qed.

(* the guard [gt]: for a DbGrid, the 32-bit grid size is the wrap of the exact product *)
Definition gt_ok (gt : option (Z * Z)) : Prop :=
  match gt with Some (n32, ex) => n32 = wrap32 ex | None => True end.
Definition wf_db_gt (gt : option (Z * Z)) (d : db) : Prop :=
  wf_db d /\ match gt with Some (_, ex) => d_nech d = ex | None => True end.

Theorem db_fixed : forall gt m, gt_ok gt -> len m <= flen ->
  rspec (128 * flen) (wf_db_gt gt) m (db_deserialize E gt m).
Proof.
  intros gt m Hgt Hm. unfold db_deserialize, rspec. unfold alloc_bound in Hcap.
  assert (Hlm : 0 <= len m) by (unfold len; lia).
  pose proof (read_int_reads m) as R1. destruct (read_int m) as [oncol m1|b]; cbn [bind reads] in *; [|contradiction].
  destruct R1 as [L1 G1]. destruct oncol as [ncol|]; [|split; [lia|split; [lia|exact I]]].
  pose proof (read_int_reads m1) as R2. destruct (read_int m1) as [onech m2|b]; cbn [bind reads] in *; [|contradiction].
  destruct R2 as [L2 G2]. destruct onech as [nech|]; [|split; [lia|split; [lia|exact I]]].
  destruct (db_counts_ok E ncol nech m2) eqn:CK; cbn [negb]; [|split; [lia|split; [lia|exact I]]].
  unfold db_counts_ok in CK. apply andb_true_iff in CK. destruct CK as [CK C3]. apply andb_true_iff in CK. destruct CK as [C1 C2].
  apply count_ok_fixed in C1; [|assumption]. apply count_ok_fixed in C2; [|assumption]. apply count_ok_fixed in C3; [|assumption].
  (* locators *)
  assert (HL : match (if 0 <? ncol then read_vec E 11 32 ncol m2 else Ret (Some []) m2) with
               | Ret o m3 => len m3 <= len m2 /\ galloc m2 <= galloc m3 <= galloc m2 + 32 * ncol /\
                             match o with Some ws => zlen ws = ncol | None => True end
               | Bad _ => False end).
  { destruct (0 <? ncol) eqn:CN.
    - unfold read_vec. rewrite alloc_ok by lia. cbn [bind].
      pose proof (read_vec_raw_fixed E 11 ncol 0 ncol (mkM (ms m2) (galloc m2 + ncol * 32)) HFS ltac:(lia) ltac:(lia)) as HV.
      destruct (read_vec_raw E 11 ncol 0 ncol (mkM (ms m2) (galloc m2 + ncol * 32))) as [o m3|b]; cbn [vec_post] in *; [|contradiction].
      destruct HV as [V1 [V2 V3]]. split; [exact V1|split; [simpl in V2; lia|]]. destruct o; [unfold zlen; lia|exact I].
    - apply Z.ltb_ge in CN. split; [lia|split; [lia|]]. unfold zlen; simpl. lia. }
  destruct (if 0 <? ncol then read_vec E 11 32 ncol m2 else Ret (Some []) m2) as [olocs m3|b]; cbn [bind]; [|contradiction].
  destruct HL as [L3 [G3 W3]].
  (* names *)
  assert (HN : match (match olocs with
                      | Some _ => if 0 <? ncol then read_vec E 12 32 ncol m3 else Ret (Some []) m3
                      | None => Ret None m3 end) with
               | Ret o m4 => len m4 <= len m3 /\ galloc m3 <= galloc m4 <= galloc m3 + 32 * ncol /\
                             match o with Some ws => zlen ws = ncol | None => True end
               | Bad _ => False end).
  { destruct olocs; [|split; [lia|split; [lia|exact I]]].
    destruct (0 <? ncol) eqn:CN.
    - unfold read_vec. rewrite alloc_ok by lia. cbn [bind].
      pose proof (read_vec_raw_fixed E 12 ncol 0 ncol (mkM (ms m3) (galloc m3 + ncol * 32)) HFS ltac:(lia) ltac:(lia)) as HV.
      destruct (read_vec_raw E 12 ncol 0 ncol (mkM (ms m3) (galloc m3 + ncol * 32))) as [o m4|b]; cbn [vec_post] in *; [|contradiction].
      destruct HV as [V1 [V2 V3]]. split; [exact V1|split; [simpl in V2; lia|]]. destruct o; [unfold zlen; lia|exact I].
    - apply Z.ltb_ge in CN. split; [lia|split; [lia|]]. unfold zlen; simpl. lia. }
  destruct (match olocs with
            | Some _ => if 0 <? ncol then read_vec E 12 32 ncol m3 else Ret (Some []) m3
            | None => Ret None m3 end) as [onames m4|b]; cbn [bind]; [|contradiction].
  destruct HN as [L4 [G4 W4]].
  (* allvalues *)
  assert (HT : wrap32 (nech * ncol) = nech * ncol) by (apply wrap32_small; nia).
  rewrite HT. replace (ncol * nech) with (nech * ncol) in C3 by ring.
  rewrite alloc_ok by lia. cbn [bind].
  set (m5 := mkM (ms m4) (galloc m4 + nech * ncol * 8)).
  assert (L5 : len m5 = len m4) by reflexivity. assert (G5 : galloc m5 = galloc m4 + nech * ncol * 8) by reflexivity.
  destruct olocs as [locs|]; [|split; [lia|split; [lia|exact I]]].
  destruct onames as [names|]; [|split; [lia|split; [lia|exact I]]].
  pose proof (rows_loop_spec (e_fuel E) nech ncol 0 [] m5 ltac:(lia) ltac:(lia) ltac:(lia)) as HR.
  replace (0 * ncol) with 0 in HR by ring.
  destruct (rows_loop E (e_fuel E) nech ncol (nech * ncol) 0 0 [] m5) as [orows m6|b]; cbn [bind]; [|contradiction].
  destruct HR as [L6 G6].
  destruct orows as [ws|]; [|split; [lia|split; [lia|exact I]]].
  destruct (decode_locs locs) as [tab|] eqn:DL; [|rewrite HFL; split; [lia|split; [lia|exact I]]].
  rewrite HFG. cbn [andb].
  destruct (match gt with Some (_, exact) => negb (nech =? exact) | None => false end) eqn:CG;
    [split; [lia|split; [lia|exact I]]|].
  (* nech' = nech *)
  assert (HN' : (match gt with Some (n32, _) => n32 | None => nech end) = nech).
  { destruct gt as [[n32 ex]|]; [|reflexivity]. apply negb_false_iff in CG. apply Z.eqb_eq in CG. subst ex.
    simpl in Hgt. rewrite Hgt. apply wrap32_small. lia. }
  rewrite HN'. rewrite HT.
  rewrite alloc_ok by lia. cbn [bind].
  assert (HA2 : match (if 0 <? nech * ncol then alloc E 15 (nech * ncol) 8 (mkM (ms m6) (galloc m6 + ncol * 36)) else Ret tt (mkM (ms m6) (galloc m6 + ncol * 36))) with
                | Ret _ m8 => ms m8 = ms m6 /\ galloc m6 + ncol * 36 <= galloc m8 <= galloc m6 + ncol * 36 + nech * ncol * 8
                | Bad _ => False end).
  { destruct (0 <? nech * ncol); [rewrite alloc_ok by (simpl; lia)|]; simpl; (split; [reflexivity|lia]). }
  destruct (if 0 <? nech * ncol then alloc E 15 (nech * ncol) 8 (mkM (ms m6) (galloc m6 + ncol * 36)) else Ret tt (mkM (ms m6) (galloc m6 + ncol * 36))) as [u m8|b];
    cbn [bind]; [|contradiction].
  destruct HA2 as [S8 G8].
  replace ((0 <? ncol) && (0 <? nech * ncol) && (0 <? nech) && (nech * ncol <? ncol * nech)) with false
    by (symmetry; apply andb_false_iff; right; apply Z.ltb_ge; lia).
  replace ((0 <? ncol) && (0 <? nech * ncol) && (0 <? nech) && negb (nech * ncol =? nech * ncol)) with false
    by (symmetry; rewrite Z.eqb_refl; simpl; apply andb_false_r).
  destruct (decode_locs_spec _ _ DL) as [DT1 DT2].
  pose proof (apply_cols_spec ncol names tab 0 (map new_name (map (Z.add 1) (zseq ncol))) no_loc m8
                ltac:(lia) ltac:(lia) ltac:(unfold zlen in *; lia) DT2
                ltac:(unfold zlen; rewrite !map_length; pose proof (zseq_length ncol); unfold zlen in *; lia)
                ltac:(lia) LI_init) as HAC.
  destruct (apply_cols E ncol 0 names tab (map new_name (map (Z.add 1) (zseq ncol))) no_loc m8) as [nl m9|b]; cbn [bind]; [|contradiction].
  destruct HAC as [A1 [A2 [A3 A4]]].
  assert (len m9 = len m6) by (unfold len; rewrite A1, S8; reflexivity).
  split; [lia|split; [rewrite W4 in A2; lia|]].
  unfold wf_db_gt, wf_db. cbn [d_ncol d_nech d_names d_uidcol d_loc d_array].
  destruct A4 as [B1 [B2 B3]]. replace (0 + zlen names) with ncol in B3 by lia.
  split.
  - split; [lia|split; [lia|split; [assumption|split; [reflexivity|split; [|split; [assumption|split; assumption]]]]]].
    destruct ((0 <? ncol) && (0 <? nech * ncol) && (0 <? nech)) eqn:CA.
    + apply load_data_length; lia.
    + destruct (0 <? nech * ncol) eqn:CP.
      * unfold zlen. rewrite repeat_length. apply Z.ltb_lt in CP. lia.
      * apply Z.ltb_ge in CP. unfold zlen; simpl. nia.
  - destruct gt as [[n32 ex]|]; [|exact I]. apply negb_false_iff in CG. apply Z.eqb_eq in CG. congruence.
Qed.
End Fixed.

(* C09 proofs, part 5: Db::_deserialize (also as the second half of DbGrid::_deserialize) (the flags of cfg select the fixes; all on = the code as it is now). *)
From Coq Require Import List ZArith QArith Bool Lia Arith.
From Gst Require Import C09.Model C09.Readers C09.Spec C09.Proofs_prim C09.Proofs_loc.
Import ListNotations.
Local Open Scope Z_scope.

Lemma wrap32_small : forall z, -2147483648 <= z < 2147483648 -> wrap32 z = z.
Proof. intros z H. unfold wrap32. rewrite Z.mod_small by lia. lia. Qed.

Lemma zseq_length : forall n, zlen (zseq n) = Z.max n 0.
Proof. intros. unfold zlen, zseq. rewrite map_length, seq_length. lia. Qed.
Lemma flat_map_const_length : forall A B (f : A -> list B) (l : list A) k,
  (forall a, length (f a) = k) -> length (flat_map f l) = (length l * k)%nat.
Proof.
  intros A B f l k H. induction l as [|x l IH]; simpl; [reflexivity|]. rewrite app_length, H, IH. reflexivity.
Qed.
Lemma load_data_length : forall ncol nech tab, 0 <= ncol -> 0 <= nech -> zlen (load_data ncol nech tab) = ncol * nech.
Proof.
  intros ncol nech tab H1 H2. unfold load_data, zlen.
  rewrite (flat_map_const_length _ _ _ _ (Z.to_nat nech)).
  - unfold zseq. rewrite map_length, seq_length. nia.
  - intros a. unfold zseq. rewrite !map_length, seq_length. reflexivity.
Qed.

Lemma find_loc_bound : forall tbl i s j sref u, find_loc tbl i s = Some (j, sref, u) -> i <= j < i + zlen tbl.
Proof.
  induction tbl as [|[sr un] tbl IH]; intros i s j sref u H; simpl in H; [discriminate|].
  unfold zlen in *. simpl length. destruct (is_prefix sr s).
  - inversion H; subst. lia.
  - apply IH in H. lia.
Qed.
Lemma decode_locs_spec : forall l tab, decode_locs l = Some tab ->
  length tab = length l /\ Forall (fun p => fst p < 29 /\ 0 <= snd p) tab.
Proof.
  induction l as [|w l IH]; intros tab H; simpl in H.
  - inversion H; subst. split; [reflexivity|constructor].
  - destruct (locator_identify w) as [[err typ] idx] eqn:LI. destruct err; [discriminate|].
    destruct (decode_locs l) as [t|] eqn:D; [|discriminate]. inversion H; subst.
    destruct (IH t eq_refl) as [I1 I2]. split; [simpl; congruence|]. constructor; [|assumption].
    simpl. unfold locator_identify in LI.
    destruct (find_loc loc_table 0 (map tolower w)) as [[[i sref] uniq]|] eqn:FL.
    + apply find_loc_bound in FL. unfold zlen in FL. simpl in FL.
      destruct (uniq && (1 <? (if is_nil (skipn (length sref) (map tolower w)) then -1 else atoi (skipn (length sref) (map tolower w))))).
      * inversion LI.
      * inversion LI; subst. lia.
    + inversion LI; subst. lia.
Qed.

(* ------------------------------------------------------------------ the check of fixes/C09_5 implies the invariant *)
Fixpoint decl_from (i : Z) (tab : list (Z * Z)) : list Z :=
  match tab with
  | [] => []
  | (t, k) :: r => if 0 <=? t then i :: decl_from (i + 1) r else decl_from (i + 1) r
  end.
Lemma decl_from_len : forall tab i, zlen (decl_from i tab) = declared tab.
Proof.
  unfold declared, zlen. intros tab i. f_equal. revert i.
  induction tab as [|[t k] r IH]; intros i; simpl; [reflexivity|].
  destruct (0 <=? t); simpl; rewrite (IH (i + 1)); reflexivity.
Qed.
Lemma decl_from_range : forall tab i u, In u (decl_from i tab) -> i <= u < i + zlen tab.
Proof.
  unfold zlen. induction tab as [|[t k] r IH]; intros i u H; simpl in H; [contradiction|]. simpl length.
  destruct (0 <=? t); [destruct H as [H|H]; [lia|]|]; apply IH in H; lia.
Qed.
Lemma decl_from_NoDup : forall tab i, NoDup (decl_from i tab).
Proof.
  induction tab as [|[t k] r IH]; intros i; simpl; [constructor|].
  destruct (0 <=? t); [|apply IH]. constructor; [|apply IH]. intro H. apply decl_from_range in H. lia.
Qed.
Lemma in_concat_nth : forall (ls : list (list Z)) k u, In u (nth k ls []) -> In u (concat ls).
Proof.
  induction ls as [|l ls IH]; intros [|k] u H; simpl in *; try contradiction.
  - apply in_or_app. left. assumption.
  - apply in_or_app. right. eapply IH. eassumption.
Qed.
Lemma nth_not_default_In : forall (l : list Z) k d, nth k l d <> d -> In (nth k l d) l.
Proof. intros l k d H. destruct (le_lt_dec (length l) k); [rewrite nth_overflow in H by assumption; congruence|apply nth_In; assumption]. Qed.
Lemma post_cols_incl : forall tab locs i, 0 <= i -> post_cols locs i tab = true -> incl (decl_from i tab) (concat locs).
Proof.
  induction tab as [|[t k] r IH]; intros locs i Hi H; simpl in *; [intros x Hx; contradiction|].
  apply andb_true_iff in H. destruct H as [H1 H2]. specialize (IH locs (i + 1) ltac:(lia) H2).
  destruct (0 <=? t) eqn:CT; [|exact IH].
  apply Z.leb_le in CT. replace (t <? 0) with false in H1 by (symmetry; apply Z.ltb_ge; lia). simpl in H1.
  apply Z.eqb_eq in H1. intros x [Hx|Hx]; [|apply IH; assumption]. subst x.
  rewrite znth_nth in H1 by assumption. unfold entry_at, znth in H1.
  destruct (zlen (nth (Z.to_nat t) locs []) <=? k); [lia|]. destruct (k <? 0); [lia|].
  eapply in_concat_nth. rewrite <- H1 at 1. apply nth_not_default_In. lia.
Qed.
Lemma post_ok_wf : forall tab locs ncol, post_ok tab locs = true -> zlen tab = ncol ->
  NoDup (concat locs) /\ Forall (fun u => 0 <= u < ncol) (concat locs).
Proof.
  intros tab locs ncol H HT. unfold post_ok in H. apply andb_true_iff in H. destruct H as [H1 H2].
  apply Z.eqb_eq in H2. pose proof (post_cols_incl _ _ 0 ltac:(lia) H1) as HI.
  pose proof (decl_from_NoDup tab 0) as ND. pose proof (decl_from_len tab 0) as DL.
  assert (HLen : (length (concat locs) <= length (decl_from 0 tab))%nat) by (unfold zlen in *; lia).
  split.
  - eapply NoDup_incl_NoDup; eassumption.
  - pose proof (NoDup_length_incl ND HLen HI) as HI2. apply Forall_forall. intros u Hu.
    apply HI2 in Hu. apply decl_from_range in Hu. lia.
Qed.

Section Fixed.
Variable E : env.
Variable flen : Z.
Hypothesis Hcfg : cfg_ge_now (e_cfg E).
Hypothesis Hflen : 0 <= flen < 2147483648.
Hypothesis Hfuel : flen < Z.of_nat (e_fuel E).
Hypothesis Hcap : alloc_bound flen <= e_cap E.

Let HFS : fix_store (e_cfg E) = true. Proof. destruct Hcfg as [H1 [H2 [H3 H4]]]; assumption. Qed.
Let HFC : fix_counts (e_cfg E) = true. Proof. destruct Hcfg as [H1 [H2 [H3 H4]]]; assumption. Qed.
Let HFL : fix_locfail (e_cfg E) = true. Proof. destruct Hcfg as [H1 [H2 [H3 H4]]]; assumption. Qed.
Let HFG : fix_grid (e_cfg E) = true. Proof. destruct Hcfg as [H1 [H2 [H3 H4]]]; assumption. Qed.

Lemma rows_loop_spec : forall fuel nech ncol iech acc m,
  0 <= ncol -> 0 <= iech <= nech -> nech - iech < Z.of_nat fuel ->
  match rows_loop E fuel nech ncol (nech * ncol) iech (iech * ncol) acc m with
  | Ret o m' => len m' <= len m /\ galloc m' = galloc m
  | Bad _ => False
  end.
Proof.
  induction fuel as [|f IH]; intros nech ncol iech acc m Hc Hi Hf; cbn [rows_loop].
  - destruct (iech <? nech) eqn:C; [apply Z.ltb_lt in C; simpl in Hf; lia|]. split; [lia|reflexivity].
  - destruct (iech <? nech) eqn:C; [|split; [lia|reflexivity]].
    apply Z.ltb_lt in C.
    pose proof (read_vec_raw_fixed E 14 ncol (iech * ncol) (nech * ncol) m HFS) as HV.
    destruct (read_vec_raw E 14 ncol (iech * ncol) (nech * ncol) m) as [orow m1|b]; cbn [bind vec_post] in *; [|apply HV; nia].
    destruct HV as [V1 [V2 V3]]; [nia|nia|].
    destruct orow as [ws|]; [|split; [lia|assumption]].
    replace (iech * ncol + ncol) with ((iech + 1) * ncol) by ring.
    specialize (IH nech ncol (iech + 1) (frev ws ++ acc) m1 Hc ltac:(lia) ltac:(lia)).
    destruct (rows_loop E f nech ncol (nech * ncol) (iech + 1) ((iech + 1) * ncol) (frev ws ++ acc) m1) as [o m'|b]; [|contradiction].
    destruct IH as [I1 I2]. split; [lia|congruence].
Qed.

Lemma apply_locs_spec : forall ncol tab i locs m,
  0 <= i -> i + zlen tab <= ncol -> Forall (fun p => fst p < 29 /\ 0 <= snd p) tab ->
  length locs = 29%nat -> Forall (fun u => 0 <= u < i) (concat locs) ->
  match apply_locs E ncol i tab locs m with
  | Ret locs' m' => ms m' = ms m /\ length locs' = 29%nat /\
                 Forall (fun u => 0 <= u < i + zlen tab) (concat locs') /\
                 galloc m' = galloc m + 4 * (zlen (concat locs') - zlen (concat locs)) /\
                 zlen (concat locs) <= zlen (concat locs') /\
                 (forall b, Forall (fun l => zlen l <= b) locs -> Forall (fun p => snd p < b) tab ->
                            Forall (fun l => zlen l <= b) locs')
  | Bad b => is_throw16 b = true /\ ~ Forall (fun p => (snd p + 1) * 4 <= e_cap E) tab
  end.
Proof.
  intros ncol. induction tab as [|[typ idx] tab IH]; intros i locs m Hi Hn Ht HL F; cbn [apply_locs].
  - replace (i + zlen (@nil (Z * Z))) with i by (unfold zlen; simpl; lia).
    split; [reflexivity|split; [assumption|split; [assumption|split; [lia|split; [lia|]]]]]. intros; assumption.
  - unfold zlen in Hn; simpl length in Hn.
    apply Forall_cons_iff in Ht. destruct Ht as [[H0 H1] H2]. simpl in H0, H1.
    pose proof (set_locator_spec E ncol locs i typ idx m ltac:(lia) H1 H0 HL F) as HSL.
    destruct (set_locator E ncol locs i typ idx m) as [locs' m1|b]; cbn [bind].
    + destruct HSL as [S1 [S2 [S3 [S4 [S5 S6]]]]].
      specialize (IH (i + 1) locs' m1 ltac:(lia) ltac:(unfold zlen; lia) H2 S2 S3).
      destruct (apply_locs E ncol (i + 1) tab locs' m1) as [nl m'|b].
      * destruct IH as [I1 [I3 [I4 [I5 [I6 I7]]]]]. unfold zlen in *. simpl length.
        split; [congruence|split; [assumption|split; [|split; [lia|split; [lia|]]]]].
        -- replace (i + Z.of_nat (S (length tab))) with (i + 1 + Z.of_nat (length tab)) by lia. assumption.
        -- intros b Hb Hr. apply Forall_cons_iff in Hr. destruct Hr as [Hr1 Hr2]. simpl in Hr1.
           apply I7; [apply S6; assumption|assumption].
      * destruct IH as [IH1 IH2]. split; [assumption|].
        intro HF. apply IH2. apply Forall_cons_iff in HF. destruct HF; assumption.
    + destruct HSL as [HB1 HB2]. split; [assumption|].
      intro HF. apply Forall_cons_iff in HF. destruct HF as [HF _]. simpl in HF. lia.
Qed.

(* the guard [gt]: for a DbGrid, the 32-bit grid size is the wrap of the exact product *)
Definition gt_ok (gt : option (Z * Z)) : Prop :=
  match gt with Some (n32, ex) => n32 = wrap32 ex | None => True end.
Definition wf_db_gt (gt : option (Z * Z)) (d : db) : Prop :=
  wf_db d /\ match gt with Some (_, ex) => d_nech d = ex | None => True end.

(* before fixes/C09_5 (fix_rank = false) the reader may use a locator rank as a size (Throw 1 16) and return role lists with
   fillers; with fixes/C09_5 (fix_rank = true) allocation is bounded and the object is well formed *)
Definition dspec (gt : option (Z * Z)) (m : mon) (r : res (option db)) : Prop :=
  match r with
  | Ret o m' => len m' <= len m /\ galloc m <= galloc m' /\
                (fix_rank (e_cfg E) = true -> galloc m' <= galloc m + 240 * flen) /\
                match o with Some d => fix_rank (e_cfg E) = true -> wf_db_gt gt d | None => True end
  | Bad b => is_throw16 b = true /\ fix_rank (e_cfg E) = false
  end.
Ltac early := split; [lia|split; [lia|split; [intros _; lia|exact I]]].

Theorem db_spec : forall gt m, gt_ok gt -> len m <= flen -> dspec gt m (db_deserialize E gt m).
Proof.
  intros gt m Hgt Hm. unfold db_deserialize, dspec. unfold alloc_bound in Hcap.
  assert (Hlm : 0 <= len m) by (unfold len; lia).
  pose proof (read_int_reads m) as R1. destruct (read_int m) as [oncol m1|b]; cbn [bind reads] in *; [|contradiction].
  destruct R1 as [L1 G1]. destruct oncol as [ncol|]; [|early].
  pose proof (read_int_reads m1) as R2. destruct (read_int m1) as [onech m2|b]; cbn [bind reads] in *; [|contradiction].
  destruct R2 as [L2 G2]. destruct onech as [nech|]; [|early].
  destruct (db_counts_ok E ncol nech m2) eqn:CK; cbn [negb]; [|early].
  unfold db_counts_ok in CK. apply andb_true_iff in CK. destruct CK as [CK C3]. apply andb_true_iff in CK. destruct CK as [C1 C2].
  apply count_ok_fixed in C1; [|assumption]. apply count_ok_fixed in C2; [|assumption]. apply count_ok_fixed in C3; [|assumption].
  (* locators *)
  assert (HL : match (if 0 <? ncol then read_vec E 11 32 ncol m2 else Ret (Some []) m2) with
               | Ret o m3 => len m3 <= len m2 /\ galloc m2 <= galloc m3 <= galloc m2 + 32 * ncol /\
                             match o with Some ws => zlen ws = ncol | None => True end
               | Bad _ => False end).
  { destruct (0 <? ncol) eqn:CN.
    - unfold read_vec. rewrite alloc_ok by lia. cbn [bind].
      pose proof (read_vec_raw_fixed E 11 ncol 0 ncol (mkM (ms m2) (galloc m2 + ncol * 32)) HFS ltac:(lia) ltac:(lia)) as HV.
      destruct (read_vec_raw E 11 ncol 0 ncol (mkM (ms m2) (galloc m2 + ncol * 32))) as [o m3|b]; cbn [vec_post] in *; [|contradiction].
      destruct HV as [V1 [V2 V3]]. split; [exact V1|split; [simpl in V2; lia|]]. destruct o; [unfold zlen; lia|exact I].
    - apply Z.ltb_ge in CN. split; [lia|split; [lia|]]. unfold zlen; simpl. lia. }
  destruct (if 0 <? ncol then read_vec E 11 32 ncol m2 else Ret (Some []) m2) as [olocs m3|b]; cbn [bind]; [|contradiction].
  destruct HL as [L3 [G3 W3]].
  (* names *)
  assert (HN : match (match olocs with
                      | Some _ => if 0 <? ncol then read_vec E 12 32 ncol m3 else Ret (Some []) m3
                      | None => Ret None m3 end) with
               | Ret o m4 => len m4 <= len m3 /\ galloc m3 <= galloc m4 <= galloc m3 + 32 * ncol /\
                             match o with Some ws => zlen ws = ncol | None => True end
               | Bad _ => False end).
  { destruct olocs; [|split; [lia|split; [lia|exact I]]].
    destruct (0 <? ncol) eqn:CN.
    - unfold read_vec. rewrite alloc_ok by lia. cbn [bind].
      pose proof (read_vec_raw_fixed E 12 ncol 0 ncol (mkM (ms m3) (galloc m3 + ncol * 32)) HFS ltac:(lia) ltac:(lia)) as HV.
      destruct (read_vec_raw E 12 ncol 0 ncol (mkM (ms m3) (galloc m3 + ncol * 32))) as [o m4|b]; cbn [vec_post] in *; [|contradiction].
      destruct HV as [V1 [V2 V3]]. split; [exact V1|split; [simpl in V2; lia|]]. destruct o; [unfold zlen; lia|exact I].
    - apply Z.ltb_ge in CN. split; [lia|split; [lia|]]. unfold zlen; simpl. lia. }
  destruct (match olocs with
            | Some _ => if 0 <? ncol then read_vec E 12 32 ncol m3 else Ret (Some []) m3
            | None => Ret None m3 end) as [onames m4|b]; cbn [bind]; [|contradiction].
  destruct HN as [L4 [G4 W4]].
  (* allvalues *)
  assert (HT : wrap32 (nech * ncol) = nech * ncol) by (apply wrap32_small; nia).
  rewrite HT. replace (ncol * nech) with (nech * ncol) in C3 by ring.
  rewrite alloc_ok by lia. cbn [bind].
  set (m5 := mkM (ms m4) (galloc m4 + nech * ncol * 8)).
  assert (L5 : len m5 = len m4) by reflexivity. assert (G5 : galloc m5 = galloc m4 + nech * ncol * 8) by reflexivity.
  destruct olocs as [locs|]; [|early].
  destruct onames as [names|]; [|early].
  pose proof (rows_loop_spec (e_fuel E) nech ncol 0 [] m5 ltac:(lia) ltac:(lia) ltac:(lia)) as HR.
  replace (0 * ncol) with 0 in HR by ring.
  destruct (rows_loop E (e_fuel E) nech ncol (nech * ncol) 0 0 [] m5) as [orows m6|b]; cbn [bind]; [|contradiction].
  destruct HR as [L6 G6].
  destruct orows as [ws|]; [|early].
  destruct (decode_locs locs) as [tab|] eqn:DL; [|rewrite HFL; early].
  destruct (decode_locs_spec _ _ DL) as [DT1 DT2].
  destruct (fix_rank (e_cfg E) && existsb (fun p => ncol <=? snd p) tab) eqn:CR; [early|].
  assert (HRK : fix_rank (e_cfg E) = true -> Forall (fun p => snd p < ncol) tab).
  { intros HR. rewrite HR in CR. simpl in CR. apply Forall_forall. intros p Hp.
    destruct (ncol <=? snd p) eqn:Cp; [|apply Z.leb_gt in Cp; assumption].
    exfalso. assert (existsb (fun p => ncol <=? snd p) tab = true) by (apply existsb_exists; exists p; split; assumption). congruence. }
  rewrite HFG. cbn [andb].
  destruct (match gt with Some (_, exact) => negb (nech =? exact) | None => false end) eqn:CG;
    [early|].
  (* nech' = nech *)
  assert (HN' : (match gt with Some (n32, _) => n32 | None => nech end) = nech).
  { destruct gt as [[n32 ex]|]; [|reflexivity]. apply negb_false_iff in CG. apply Z.eqb_eq in CG. subst ex.
    simpl in Hgt. rewrite Hgt. apply wrap32_small. lia. }
  rewrite HN'. rewrite HT.
  rewrite alloc_ok by lia. cbn [bind].
  assert (HA2 : match (if 0 <? nech * ncol then alloc E 15 (nech * ncol) 8 (mkM (ms m6) (galloc m6 + ncol * 36)) else Ret tt (mkM (ms m6) (galloc m6 + ncol * 36))) with
                | Ret _ m8 => ms m8 = ms m6 /\ galloc m6 + ncol * 36 <= galloc m8 <= galloc m6 + ncol * 36 + nech * ncol * 8
                | Bad _ => False end).
  { destruct (0 <? nech * ncol); [rewrite alloc_ok by (simpl; lia)|]; simpl; (split; [reflexivity|lia]). }
  destruct (if 0 <? nech * ncol then alloc E 15 (nech * ncol) 8 (mkM (ms m6) (galloc m6 + ncol * 36)) else Ret tt (mkM (ms m6) (galloc m6 + ncol * 36))) as [u m8|b];
    cbn [bind]; [|contradiction].
  destruct HA2 as [S8 G8].
  replace ((0 <? ncol) && (0 <? nech * ncol) && (0 <? nech) && (nech * ncol <? ncol * nech)) with false
    by (symmetry; apply andb_false_iff; right; apply Z.ltb_ge; lia).
  replace ((0 <? ncol) && (0 <? nech * ncol) && (0 <? nech) && negb (nech * ncol =? nech * ncol)) with false
    by (symmetry; rewrite Z.eqb_refl; simpl; apply andb_false_r).
  assert (NL29 : length no_loc = 29%nat) by reflexivity.
  assert (NLF : Forall (fun u => 0 <= u < 0) (concat no_loc)) by (simpl; constructor).
  assert (NLB : Forall (fun l => zlen l <= ncol) no_loc).
  { unfold no_loc. apply Forall_forall. intros l Hl. apply repeat_spec in Hl. subst l. unfold zlen; simpl. lia. }
  destruct (correct_names_total names [] (NoDup_nil _)) as [nms [CN1 [CN2 CN3]]]. rewrite CN1. simpl in CN2.
  pose proof (apply_locs_spec ncol tab 0 no_loc m8 ltac:(lia) ltac:(unfold zlen in *; lia) DT2 NL29 NLF) as HAC.
  destruct (apply_locs E ncol 0 tab no_loc m8) as [nl m9|b]; cbn [bind].
  2:{ destruct HAC as [HB1 HB2]. split; [assumption|].
      destruct (fix_rank (e_cfg E)) eqn:RK; [|reflexivity]. exfalso. apply HB2.
      specialize (HRK eq_refl). eapply Forall_impl; [|exact HRK]. simpl. intros p Hp. lia. }
  destruct HAC as [A1 [A3 [A4 [A5 [A6 A7]]]]].
  assert (A2 : zlen nms = ncol) by (unfold zlen in *; lia).
  assert (len m9 = len m6) by (unfold len; rewrite A1, S8; reflexivity).
  assert (ZC : zlen (concat no_loc) = 0) by reflexivity.
  assert (GB : fix_rank (e_cfg E) = true -> galloc m9 <= galloc m8 + 116 * ncol).
  { intros HR. specialize (A7 ncol NLB (HRK HR)). pose proof (concat_length_bound _ ncol ltac:(lia) A7) as HB.
    rewrite A3 in HB. lia. }
  destruct (fix_rank (e_cfg E) && negb (post_ok tab nl)) eqn:CP.
  - split; [lia|split; [lia|split; [|exact I]]]. intros HR. specialize (GB HR). lia.
  - split; [lia|split; [lia|split; [intros HR; specialize (GB HR); lia|]]].
    intros HR. rewrite HR in CP. simpl in CP. apply negb_false_iff in CP.
    destruct (post_ok_wf tab nl ncol CP ltac:(unfold zlen in *; lia)) as [PW1 PW2].
    unfold wf_db_gt, wf_db. cbn [d_ncol d_nech d_names d_uidcol d_loc d_array].
    split.
    + split; [lia|split; [lia|split; [assumption|split; [assumption|split; [reflexivity|split; [|split; [assumption|split; assumption]]]]]]].
      destruct ((0 <? ncol) && (0 <? nech * ncol) && (0 <? nech)) eqn:CA.
      * apply load_data_length; lia.
      * destruct (0 <? nech * ncol) eqn:CPP.
        -- unfold zlen. rewrite repeat_length. apply Z.ltb_lt in CPP. lia.
        -- apply Z.ltb_ge in CPP. unfold zlen; simpl. nia.
    + destruct gt as [[n32 ex]|]; [|exact I]. apply negb_false_iff in CG. apply Z.eqb_eq in CG. congruence.
Qed.
End Fixed.

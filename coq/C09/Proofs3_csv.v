(* C09 proofs, CSV (Readers3.v): csv_table_read + the shape part of Db::resetFromCSV.
     - totality: the loop over the lines ends with fuel |f|+1 (never CsvHang);
     - allocation bound: values, names and rows are each at most |f| (every value costs a byte of the file);
     - no out-of-bounds / class invariant: an object is returned only for a full ncol x nrow table (the copy loop
       array[icol * nrow + iech] = tab[icol + ncol * iech] stays inside tab), names are words, one per column, the role lists are
       complete sequences of distinct live columns (or empty);
     - with the proposed fixes/C09_18 no exception escapes (C09_15 alone leaves std::bad_alloc from a rank used as a size). *)
From Coq Require Import List ZArith QArith Bool Lia Arith.
From Gst Require Import C09.Model C09.Readers C09.Readers2 C09.Readers3 C09.Spec C09.Witness C09.Proofs_prim C09.Proofs_loc C09.Proofs_db
  C09.Proofs_top C09.Proofs2_refute.
Import ListNotations.
Local Open Scope Z_scope.

(* ------------------------------------------------------------------ the stream of the CSV reader: only eof is tested *)
Lemma good_of : forall s, failb s = false -> good s = negb (eofb s).
Proof. intros s H. unfold good. rewrite H. apply andb_true_r. Qed.
Lemma getline_failb : forall s, good s = true -> failb (snd (getline s)) = false.
Proof.
  intros s G. unfold getline. destruct (takeline (rest s)) as [[t r] e]. cbn [snd failb]. rewrite G.
  unfold good in G. apply andb_true_iff in G. destruct G as [_ G]. apply negb_true_iff in G. rewrite G. reflexivity.
Qed.
Lemma takeline_sum : forall l t r e, takeline l = (t, r, e) -> (length t + length r <= length l)%nat.
Proof.
  induction l as [|c l IH]; simpl; intros t r e H.
  - inversion H; simpl; lia.
  - destruct (c =? 10); [inversion H; subst; simpl; lia|].
    destruct (c =? 13).
    + inversion H; subst. destruct l as [|d l']; simpl; [lia|]. destruct (d =? 10); simpl; lia.
    + destruct (takeline l) as [[t' r'] e'] eqn:T. inversion H; subst. specialize (IH _ _ _ eq_refl). simpl. lia.
Qed.
Lemma getline_sum : forall s t s', getline s = (t, s') -> (length t + slen s' <= slen s)%nat.
Proof.
  unfold getline, slen. intros s t s' H. destruct (takeline (rest s)) as [[t' r] e] eqn:T.
  inversion H; subst; simpl. eapply takeline_sum; eauto.
Qed.

Lemma csv_rows_total : forall fuel F s ncol nrow tab, failb s = false -> (mu s <= fuel)%nat ->
  csv_rows fuel F s ncol nrow tab <> None.
Proof.
  induction fuel as [|f IH]; intros F s ncol nrow tab HF HM; cbn [csv_rows].
  - destruct (eofb s) eqn:EO; [discriminate|]. unfold mu in HM. rewrite (good_of s HF), EO in HM. simpl in HM. lia.
  - destruct (eofb s) eqn:EO; [discriminate|].
    assert (G : good s = true) by (rewrite (good_of s HF), EO; reflexivity).
    pose proof (getline_failb s G) as HF1. destruct (getline s) as [line s1] eqn:GL. cbn [snd] in HF1.
    pose proof (getline_mu_lt _ _ _ G GL) as HL.
    destruct (is_nil line).
    + destruct ((0 <? c_nrowmax F) && (c_nrowmax F <=? nrow)); [discriminate|]. apply IH; [assumption|lia].
    + destruct ((0 <? c_nrowmax F) && (c_nrowmax F <=? nrow + 1)); [discriminate|]. apply IH; [assumption|lia].
Qed.
Lemma csv_skip_inv : forall n s, failb s = false ->
  failb (csv_skip n s) = false /\ (mu (csv_skip n s) <= mu s)%nat /\ (slen (csv_skip n s) <= slen s)%nat.
Proof.
  induction n as [|k IH]; intros s HF; cbn [csv_skip]; [split; [assumption|split; lia]|].
  destruct (eofb s) eqn:EO; [split; [assumption|split; lia]|].
  assert (G : good s = true) by (rewrite (good_of s HF), EO; reflexivity).
  pose proof (getline_failb s G) as HF1. destruct (getline s) as [line s1] eqn:GL. cbn [snd] in *.
  pose proof (getline_mu_lt _ _ _ G GL). pose proof (getline_slen _ _ _ GL).
  destruct (IH s1 HF1) as [I1 [I2 I3]]. split; [assumption|split; lia].
Qed.
Lemma skip_bom_length : forall f, (length (skip_bom f) <= length f)%nat.
Proof.
  intros f. unfold skip_bom.
  repeat match goal with |- context [match ?x with _ => _ end] => destruct x end; simpl; lia.
Qed.

(* ------------------------------------------------------------------ totality *)
Theorem csv_table_read_total : forall F f, csv_table_read (S (length f)) F f <> None.
Proof.
  intros F f. unfold csv_table_read.
  set (s0 := mkS (skip_bom f) false false).
  assert (G0 : good s0 = true) by reflexivity.
  assert (M0 : (mu s0 <= S (length f))%nat) by (unfold mu; rewrite G0; cbn [rest s0]; pose proof (skip_bom_length f); lia).
  assert (HS : forall (p : list (list Z) * stream), failb (snd p) = false -> (mu (snd p) <= S (length f))%nat ->
               (let '(names, s1) := p in
                match csv_rows (S (length f)) F (csv_skip (Z.to_nat (c_nskip F)) s1) (zlen names) 0 [] with
                | Some (ncol, nrow, tab) => Some (mkCT ncol nrow names (frev tab))
                | None => None
                end) <> None).
  { intros [names s1] HF HM. cbn [snd] in *. destruct (csv_skip_inv (Z.to_nat (c_nskip F)) s1 HF) as [K1 [K2 K3]].
    pose proof (csv_rows_total (S (length f)) F (csv_skip (Z.to_nat (c_nskip F)) s1) (zlen names) 0 [] K1 ltac:(lia)) as HT.
    destruct (csv_rows (S (length f)) F (csv_skip (Z.to_nat (c_nskip F)) s1) (zlen names) 0 []) as [[[nc nr] tb]|]; [discriminate|congruence]. }
  destruct (c_header F).
  - pose proof (getline_failb s0 G0) as HF1. destruct (getline s0) as [line s] eqn:GL. cbn [snd] in HF1.
    pose proof (getline_mu_lt _ _ _ G0 GL) as HL.
    destruct (is_nil line); apply (HS (_, s)); cbn [snd]; try assumption; lia.
  - apply (HS ([], s0)); cbn [snd]; [reflexivity|assumption].
Qed.

(* ------------------------------------------------------------------ sizes: everything built is bounded by the file *)
Lemma split_sep_len : forall sep l cur,
  (length (split_sep sep l cur) <= length l + match cur with [] => 0 | _ => 1 end)%nat.
Proof.
  induction l as [|c r IH]; intros cur; simpl.
  - destruct cur; simpl; lia.
  - destruct (c =? sep).
    + simpl. specialize (IH []). simpl in IH. destruct cur; lia.
    + specialize (IH (c :: cur)). simpl in IH. destruct cur; lia.
Qed.
Lemma pieces_len : forall sep l, (length (pieces sep l) <= length l)%nat.
Proof. intros. unfold pieces. pose proof (split_sep_len sep l []). simpl in *. lia. Qed.
Lemma take_lim_len : forall lim ws k, (length (take_lim lim k ws) <= length ws)%nat.
Proof.
  induction ws as [|w r IH]; intros k; simpl; [lia|].
  destruct ((0 <? lim) && (lim <=? k + 1)); simpl; [lia|]. specialize (IH (k + 1)). lia.
Qed.
Lemma trim_right_len : forall l, (length (trim_right l) <= length l)%nat.
Proof.
  intros. unfold trim_right. rewrite frev_length. pose proof (dropwhile_length issp4 (frev l)). rewrite frev_length in *. lia.
Qed.

(* the loop: values and rows grow by at most the bytes consumed; rows never decrease *)
Lemma csv_rows_bound : forall fuel F s ncol nrow tab nc nr tb,
  csv_rows fuel F s ncol nrow tab = Some (nc, nr, tb) ->
  (length tb <= length tab + slen s)%nat /\ nrow <= nr <= nrow + Z.of_nat (slen s).
Proof.
  induction fuel as [|f IH]; intros F s ncol nrow tab nc nr tb H; cbn [csv_rows] in H.
  - destruct (eofb s); [|discriminate]. inversion H; subst. split; lia.
  - destruct (eofb s); [inversion H; subst; split; lia|].
    destruct (getline s) as [line s1] eqn:GL. pose proof (getline_sum _ _ _ GL) as HS.
    destruct (is_nil line) eqn:NL.
    + destruct ((0 <? c_nrowmax F) && (c_nrowmax F <=? nrow)); [inversion H; subst; split; lia|].
      apply IH in H. destruct H as [H1 H2]. split; lia.
    + assert (HL : (1 <= length line)%nat) by (destruct line; [discriminate|simpl; lia]).
      set (ws := take_lim (lim_of (c_ncolmax F) ncol) 0 (pieces (c_sep F) line)) in *.
      assert (HW : (length ws <= length line)%nat).
      { unfold ws. pose proof (take_lim_len (lim_of (c_ncolmax F) ncol) (pieces (c_sep F) line) 0).
        pose proof (pieces_len (c_sep F) line). lia. }
      assert (HT : length (rev_append (map (csv_value (c_dec F)) ws) tab) = (length ws + length tab)%nat)
        by (rewrite rev_append_rev, app_length, rev_length, map_length; reflexivity).
      destruct ((0 <? c_nrowmax F) && (c_nrowmax F <=? nrow + 1)).
      * inversion H; subst. rewrite HT. split; lia.
      * apply IH in H. destruct H as [H1 H2]. rewrite HT in H1. split; lia.
Qed.

Theorem csv_table_read_bound : forall fuel F f ct, csv_table_read fuel F f = Some ct ->
  zlen (ct_tab ct) <= flen f /\ zlen (ct_names ct) <= flen f /\ 0 <= ct_nrow ct <= flen f.
Proof.
  intros fuel F f ct H. unfold csv_table_read in H.
  set (s0 := mkS (skip_bom f) false false) in *.
  assert (S0 : (slen s0 <= length f)%nat) by (unfold slen; cbn [rest s0]; apply skip_bom_length).
  assert (HS : forall (p : list (list Z) * stream), (length (fst p) + slen (snd p) <= length f)%nat ->
               (let '(names, s1) := p in
                match csv_rows fuel F (csv_skip (Z.to_nat (c_nskip F)) s1) (zlen names) 0 [] with
                | Some (ncol, nrow, tab) => Some (mkCT ncol nrow names (frev tab))
                | None => None
                end) = Some ct -> zlen (ct_tab ct) <= flen f /\ zlen (ct_names ct) <= flen f /\ 0 <= ct_nrow ct <= flen f).
  { intros [names s1] HL HR. cbn [fst snd] in *.
    assert (K3 : (slen (csv_skip (Z.to_nat (c_nskip F)) s1) <= slen s1)%nat).
    { clear. generalize (Z.to_nat (c_nskip F)) as n. intros n. revert s1. induction n as [|k IH]; intros s1; cbn [csv_skip]; [lia|].
      destruct (eofb s1); [lia|]. destruct (getline s1) as [t s2] eqn:GL. cbn [snd]. pose proof (getline_slen _ _ _ GL). specialize (IH s2). lia. }
    destruct (csv_rows fuel F (csv_skip (Z.to_nat (c_nskip F)) s1) (zlen names) 0 []) as [[[nc nr] tb]|] eqn:CR; [|discriminate].
    apply csv_rows_bound in CR. destruct CR as [B1 B2]. inversion HR; subst ct. cbn [ct_tab ct_names ct_nrow].
    unfold zlen, flen. rewrite frev_length. simpl length in B1. split; [lia|split; lia]. }
  destruct (c_header F).
  - destruct (getline s0) as [line s] eqn:GL. pose proof (getline_sum _ _ _ GL) as HG.
    destruct (is_nil line).
    + apply (HS ([], s)); [cbn [fst snd length]; lia|exact H].
    + apply (HS (map (fun w : list Z => trim (trimq w)) (take_lim (c_ncolmax F) 0 (pieces (c_sep F) (trim_right line))), s)); [|exact H].
      cbn [fst snd]. rewrite map_length.
      pose proof (take_lim_len (c_ncolmax F) (pieces (c_sep F) (trim_right line)) 0).
      pose proof (pieces_len (c_sep F) (trim_right line)). pose proof (trim_right_len line). lia.
  - apply (HS ([], s0)); [cbn [fst snd length]; lia|exact H].
Qed.

(* ------------------------------------------------------------------ names are words *)
Definition okc (c : Z) : Prop := c <> 32 /\ c <> 9.
Definition is_word (w : list Z) : Prop := w <> [] /\ Forall okc w.
Lemma dec_digits_ok : forall fuel z acc, 0 <= z -> Forall okc acc -> Forall okc (dec_digits fuel z acc).
Proof.
  induction fuel as [|f IH]; intros z acc Hz Ha; cbn [dec_digits]; [assumption|].
  destruct (z <? 10).
  - constructor; [unfold okc; lia|assumption].
  - apply IH; [apply Z.div_pos; lia|]. constructor; [|assumption]. pose proof (Z.mod_pos_bound z 10 ltac:(lia)). unfold okc; lia.
Qed.
Lemma dec_digits_nonnil : forall fuel z acc, acc <> [] \/ fuel <> O -> dec_digits fuel z acc <> [].
Proof.
  induction fuel as [|f IH]; intros z acc H; cbn [dec_digits]; [destruct H; [assumption|congruence]|].
  destruct (z <? 10); [discriminate|]. apply IH. left. discriminate.
Qed.
Lemma prefixed_word : forall a b c d l, okc a -> okc b -> okc c -> okc d -> Forall okc l -> is_word ([a; b; c; d] ++ l).
Proof. intros. split; [discriminate|]. repeat (constructor; [assumption|]). assumption. Qed.
Lemma new_name_word : forall i, 0 <= i -> is_word (new_name i).
Proof. intros i Hi. unfold new_name. apply prefixed_word; try (unfold okc; lia). apply dec_digits_ok; [assumption|constructor]. Qed.
Lemma word_name_word : forall i nm, 0 <= i -> is_word (word_name i nm).
Proof.
  intros i nm Hi. unfold word_name. destruct (is_nil (trim nm)) eqn:N.
  - apply prefixed_word; try (unfold okc; lia). apply dec_digits_ok; [lia|constructor].
  - split.
    + destruct (trim nm); [discriminate|simpl; discriminate].
    + apply Forall_forall. intros c Hc. apply in_map_iff in Hc. destruct Hc as [x [Hx _]]. subst c.
      destruct ((x =? 32) || (x =? 9)) eqn:C; [unfold okc; lia|].
      apply orb_false_iff in C. destruct C as [C1 C2]. apply Z.eqb_neq in C1. apply Z.eqb_neq in C2. split; assumption.
Qed.
Lemma word_names_spec : forall l i, 0 <= i -> Forall is_word (word_names i l) /\ length (word_names i l) = length l.
Proof.
  induction l as [|nm r IH]; intros i Hi; simpl; [split; [constructor|reflexivity]|].
  destruct (IH (i + 1) ltac:(lia)) as [I1 I2]. split; [constructor; [apply word_name_word; assumption|assumption]|congruence].
Qed.
Lemma str_rank_word : is_word str_rank.
Proof. split; [discriminate|]. unfold str_rank. repeat (constructor; [unfold okc; lia|]). constructor. Qed.

Lemma dedup_at_spec : forall fuel l rank, Forall is_word l ->
  Forall is_word (dedup_at fuel l rank) /\ length (dedup_at fuel l rank) = length l.
Proof.
  induction fuel as [|f IH]; intros l rank HW; simpl; [split; [assumption|reflexivity]|].
  destruct (other_eq l 0 rank (nth rank l [])); [|split; [assumption|reflexivity]].
  assert (HN : Forall okc (nth rank l [])).
  { destruct (le_lt_dec (length l) rank) as [Hr|Hr]; [rewrite nth_overflow by assumption; constructor|].
    rewrite Forall_forall in HW. destruct (HW _ (nth_In l [] Hr)) as [_ H]. exact H. }
  assert (HW' : is_word (nth rank l [] ++ [46; 49])).
  { split; [destruct (nth rank l []); discriminate|]. apply Forall_app. split; [assumption|].
    repeat (constructor; [unfold okc; lia|]). constructor. }
  destruct (IH (upd_nth l rank (nth rank l [] ++ [46; 49])) rank (Forall_upd_nth _ _ _ _ _ HW HW')) as [I1 I2].
  split; [assumption|]. rewrite I2. apply upd_nth_length.
Qed.
Lemma set_names_spec : forall names cur shift i, Forall is_word cur -> Forall is_word names ->
  Forall is_word (set_names cur shift i names) /\ length (set_names cur shift i names) = length cur.
Proof.
  induction names as [|nm r IH]; intros cur shift i HC HN; cbn [set_names]; [split; [assumption|reflexivity]|].
  apply Forall_cons_iff in HN. destruct HN as [HN1 HN2].
  pose proof (Forall_upd_nth _ _ cur (shift + i)%nat nm HC HN1) as HU.
  destruct (dedup_at_spec (S (length cur)) (upd_nth cur (shift + i) nm) (shift + i) HU) as [D1 D2].
  destruct (IH _ shift (S i) D1 HN2) as [I1 I2]. split; [assumption|]. rewrite I2, D2. apply upd_nth_length.
Qed.

(* ------------------------------------------------------------------ names are pairwise different
   correctNewNameForDuplicates appends ".1" to the name being set until no OTHER column carries it: it stops (the candidates get
   longer, only finitely many columns are as long), and the columns already named stay pairwise different *)
Definition others {A} (l : list A) (rank : nat) : list A := firstn rank l ++ skipn (S rank) l.

Lemma other_eq_all : forall l i rank nm, (rank < i)%nat -> other_eq l i rank nm = existsb (fun x => bytes_eqb x nm) l.
Proof.
  induction l as [|x l IH]; intros i rank nm H; simpl; [reflexivity|].
  replace (Nat.eqb i rank) with false by (symmetry; apply Nat.eqb_neq; lia). simpl. rewrite IH by lia. reflexivity.
Qed.
Lemma other_eq_others : forall l i rank nm, (i <= rank)%nat ->
  other_eq l i rank nm = existsb (fun x => bytes_eqb x nm) (others l (rank - i)).
Proof.
  induction l as [|x l IH]; intros i rank nm H; simpl.
  - unfold others. rewrite firstn_nil, skipn_nil. reflexivity.
  - destruct (Nat.eqb i rank) eqn:C.
    + apply Nat.eqb_eq in C. subst. rewrite Nat.sub_diag. unfold others. simpl. apply other_eq_all. lia.
    + apply Nat.eqb_neq in C. simpl. replace (rank - i)%nat with (S (rank - S i)) by lia. unfold others. simpl.
      rewrite IH by lia. reflexivity.
Qed.
Lemma others_upd : forall A (l : list A) rank v, others (upd_nth l rank v) rank = others l rank.
Proof.
  induction l as [|x l IH]; intros [|rank] v; unfold others in *; simpl; try reflexivity.
  f_equal. apply IH.
Qed.
Lemma others_length : forall A (l : list A) rank, (length (others l rank) <= length l)%nat.
Proof. intros. unfold others. rewrite app_length, firstn_length, skipn_length. lia. Qed.

Lemma dedup_at_nodup : forall fuel l rank, (rank < length l)%nat ->
  (cnt (others l rank) (length (nth rank l [])) < fuel)%nat ->
  let l' := dedup_at fuel l rank in
  others l' rank = others l rank /\ ~ In (nth rank l' []) (others l rank) /\ length l' = length l.
Proof.
  induction fuel as [|f IH]; intros l rank HR HC; [lia|]. cbn [dedup_at].
  rewrite (other_eq_others l 0 rank _ ltac:(lia)). rewrite Nat.sub_0_r.
  destruct (existsb (fun x => bytes_eqb x (nth rank l [])) (others l rank)) eqn:EX.
  - pose proof (cnt_decr _ _ EX) as HD.
    specialize (IH (upd_nth l rank (nth rank l [] ++ [46%Z; 49%Z])) rank).
    rewrite upd_nth_length, others_upd, nth_upd_nth_same in IH by assumption.
    apply IH; [assumption|lia].
  - split; [reflexivity|split; [|reflexivity]]. intro HI.
    assert (existsb (fun x => bytes_eqb x (nth rank l [])) (others l rank) = true); [|congruence].
    apply existsb_exists. eexists. split; [exact HI|apply bytes_eqb_refl].
Qed.

Lemma firstn_others : forall A (l : list A) p, (p <= length l)%nat -> firstn p (others l p) = firstn p l.
Proof.
  intros A l p H. unfold others. rewrite firstn_app, firstn_firstn, Nat.min_id, firstn_length.
  replace (p - Nat.min p (length l))%nat with 0%nat by lia. simpl. apply app_nil_r.
Qed.
Lemma firstn_S_nth : forall A (l : list A) p d, (p < length l)%nat -> firstn (S p) l = firstn p l ++ [nth p l d].
Proof.
  induction l as [|x l IH]; intros p d H; simpl in H; [lia|]. destruct p; simpl; [reflexivity|]. f_equal. apply IH. lia.
Qed.
Lemma in_firstn_others : forall A (l : list A) p x, In x (firstn p l) -> In x (others l p).
Proof. intros. unfold others. apply in_or_app. left. assumption. Qed.

Lemma NoDup_app_snoc : forall A (l : list A) x, NoDup l -> ~ In x l -> NoDup (l ++ [x]).
Proof.
  induction l as [|y l IH]; intros x ND HI; simpl; [constructor; [intros []|constructor]|].
  inversion ND; subst. constructor.
  - intro H. apply in_app_or in H. destruct H as [H|[H|[]]]; [contradiction|subst; apply HI; left; reflexivity].
  - apply IH; [assumption|]. intro H. apply HI. right. assumption.
Qed.
Lemma set_names_nodup : forall names cur shift i,
  (shift + i + length names <= length cur)%nat -> NoDup (firstn (shift + i) cur) ->
  NoDup (firstn (shift + i + length names) (set_names cur shift i names)).
Proof.
  induction names as [|nm r IH]; intros cur shift i HL ND; cbn [set_names].
  - simpl. rewrite Nat.add_0_r. assumption.
  - simpl length in *. set (p := (shift + i)%nat) in *.
    set (c1 := upd_nth cur p nm).
    assert (L1 : length c1 = length cur) by apply upd_nth_length.
    destruct (dedup_at_nodup (S (length cur)) c1 p ltac:(lia)) as [D1 [D2 D3]].
    { pose proof (cnt_le (others c1 p) (length (nth p c1 []))). pose proof (others_length _ c1 p). lia. }
    set (c2 := dedup_at (S (length cur)) c1 p) in *.
    replace (p + S (length r))%nat with (shift + S i + length r)%nat by lia.
    apply IH; [lia|].
    replace (shift + S i)%nat with (S p) by lia.
    rewrite (firstn_S_nth _ c2 p []) by lia.
    assert (F2 : firstn p c2 = firstn p cur).
    { rewrite <- (firstn_others _ c2 p) by lia. rewrite D1. unfold c1. rewrite others_upd. apply firstn_others. lia. }
    rewrite F2. apply NoDup_app_snoc; [assumption|].
    intro HI. apply D2. unfold c1. rewrite others_upd. apply in_firstn_others. assumption.
Qed.

(* ------------------------------------------------------------------ the roles guessed from the names *)
Lemma locator_identify_bound : forall w err typ idx, locator_identify w = (err, typ, idx) -> err = false -> typ < 29 /\ 0 <= idx.
Proof.
  intros w err typ idx LI HE. subst err. unfold locator_identify in LI.
  destruct (find_loc loc_table 0 (map tolower w)) as [[[i sref] uniq]|] eqn:FL.
  - apply find_loc_bound in FL. unfold zlen in FL. simpl in FL.
    destruct (uniq && (1 <? (if is_nil (skipn (length sref) (map tolower w)) then -1 else atoi (skipn (length sref) (map tolower w))))).
    + inversion LI.
    + inversion LI; subst. lia.
  - inversion LI; subst. lia.
Qed.
Definition tab_ok (tab : list (Z * Z)) : Prop := Forall (fun p => fst p < 29 /\ 0 <= snd p) tab.
Lemma guess_locs_spec : forall l, tab_ok (guess_locs l) /\ length (guess_locs l) = length l.
Proof.
  induction l as [|w r [I1 I2]]; simpl; [split; [constructor|reflexivity]|].
  destruct (locator_identify w) as [[err typ] idx] eqn:LI. split; [|simpl; congruence].
  constructor; [|assumption]. destruct err; simpl; [lia|]. eapply locator_identify_bound; [exact LI|reflexivity].
Qed.
Lemma shift_tab_spec : forall k tab, 0 <= k -> tab_ok tab -> tab_ok (shift_tab k tab) /\ zlen (shift_tab k tab) = k + zlen tab.
Proof.
  intros k tab Hk HT. unfold shift_tab, tab_ok, zlen. split.
  - apply Forall_app. split; [|assumption]. apply Forall_forall. intros p Hp. apply repeat_spec in Hp. subst p. simpl. lia.
  - rewrite app_length, repeat_length. lia.
Qed.
Lemma drop_big_spec : forall n tab, tab_ok tab ->
  tab_ok (drop_big n tab) /\ length (drop_big n tab) = length tab /\ Forall (fun p => snd p < Z.max n 1) (drop_big n tab).
Proof.
  intros n tab HT. unfold drop_big. split; [|split; [apply map_length|]].
  - unfold tab_ok in *. apply Forall_forall. intros p Hp. apply in_map_iff in Hp. destruct Hp as [q [Hq HI]].
    rewrite Forall_forall in HT. specialize (HT q HI). destruct (snd q <? n); subst p; simpl; lia.
  - apply Forall_forall. intros p Hp. apply in_map_iff in Hp. destruct Hp as [q [Hq HI]].
    destruct (snd q <? n) eqn:C; subst p; simpl; [apply Z.ltb_lt in C; lia|lia].
Qed.

(* ------------------------------------------------------------------ the object built from the table (fixes/C09_15 in: the code as it is now) *)
(* the class invariant of a Db born from a CSV file: a full ncol x nrow table with at least one column and one sample, one name per
   column, every name a word (not empty, no blank), the uid table enumerates the columns, 29 role lists made of distinct live columns *)
Definition wf_csv_db (d : db) : Prop :=
  0 < d_ncol d /\ 0 < d_nech d /\ zlen (d_names d) = d_ncol d /\ Forall is_word (d_names d) /\ NoDup (d_names d) /\
  d_uidcol d = zseq (d_ncol d) /\ zlen (d_array d) = d_ncol d * d_nech d /\
  length (d_loc d) = 29%nat /\ NoDup (concat (d_loc d)) /\ Forall (fun u => 0 <= u < d_ncol d) (concat (d_loc d)).

Definition csv_spec (E : env) (fixr : bool) (F : csvfmt) (ct : csvtab) (o : csvout) : Prop :=
  match o with
  | CsvOk d => wf_csv_db d /\ d_nech d = ct_nrow ct /\ zlen (ct_tab ct) = ct_ncol ct * ct_nrow ct /\
               d_ncol d = ct_ncol ct + (if c_rank F then 1 else 0)
  | CsvFail => True
  | CsvAlloc => fixr = false \/ e_cap E < 4 * (zlen (ct_tab ct) + 2)
  | CsvThrow | CsvHang => False
  end.
Theorem db_of_table_spec : forall E fixr F ct, csv_spec E fixr F ct (db_of_table E true fixr F ct).
Proof.
  intros E fixr F ct. unfold db_of_table. cbn [andb].
  destruct (is_nil (ct_tab ct) || (ct_nrow ct <=? 0) || negb (zlen (ct_tab ct) =? ct_ncol ct * ct_nrow ct)
            || (negb (is_nil (ct_names ct)) && negb (zlen (ct_names ct) =? ct_ncol ct))) eqn:G; [exact I|].
  apply orb_false_iff in G. destruct G as [G G4]. apply orb_false_iff in G. destruct G as [G G3].
  apply orb_false_iff in G. destruct G as [G1 G2]. apply Z.leb_gt in G2. apply negb_false_iff in G3. apply Z.eqb_eq in G3.
  rewrite G1.
  assert (HD : zlen (ct_tab ct) / ct_nrow ct = ct_ncol ct) by (rewrite G3; apply Z.div_mul; lia).
  assert (HM : zlen (ct_tab ct) mod ct_nrow ct = 0) by (rewrite G3; apply Z.mod_mul; lia).
  rewrite HD, HM.
  assert (Hz : 0 < zlen (ct_tab ct)) by (unfold zlen; destruct (ct_tab ct); [discriminate|simpl; lia]).
  set (shift := if c_rank F then 1 else 0).
  assert (Hs : 0 <= shift <= 1) by (unfold shift; destruct (c_rank F); lia).
  set (ncol := ct_ncol ct) in *. set (nrow := ct_nrow ct) in *.
  assert (Hncol : 0 < ncol) by nia.
  destruct (word_names_spec (ct_names ct) 0 ltac:(lia)) as [WN1 WN2].
  set (names := word_names 0 (ct_names ct)) in *.
  destruct (negb (is_nil names) && negb (zlen names =? ncol)) eqn:G5.
  { exfalso. apply andb_true_iff in G5. destruct G5 as [N1 N2]. apply negb_true_iff in N1. apply negb_true_iff in N2. apply Z.eqb_neq in N2.
    assert (NN : is_nil (ct_names ct) = false).
    { destruct names; [discriminate|]. destruct (ct_names ct); [simpl in WN2; discriminate|reflexivity]. }
    rewrite NN in G4. cbn [negb andb] in G4. apply negb_false_iff in G4. apply Z.eqb_eq in G4. unfold zlen in *. lia. }
  set (tabl := if is_nil names then [] else shift_tab shift (guess_locs names)) in *.
  assert (TL : tab_ok tabl /\ zlen tabl <= ncol + shift).
  { unfold tabl. destruct (is_nil names) eqn:NN; [split; [constructor|unfold zlen; simpl; lia]|].
    destruct (guess_locs_spec names) as [GL1 GL2]. destruct (shift_tab_spec shift _ ltac:(lia) GL1) as [ST1 ST2].
    split; [assumption|]. rewrite ST2. unfold zlen. rewrite GL2. cbn [negb andb] in G5. apply negb_false_iff in G5.
    apply Z.eqb_eq in G5. unfold zlen in G5. lia. }
  destruct TL as [TL1 TL2].
  set (tabu := if fixr then drop_big (ncol + shift) tabl else tabl) in *.
  assert (TU : tab_ok tabu /\ zlen tabu = zlen tabl).
  { unfold tabu. destruct fixr; [|split; [assumption|reflexivity]].
    destruct (drop_big_spec (ncol + shift) tabl TL1) as [D1 [D2 _]]. split; [assumption|unfold zlen; rewrite D2; reflexivity]. }
  destruct TU as [TU1 TU2].
  set (m0 := mkM (mkS [] true false) 0) in *.
  assert (HB : 0 + zlen tabu <= ncol + shift) by lia.
  assert (HL29 : length no_loc = 29%nat) by apply repeat_length.
  assert (HF0 : Forall (fun u => 0 <= u < 0) (concat no_loc)) by (change (concat no_loc) with (@nil Z); constructor).
  pose proof (apply_locs_spec E (ncol + shift) tabu 0 no_loc m0 (Z.le_refl 0) HB TU1 HL29 HF0) as AS.
  destruct (apply_locs E (ncol + shift) 0 tabu no_loc m0) as [locs m1|b].
  2:{ cbn [csv_spec]. destruct AS as [_ AS]. destruct fixr; [right|left; reflexivity].
      destruct (Z_lt_le_dec (e_cap E) (4 * (zlen (ct_tab ct) + 2))) as [HC|HC]; [assumption|]. exfalso. apply AS.
      destruct (drop_big_spec (ncol + shift) tabl TL1) as [_ [_ D3]]. unfold tabu. eapply Forall_impl; [|exact D3].
      intros p Hp. cbv beta in Hp. assert (ncol <= zlen (ct_tab ct)) by nia. lia. }
  destruct AS as [_ [A2 _]]. cbn [csv_spec].
  unfold wf_csv_db. cbn [d_ncol d_nech d_names d_uidcol d_loc d_array].
  split; [|split; [reflexivity|split; [assumption|reflexivity]]].
  split; [lia|split; [assumption|]].
  (* names *)
  assert (Hpos : forall n, Forall (fun k => 0 <= k) (zseq n)).
  { intros n. unfold zseq. apply Forall_forall. intros k Hk. apply in_map_iff in Hk. destruct Hk as [x [Hx _]]. lia. }
  assert (Hdef : forall n, Forall is_word (map new_name (map (Z.add 1) (zseq n))) /\
                           length (map new_name (map (Z.add 1) (zseq n))) = Z.to_nat n).
  { intros n. split.
    - apply Forall_forall. intros w Hw. apply in_map_iff in Hw. destruct Hw as [k [Hk1 Hk2]]. subst w.
      apply in_map_iff in Hk2. destruct Hk2 as [j [Hj1 Hj2]]. subst k. specialize (Hpos n). rewrite Forall_forall in Hpos.
      specialize (Hpos j Hj2). apply new_name_word. lia.
    - rewrite !map_length. unfold zseq. rewrite map_length, seq_length. reflexivity. }
  set (cur0 := if c_rank F then upd_nth (map new_name (map (Z.add 1) (zseq (ncol + shift)))) 0 str_rank
               else map new_name (map (Z.add 1) (zseq (ncol + shift)))).
  assert (C0 : Forall is_word cur0 /\ length cur0 = Z.to_nat (ncol + shift)).
  { destruct (Hdef (ncol + shift)) as [D1 D2]. unfold cur0. destruct (c_rank F); [|split; assumption].
    split; [apply Forall_upd_nth; [assumption|apply str_rank_word]|rewrite upd_nth_length; assumption]. }
  destruct C0 as [C01 C02].
  set (nmu := if is_nil names then map new_name (map (Z.add 1) (zseq ncol)) else names).
  assert (NU : Forall is_word nmu) by (unfold nmu; destruct (is_nil names); [apply Hdef|assumption]).
  destruct (set_names_spec nmu cur0 (Z.to_nat shift) 0 C01 NU) as [SN1 SN2].
  split; [unfold zlen; rewrite SN2, C02; lia|split; [assumption|]].
  split.
  { (* pairwise different *)
    assert (LNU : length nmu = Z.to_nat ncol).
    { unfold nmu. destruct (is_nil names) eqn:NN; [apply Hdef|]. cbn [negb andb] in G5. apply negb_false_iff in G5.
      apply Z.eqb_eq in G5. unfold zlen in G5. lia. }
    pose proof (set_names_nodup nmu cur0 (Z.to_nat shift) 0) as ND. rewrite LNU, C02 in ND.
    replace (Z.to_nat shift + 0 + Z.to_nat ncol)%nat with (length (set_names cur0 (Z.to_nat shift) 0 nmu)) in ND by (rewrite SN2, C02; lia).
    rewrite firstn_all in ND. apply ND; [lia|].
    rewrite Nat.add_0_r. assert (HS1 : (Z.to_nat shift <= 1)%nat) by lia.
    destruct (Z.to_nat shift) as [|[|k]]; [simpl; constructor| |lia].
    destruct cur0; simpl; [constructor|]. constructor; [intros []|constructor]. }
  split; [reflexivity|].
  (* table *)
  split.
  { replace (ncol + shift <=? 0) with false by (symmetry; apply Z.leb_gt; lia). cbn [negb andb Z.eqb].
    unfold zlen. rewrite app_length. pose proof (load_data_length ncol nrow (ct_tab ct) ltac:(lia) ltac:(lia)) as LD.
    unfold zlen in LD.
    assert (LR : Z.of_nat (length (if c_rank F then map (fun i : Z => Num (inject_Z (i + 1))) (zseq nrow) else [])) = shift * nrow).
    { unfold shift. destruct (c_rank F); [|simpl; lia]. rewrite map_length. pose proof (zseq_length nrow) as ZL. unfold zlen in ZL. lia. }
    lia. }
  (* role lists *)
  destruct (post_ok tabl locs) eqn:PO; cbn [negb].
  - destruct (post_ok_wf tabl locs (zlen tabl) PO eq_refl) as [P1 P2].
    split; [assumption|split; [assumption|]]. eapply Forall_impl; [|exact P2]. simpl. intros; lia.
  - split; [apply repeat_length|]. change (concat no_loc) with (@nil Z). split; constructor.
Qed.

(* it is the class invariant of Db (coq/C09/Spec.v wf_db, the invariant of C07) and more *)
Lemma wf_csv_db_wf_db : forall d, wf_csv_db d -> wf_db d.
Proof.
  intros d [H1 [H2 [H3 [H4 [H5 [H6 [H7 [H8 [H9 H10]]]]]]]]]. unfold wf_db.
  split; [lia|split; [lia|split; [assumption|split; [assumption|split; [assumption|split; [assumption|split; [assumption|split; assumption]]]]]]].
Qed.
(* the copy loop of Db::_loadData stays inside the table read from the file *)
Lemma csv_copy_in_bounds : forall ntab ncol nrow icol iech, ntab = ncol * nrow -> 0 <= icol < ncol -> 0 <= iech < nrow ->
  0 <= icol + ncol * iech < ntab.
Proof. intros. subst ntab. nia. Qed.

Lemma db_of_table_not_hang : forall E fixc fixr F ct, db_of_table E fixc fixr F ct <> CsvHang.
Proof.
  intros E fixc fixr F ct. unfold db_of_table. cbv zeta.
  match goal with |- (if ?c then _ else _) <> _ => destruct c; [discriminate|] end.
  match goal with |- (if ?c then _ else _) <> _ => destruct c; [discriminate|] end.
  match goal with |- match ?c with _ => _ end <> _ => destruct c; discriminate end.
Qed.

(* ------------------------------------------------------------------ Db::createFromCSV on a whole file *)
Theorem csv_total : forall E fixc fixr F f, db_from_csv E fixc fixr F f <> CsvHang.
Proof.
  intros E fixc fixr F f. unfold db_from_csv. pose proof (csv_table_read_total F f) as HT.
  destruct (csv_table_read (S (length f)) F f) as [ct|]; [apply db_of_table_not_hang|congruence].
Qed.

(* the code as it is now (fixr = false) and with the proposed fixes/C09_18 (fixr = true) *)
Definition csv_post (E : env) (fixr : bool) (f : list Z) (o : csvout) : Prop :=
  match o with
  | CsvOk d => wf_csv_db d /\ d_nech d <= flen f /\ d_ncol d <= flen f + 1 /\ zlen (d_array d) <= 2 * flen f
  | CsvFail => True
  | CsvAlloc => fixr = false \/ e_cap E < 4 * (flen f + 2)
  | CsvThrow | CsvHang => False
  end.
Theorem csv_spec_file : forall E fixr F f, csv_post E fixr f (db_from_csv E true fixr F f).
Proof.
  intros E fixr F f. unfold db_from_csv. pose proof (csv_table_read_total F f) as HT.
  destruct (csv_table_read (S (length f)) F f) as [ct|] eqn:CT; [|congruence].
  apply csv_table_read_bound in CT. destruct CT as [B1 [B2 B3]].
  pose proof (db_of_table_spec E fixr F ct) as HS. unfold csv_spec in HS. unfold csv_post.
  destruct (db_of_table E true fixr F ct) as [| | | |d]; try assumption.
  - destruct HS as [HS|HS]; [left; assumption|right; lia].
  - destruct HS as [W [N1 [N2 N3]]]. split; [assumption|].
    destruct W as [W1 [W2 [_ [_ [_ [_ [W6 _]]]]]]].
    assert (0 <= (if c_rank F then 1 else 0) <= 1) by (destruct (c_rank F); lia).
    assert (0 <= zlen (ct_tab ct)) by (unfold zlen; lia). rewrite N1 in W2.
    assert (ct_ncol ct <= zlen (ct_tab ct)) by (destruct (Z_le_gt_dec (ct_ncol ct) 0); [lia|nia]).
    split; [lia|split; [lia|]]. rewrite W6, N3, N1. nia.
Qed.
(* with fixes/C09_18 and a cap above the linear bound, Db::createFromCSV returns an object or fails: no exception, no loop *)
Theorem csv_no_exception_next : forall E F f, alloc_bound (flen f) <= e_cap E ->
  match db_from_csv E true true F f with CsvOk d => wf_csv_db d | CsvFail => True | _ => False end.
Proof.
  intros E F f HC. pose proof (csv_spec_file E true F f) as H. unfold csv_post in H.
  destruct (db_from_csv E true true F f); try assumption; try exact I.
  - destruct H as [H|H]; [discriminate|]. unfold alloc_bound in HC. unfold flen in *. lia.
  - destruct H; assumption.
Qed.

(* the file of the finding of this round: a column named x2000000000 *)
Lemma csv_rank_witness :
  db_from_csv (full_env_of w_csv_rank) true false (mkCsv true 0 44 46 (-1) (-1) false) w_csv_rank = CsvAlloc /\
  exists d, db_from_csv (full_env_of w_csv_rank) true true (mkCsv true 0 44 46 (-1) (-1) false) w_csv_rank = CsvOk d /\
            d_ncol d = 1 /\ d_nech d = 2 /\ concat (d_loc d) = [].
Proof. split; [vm_compute; reflexivity|]. eexists. split; [vm_compute; reflexivity|]. split; [reflexivity|split; reflexivity]. Qed.

(* C09 proofs, part 1: the reading primitives (any configuration).
   - every primitive leaves a suffix-length that does not grow, never touches the ghost counter;
   - the loops "skip comment or empty lines" of _recordRead and _recordReadVec never exhaust their fuel;
   - with the bounds test of fixes/C09_1 placed before the store, the word loop never stores out of bounds. *)
From Coq Require Import List ZArith QArith Bool Lia Arith.
From Gst Require Import C09.Model.
Import ListNotations.
Local Open Scope Z_scope.

Lemma frev_rev : forall A (l : list A), frev l = rev l.
Proof. intros. unfold frev. symmetry. apply rev_alt. Qed.
Lemma frev_length : forall A (l : list A), length (frev l) = length l.
Proof. intros. rewrite frev_rev. apply rev_length. Qed.

(* ------------------------------------------------------------------ lists of characters *)
Lemma dropwhile_length : forall f l, (length (dropwhile f l) <= length l)%nat.
Proof. induction l as [|c r IH]; simpl; [lia|]. destruct (f c); simpl; lia. Qed.
Lemma dropwhile_head : forall f l c r, dropwhile f l = c :: r -> f c = false.
Proof.
  induction l as [|x l IH]; simpl; intros c r H; [discriminate|].
  destruct (f x) eqn:E; [eauto|]. inversion H; subst; assumption.
Qed.
Lemma takeword_length : forall l w r, takeword l = (w, r) -> (length w + length r = length l)%nat.
Proof.
  induction l as [|c l IH]; simpl; intros w r H.
  - inversion H; reflexivity.
  - destruct (isspace c).
    + inversion H; subst; reflexivity.
    + destruct (takeword l) as [w' r'] eqn:E. inversion H; subst. specialize (IH _ _ eq_refl). simpl. lia.
Qed.
Lemma takeword_nonspace : forall c l w r, isspace c = false -> takeword (c :: l) = (w, r) -> (length r < length (c :: l))%nat.
Proof.
  intros c l w r Hc H. simpl in H. rewrite Hc in H. destruct (takeword l) as [w' r'] eqn:E.
  inversion H; subst. apply takeword_length in E. simpl. lia.
Qed.
Lemma takeline_length : forall l t r e, takeline l = (t, r, e) -> (length r <= length l)%nat.
Proof.
  induction l as [|c l IH]; simpl; intros t r e H.
  - inversion H; simpl; lia.
  - destruct (c =? 10).
    + inversion H; subst; lia.
    + destruct (c =? 13).
      * inversion H; subst. destruct l as [|d l']; simpl; [lia|]. destruct (d =? 10); simpl; lia.
      * destruct (takeline l) as [[t' r'] e'] eqn:E. inversion H; subst. specialize (IH _ _ _ eq_refl). lia.
Qed.
Lemma takeline_cons_length : forall c l t r e, takeline (c :: l) = (t, r, e) -> (length r < length (c :: l))%nat.
Proof.
  intros c l t r e H. simpl in H. destruct (c =? 10).
  - inversion H; subst; simpl; lia.
  - destruct (c =? 13).
    + inversion H; subst. destruct l as [|d l']; simpl; [lia|]. destruct (d =? 10); simpl; lia.
    + destruct (takeline l) as [[t' r'] e'] eqn:E. inversion H; subst. apply takeline_length in E. simpl. lia.
Qed.

(* ------------------------------------------------------------------ streams *)
(* the measure that decreases in the skipping loops *)
Definition mu (s : stream) : nat := if good s then S (length (rest s)) else O.
Definition slen (s : stream) : nat := length (rest s).

Lemma read_word_slen : forall s w s', read_word s = (w, s') -> (slen s' <= slen s)%nat.
Proof.
  unfold read_word, slen. intros s w s' H. destruct (good s).
  - destruct (dropwhile isspace (rest s)) as [|c l] eqn:D.
    + inversion H; subst; simpl; lia.
    + destruct (takeword (c :: l)) as [w' r] eqn:T. inversion H; subst; simpl.
      apply takeword_length in T. pose proof (dropwhile_length isspace (rest s)). rewrite D in *. lia.
  - inversion H; subst; simpl; lia.
Qed.
Lemma read_word_mu : forall s w s', good s = true -> read_word s = (w, s') -> (mu s' < mu s)%nat.
Proof.
  unfold read_word, mu. intros s w s' G H. rewrite G in *.
  destruct (dropwhile isspace (rest s)) as [|c l] eqn:D.
  - inversion H; subst; simpl. unfold good; simpl. lia.
  - destruct (takeword (c :: l)) as [w' r] eqn:T. inversion H; subst.
    pose proof (dropwhile_head _ _ _ _ D) as Hc. apply takeword_nonspace in T; [|assumption].
    pose proof (dropwhile_length isspace (rest s)) as HL. rewrite D in HL.
    unfold good; simpl. destruct r; simpl in *; lia.
Qed.
Lemma getline_slen : forall s t s', getline s = (t, s') -> (slen s' <= slen s)%nat.
Proof.
  unfold getline, slen. intros s t s' H. destruct (takeline (rest s)) as [[t' r] e] eqn:T.
  inversion H; subst; simpl. eapply takeline_length; eauto.
Qed.
Lemma getline_mu_le : forall s t s', getline s = (t, s') -> (mu s' <= mu s)%nat.
Proof.
  intros s t s' H. pose proof (getline_slen _ _ _ H) as HL. unfold getline in H.
  destruct (takeline (rest s)) as [[t' r] e] eqn:T. injection H as Ht Hs. subst s'. unfold mu, slen in *. simpl in *.
  destruct (good s) eqn:G.
  - unfold good in *; simpl. apply andb_true_iff in G. destruct G as [G1 G2].
    apply negb_true_iff in G1. apply negb_true_iff in G2. rewrite G1, G2. simpl.
    destruct (e && is_nil t'); simpl; lia.
  - unfold good at 1; simpl. rewrite orb_true_r. rewrite andb_false_r. lia.
Qed.
Lemma getline_mu_lt : forall s t s', good s = true -> getline s = (t, s') -> (mu s' < mu s)%nat.
Proof.
  intros s t s' G H. unfold getline in H. destruct (takeline (rest s)) as [[t' r] e] eqn:T.
  injection H as Ht Hs. subst s'. unfold mu. rewrite G. unfold good in *. simpl.
  apply andb_true_iff in G. destruct G as [G1 G2]. apply negb_true_iff in G1. apply negb_true_iff in G2.
  rewrite G1, G2. simpl.
  destruct (rest s) as [|c l] eqn:R.
  - simpl in T. inversion T; subst. simpl. lia.
  - apply takeline_cons_length in T. destruct (e && is_nil t'); simpl in *; lia.
Qed.

(* ------------------------------------------------------------------ _recordRead *)
Lemma rr_loop_total : forall fuel s w, (mu s <= fuel)%nat -> rr_loop fuel s w <> None.
Proof.
  induction fuel as [|f IH]; intros s w H; simpl.
  - unfold mu in H. destruct (good s); [lia|discriminate].
  - destruct (good s) eqn:G; [|discriminate].
    destruct (read_word s) as [w0 s1] eqn:RW. pose proof (read_word_mu _ _ _ G RW) as H1.
    destruct (trim w0) as [|c r] eqn:TW.
    + apply IH. lia.
    + destruct (bytes_eqb (c :: r) str_NA || negb (starts_hash (c :: r))); [discriminate|].
      destruct (getline s1) as [t s2] eqn:GL. pose proof (getline_mu_le _ _ _ GL). apply IH. lia.
Qed.
Lemma rr_loop_slen : forall fuel s w w' s', rr_loop fuel s w = Some (w', s') -> (slen s' <= slen s)%nat.
Proof.
  induction fuel as [|f IH]; intros s w w' s' H; simpl in H.
  - destruct (good s); [discriminate|]. inversion H; subst; lia.
  - destruct (good s); [|inversion H; subst; lia].
    destruct (read_word s) as [w0 s1] eqn:RW. pose proof (read_word_slen _ _ _ RW) as H1.
    destruct (trim w0) as [|c r] eqn:TW.
    + apply IH in H. lia.
    + destruct (bytes_eqb (c :: r) str_NA || negb (starts_hash (c :: r))).
      * inversion H; subst; assumption.
      * destruct (getline s1) as [t s2] eqn:GL. pose proof (getline_slen _ _ _ GL). apply IH in H. lia.
Qed.

Definition len (m : mon) : Z := Z.of_nat (slen (ms m)).

(* what every reading primitive guarantees: it returns, the input only shrinks, the ghost counter is untouched *)
Definition reads {A} (m : mon) (r : res A) : Prop :=
  match r with Ret _ m' => len m' <= len m /\ galloc m' = galloc m | Bad _ => False end.

Lemma mu_le_fuel : forall s, (mu s <= S (S (length (rest s))))%nat.
Proof. intros. unfold mu. destruct (good s); lia. Qed.

Lemma record_word_reads : forall m, reads m (record_word m).
Proof.
  intros m. unfold record_word, reads.
  destruct (rr_loop (S (S (length (rest (ms m))))) (ms m) []) as [[w s']|] eqn:R.
  - apply rr_loop_slen in R. unfold len, set_ms; simpl. split; [lia|reflexivity].
  - exfalso. eapply rr_loop_total; [apply mu_le_fuel|eassumption].
Qed.
Lemma read_int_reads : forall m, reads m (read_int m).
Proof.
  intros m. unfold read_int. pose proof (record_word_reads m) as H.
  destruct (record_word m) as [w m'|b]; simpl in *; [assumption|contradiction].
Qed.
Lemma read_double_reads : forall m, reads m (read_double m).
Proof.
  intros m. unfold read_double. pose proof (record_word_reads m) as H.
  destruct (record_word m) as [w m'|b]; simpl in *; [assumption|contradiction].
Qed.

(* ------------------------------------------------------------------ _recordReadVec *)
Lemma next_line_total : forall fuel s l, (mu s <= fuel)%nat -> next_line fuel s l <> None.
Proof.
  induction fuel as [|f IH]; intros s l H; simpl.
  - unfold mu in H. destruct (good s); [lia|discriminate].
  - destruct (good s) eqn:G; [|discriminate].
    destruct (getline s) as [t0 s1] eqn:GL. pose proof (getline_mu_lt _ _ _ G GL).
    destruct (negb (is_nil (trim t0)) && negb (starts_hash (trim t0))); [discriminate|]. apply IH. lia.
Qed.
Lemma next_line_slen : forall fuel s l l' s', next_line fuel s l = Some (l', s') -> (slen s' <= slen s)%nat.
Proof.
  induction fuel as [|f IH]; intros s l l' s' H; simpl in H.
  - destruct (good s); [discriminate|]. inversion H; subst; lia.
  - destruct (good s); [|inversion H; subst; lia].
    destruct (getline s) as [t0 s1] eqn:GL. pose proof (getline_slen _ _ _ GL).
    destruct (negb (is_nil (trim t0)) && negb (starts_hash (trim t0))).
    + inversion H; subst; assumption.
    + apply IH in H. lia.
Qed.
(* a non-empty line costs at least one byte *)
Lemma next_line_cases : forall fuel s l l' s', next_line fuel s l = Some (l', s') ->
  (l' = l /\ s' = s) \/ (slen s' < slen s)%nat \/ l' = [].
Proof.
  induction fuel as [|f IH]; intros s l l' s' H; simpl in H.
  - destruct (good s); [discriminate|]. inversion H; subst. left; split; reflexivity.
  - destruct (good s) eqn:G; [|inversion H; subst; left; split; reflexivity].
    destruct (getline s) as [t0 s1] eqn:GL.
    assert (HS : rest s = [] \/ (slen s1 < slen s)%nat).
    { unfold getline in GL. destruct (takeline (rest s)) as [[t' r] e] eqn:T. injection GL as Ht Hs. subst s1.
      destruct (rest s) as [|c l0] eqn:R; [left; reflexivity|right].
      apply takeline_cons_length in T. unfold slen; simpl. rewrite R. exact T. }
    pose proof (getline_slen _ _ _ GL) as HL.
    destruct (negb (is_nil (trim t0)) && negb (starts_hash (trim t0))) eqn:C.
    + inversion H; subst. destruct HS as [R|HS]; [|right; left; exact HS].
      (* rest s = [] : the line read is empty, it cannot be a data line *)
      unfold getline in GL. rewrite R in GL. simpl in GL. injection GL as Ht Hs. subst t0. simpl in C. discriminate.
    + specialize (IH _ _ _ _ H). destruct IH as [[E1 E2]|[IH|IH]].
      * subst. destruct HS as [R|HS]; [|right; left; exact HS].
        unfold getline in GL. rewrite R in GL. simpl in GL. injection GL as Ht Hs. subst t0. right; right. reflexivity.
      * right; left. lia.
      * right; right; exact IH.
Qed.
Lemma next_line_consumes : forall fuel s l' s', next_line fuel s [] = Some (l', s') -> l' <> [] -> (slen s' < slen s)%nat.
Proof.
  intros fuel s l' s' H N. destruct (next_line_cases _ _ _ _ _ H) as [[E _]|[E|E]]; [congruence|exact E|congruence].
Qed.

Lemma rv_words_fixed : forall nvalues base total ws ecr acc,
  0 <= base -> 0 <= ecr -> base + nvalues <= total ->
  rv_words true nvalues base total ws ecr acc <> VOOB.
Proof.
  induction ws as [|w r IH]; intros ecr acc Hb He Ht; simpl; [discriminate|].
  destruct (starts_hash w); [discriminate|].
  destruct (nvalues <=? ecr) eqn:C; [discriminate|]. apply Z.leb_gt in C.
  replace ((0 <=? base + ecr) && (base + ecr <? total)) with true.
  - apply IH; lia.
  - symmetry. apply andb_true_iff. split; [apply Z.leb_le|apply Z.ltb_lt]; lia.
Qed.
Lemma rv_words_count : forall fixs nvalues base total ws ecr acc ecr' acc',
  rv_words fixs nvalues base total ws ecr acc = VDone ecr' acc' ->
  Z.of_nat (length acc') - ecr' = Z.of_nat (length acc) - ecr.
Proof.
  induction ws as [|w r IH]; intros ecr acc ecr' acc' H; simpl in H.
  - inversion H; subst; reflexivity.
  - destruct (starts_hash w); [inversion H; subst; reflexivity|].
    destruct (if fixs then nvalues <=? ecr else nvalues <? ecr); [discriminate|].
    destruct ((0 <=? base + ecr) && (base + ecr <? total)); [|discriminate].
    apply IH in H. simpl length in H. lia.
Qed.
Lemma rv_words_nil_done : forall fixs nvalues base total ecr acc ecr' acc',
  rv_words fixs nvalues base total [] ecr acc = VDone ecr' acc' -> ecr' = ecr.
Proof. intros. simpl in H. inversion H; reflexivity. Qed.

Lemma words_nil : words [] = [].
Proof. reflexivity. Qed.

(* specification of the common part of the two vector readers, with the test of fixes/C09_1 *)
Definition vec_post (nvalues : Z) (m : mon) (r : res (option (list (list Z)))) : Prop :=
  match r with
  | Ret o m' => len m' <= len m /\ galloc m' = galloc m /\
                match o with
                | Some ws => Z.of_nat (length ws) = nvalues /\ (0 < nvalues -> len m' < len m)
                | None => True
                end
  | Bad _ => False
  end.
Lemma read_vec_raw_fixed : forall E site nvalues base total m,
  fix_store (e_cfg E) = true -> 0 <= base -> base + nvalues <= total ->
  vec_post nvalues m (read_vec_raw E site nvalues base total m).
Proof.
  intros E site nvalues base total m HF Hb Ht. unfold read_vec_raw, vec_post. rewrite HF.
  destruct (nvalues =? 0) eqn:C0.
  { apply Z.eqb_eq in C0. split; [lia|split; [reflexivity|]]. simpl. split; [lia|lia]. }
  destruct (good (ms m)) eqn:G.
  - destruct (next_line (S (S (length (rest (ms m))))) (ms m) []) as [[line s']|] eqn:NL.
    + pose proof (next_line_slen _ _ _ _ _ NL) as HS.
      destruct (rv_words true nvalues base total (words line) 0 []) as [ecr acc| |] eqn:RV.
      * destruct (nvalues =? ecr) eqn:C; unfold len, set_ms; simpl; (split; [lia|split; [reflexivity|]]); [|exact I].
        apply Z.eqb_eq in C. subst ecr. pose proof (rv_words_count _ _ _ _ _ _ _ _ _ RV) as HC. simpl in HC.
        rewrite frev_length. split; [lia|].
        intros Hpos. destruct line as [|c l].
        -- rewrite words_nil in RV. apply rv_words_nil_done in RV. lia.
        -- assert ((slen s' < slen (ms m))%nat) by (eapply next_line_consumes; [exact NL|discriminate]). lia.
      * unfold len, set_ms; simpl. split; [lia|split; [reflexivity|exact I]].
      * exfalso. eapply rv_words_fixed; [| |exact Ht|exact RV]; lia.
    + exfalso. eapply next_line_total; [apply mu_le_fuel|eassumption].
  - split; [lia|split; [reflexivity|exact I]].
Qed.

(* ------------------------------------------------------------------ common tools for the class readers *)
(* what a class reader guarantees: it returns; the input only shrinks; the ghost counter grows by at most [cost];
   a returned object satisfies [wf] *)
Definition rspec {A} (cost : Z) (wf : A -> Prop) (m : mon) (r : res (option A)) : Prop :=
  match r with
  | Ret o m' => len m' <= len m /\ galloc m <= galloc m' <= galloc m + cost /\
                match o with Some a => wf a | None => True end
  | Bad _ => False
  end.

Lemma remaining_le_len : forall m, 0 <= remaining m <= len m.
Proof. intros. unfold remaining, len, slen. destruct (good (ms m)); lia. Qed.
Lemma count_ok_fixed : forall E n m, fix_counts (e_cfg E) = true -> count_ok E n m = true -> 0 <= n <= len m.
Proof.
  intros E n m HF H. unfold count_ok in H. rewrite HF in H. apply andb_true_iff in H. destruct H as [H1 H2].
  apply Z.leb_le in H1. apply Z.leb_le in H2. pose proof (remaining_le_len m). lia.
Qed.
Lemma alloc_ok : forall E site n sz m, 0 <= n -> n * sz <= e_cap E ->
  alloc E site n sz m = Ret tt (mkM (ms m) (galloc m + n * sz)).
Proof.
  intros. unfold alloc. replace (n <? 0) with false by (symmetry; apply Z.ltb_ge; lia).
  replace (e_cap E <? n * sz) with false by (symmetry; apply Z.ltb_ge; lia). reflexivity.
Qed.
Lemma len_mkM : forall s g, len (mkM s g) = Z.of_nat (slen s).
Proof. reflexivity. Qed.


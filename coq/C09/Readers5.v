(* C09 model, layer 5: the binary grid format. GridBmp::readGridFromFile (/repo/src/OutputFormat/GridBmp.cpp:417) on the BYTES of a file:
   the two headers (14 + 40 bytes, little-endian fields composed in 32-bit int arithmetic), the palette loop that fills the three
   fixed arrays ir / ig / ib[256] (a store at rank >= 256 is the monitored out-of-bounds event BmpOOB), the tests on the header,
   the pixel loops (8, 24, 32 bits per pixel; any other depth is refused at the first pixel) with the padding of each row.
   _readIn() delivers (unsigned char) EOF = 255 once the file is exhausted.  Proofs: Proofs5.v. *)
From Coq Require Import List ZArith QArith Bool.
From Gst Require Import C09.Model C09.Readers.
Import ListNotations.
Local Open Scope Z_scope.

Definition read_in (l : list Z) : Z * list Z := match l with [] => (255, []) | c :: r => (c, r) end.
(* _compose(nb): value += c * factor; factor *= 0x100, in int *)
Fixpoint compose (nb : nat) (factor value : Z) (l : list Z) : Z * list Z :=
  match nb with
  | O => (value, l)
  | S k => let (c, r) := read_in l in compose k (wrap32 (factor * 256)) (wrap32 (value + wrap32 (c * factor))) r
  end.
Definition compose2 (l : list Z) := compose 2 1 0 l.
Definition compose4 (l : list Z) := compose 4 1 0 l.

(* the palette loop: for (icol < ncol) { ir[icol] = ..; ig[icol] = ..; ib[icol] = ..; skip one byte }: the model keeps r + g + b;
   None = a store outside the 256-element arrays *)
Fixpoint palette (n : nat) (icol : Z) (pal : list Z) (l : list Z) : option (list Z * list Z) :=
  match n with
  | O => Some (frev pal, l)
  | S k =>
      if 256 <=? icol then None else
      let (r, l1) := read_in l in let (g, l2) := read_in l1 in let (b, l3) := read_in l2 in let (_, l4) := read_in l3 in
      palette k (icol + 1) ((r + g + b) :: pal) l4
  end.
(* _rgb2num: (unsigned char) clamp((r + g + b) / 3.) *)
Definition gray (s : Z) : Z := Z.min 255 (Z.max 0 (s / 3)).
Fixpoint skip_in (n : nat) (l : list Z) : list Z := match n with O => l | S k => skip_in k (snd (read_in l)) end.
(* one row of nx pixels; -1 = a value the model does not predict: a palette entry that the file did not set (8 bits), or the
   32-bit pixel (which three of the four bytes are averaged depends on the evaluation order of the arguments of _rgb2num) *)
Fixpoint row (nbits np : Z) (pal : list Z) (n : nat) (l : list Z) (acc : list Z) : list Z * list Z :=
  match n with
  | O => (acc, l)
  | S k =>
      if nbits =? 8 then
        let (c, r) := read_in l in
        row nbits np pal k r ((if c <? np then gray (nth (Z.to_nat c) pal 0) else -1) :: acc)
      else if nbits =? 24 then
        let (a, l1) := read_in l in let (b, l2) := read_in l1 in let (c, l3) := read_in l2 in
        row nbits np pal k l3 (gray (a + b + c) :: acc)
      else
        row nbits np pal k (skip_in 4 l) (-1 :: acc)
  end.
Fixpoint rows (nbits np : Z) (pal : list Z) (ny nx npad : nat) (l : list Z) (acc : list Z) : list Z :=
  match ny with
  | O => frev acc
  | S k => let (acc', l') := row nbits np pal nx l acc in rows nbits np pal k nx npad (skip_in npad l') acc'
  end.

Inductive bmpout := BmpFail | BmpOOB | BmpOk (nx0 nx1 : Z) (dx0 dx1 : num) (tab : list Z).
Definition bmp_dx (nd : Z) : num := if 0 <? nd then Num (Qmake 100 (Z.to_pos nd)) else Num 1.

Definition bmp_read (f : list Z) : bmpout :=
  let (_, l) := compose2 f in let (_, l) := compose4 l in let (_, l) := compose4 l in let (_, l) := compose4 l in
  let (_, l) := compose4 l in
  let (nx0, l) := compose4 l in
  let (nx1, l) := compose4 l in
  let (_, l) := compose2 l in
  let (nbits, l) := compose2 l in
  let (compress, l) := compose4 l in
  let (_, l) := compose4 l in
  let (ndx, l) := compose4 l in
  let (ndy, l) := compose4 l in
  let (ncol, l) := compose4 l in
  let (_, l) := compose4 l in
  if 256 <? ncol then BmpFail else
  match palette (Z.to_nat ncol) 0 [] l with
  | None => BmpOOB
  | Some (pal, l) =>
      if negb (compress =? 0) then BmpFail else
      (* st_isCountInFILE(file, nx0 * nx1): positive and not above the bytes still to be read *)
      if (nx0 <=? 0) || (nx1 <=? 0) || (zlen l <? nx0 * nx1) then BmpFail else
      if negb ((nbits =? 8) || (nbits =? 24) || (nbits =? 32)) then BmpFail else      (* refused at the first pixel *)
      let noct := Z.quot (wrap32 (nx0 * nbits)) 8 in
      let npad0 := 4 - Z.rem noct 4 in
      let npad := if npad0 =? 4 then 0 else npad0 in
      BmpOk nx0 nx1 (bmp_dx ndx) (bmp_dx ndy)
            (rows nbits (zlen pal) pal (Z.to_nat nx1) (Z.to_nat nx0) (Z.to_nat npad) l [])
  end.

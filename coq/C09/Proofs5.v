(* C09 proofs, layer 5: the BMP reader (Readers5.v).
     - the palette loop never stores outside ir / ig / ib[256]: the test "ncol > 256" precedes it and nothing changes ncol in between;
     - the pixel loops deliver exactly nx0 * nx1 values (the stores tab[ecr++] stay inside tab, sized nx0 * nx1), with nx0, nx1 > 0 and
       nx0 * nx1 not above the length of the file (allocation bound 8 |f| bytes);
     - everything is structural recursion on counts bounded by the file: the reader is total. *)
From Coq Require Import List ZArith QArith Bool Lia Arith.
From Gst Require Import C09.Model C09.Readers C09.Readers5 C09.Proofs_prim.
Import ListNotations.
Local Open Scope Z_scope.

Lemma palette_in_bounds : forall n icol pal l, 0 <= icol -> icol + Z.of_nat n <= 256 -> palette n icol pal l <> None.
Proof.
  induction n as [|k IH]; intros icol pal l H0 H; cbn [palette]; [discriminate|].
  replace (256 <=? icol) with false by (symmetry; apply Z.leb_gt; lia).
  destruct (read_in l) as [r l1]. destruct (read_in l1) as [g l2]. destruct (read_in l2) as [b l3]. destruct (read_in l3) as [x l4].
  apply IH; lia.
Qed.
Theorem bmp_no_oob : forall f, bmp_read f <> BmpOOB.
Proof.
  intros f. unfold bmp_read.
  repeat match goal with |- context [let (_, _) := ?c in _] => destruct c end.
  match goal with |- (if 256 <? ?n then _ else _) <> _ => destruct (256 <? n) eqn:C; [discriminate|]; apply Z.ltb_ge in C;
    pose proof (palette_in_bounds (Z.to_nat n) 0 [] l13 ltac:(lia) ltac:(lia)) as HP end.
  match goal with |- match ?p with _ => _ end <> _ => destruct p as [[pal l']|]; [|congruence] end.
  repeat match goal with |- (if ?c then _ else _) <> _ => destruct c; try discriminate end.
Qed.

Lemma row_length : forall nbits np pal n l acc acc' l', row nbits np pal n l acc = (acc', l') -> length acc' = (length acc + n)%nat.
Proof.
  induction n as [|k IH]; intros l acc acc' l' H; cbn [row] in H; [inversion H; lia|].
  destruct (nbits =? 8).
  - destruct (read_in l) as [c r]. apply IH in H. simpl in H. lia.
  - destruct (nbits =? 24).
    + destruct (read_in l) as [a l1]. destruct (read_in l1) as [b l2]. destruct (read_in l2) as [c l3]. apply IH in H. simpl in H. lia.
    + apply IH in H. simpl in H. lia.
Qed.
Lemma rows_length : forall nbits np pal ny nx npad l acc, length (rows nbits np pal ny nx npad l acc) = (length acc + ny * nx)%nat.
Proof.
  induction ny as [|k IH]; intros nx npad l acc; cbn [rows]; [rewrite frev_length; lia|].
  destruct (row nbits np pal nx l acc) as [acc' l'] eqn:R. apply row_length in R. rewrite IH, R. lia.
Qed.

Lemma read_in_length : forall l c r, read_in l = (c, r) -> (length r <= length l)%nat.
Proof. intros [|x l] c r H; simpl in H; inversion H; subst; simpl; lia. Qed.
Lemma compose_length : forall nb fa v l v' l', compose nb fa v l = (v', l') -> (length l' <= length l)%nat.
Proof.
  induction nb as [|k IH]; intros fa v l v' l' H; cbn [compose] in H; [inversion H; subst; lia|].
  destruct (read_in l) as [c r] eqn:R. apply read_in_length in R. apply IH in H. lia.
Qed.
Lemma palette_length : forall n icol pal l p l', palette n icol pal l = Some (p, l') -> (length l' <= length l)%nat.
Proof.
  induction n as [|k IH]; intros icol pal l p l' H; cbn [palette] in H; [inversion H; subst; lia|].
  destruct (256 <=? icol); [discriminate|].
  destruct (read_in l) as [r l1] eqn:R1. destruct (read_in l1) as [g l2] eqn:R2. destruct (read_in l2) as [b l3] eqn:R3.
  destruct (read_in l3) as [x l4] eqn:R4. apply read_in_length in R1, R2, R3, R4. apply IH in H. lia.
Qed.

Theorem bmp_pixels : forall f nx0 nx1 dx0 dx1 tab, bmp_read f = BmpOk nx0 nx1 dx0 dx1 tab ->
  0 < nx0 /\ 0 < nx1 /\ zlen tab = nx0 * nx1 /\ nx0 * nx1 <= zlen f.
Proof.
  intros f nx0 nx1 dx0 dx1 tab H. unfold bmp_read in H.
  repeat match type of H with context [let (_, _) := ?c in _] =>
    let v := fresh "v" in let l := fresh "l" in let E := fresh "E" in destruct c as [v l] eqn:E; apply compose_length in E end.
  match type of H with (if ?c then _ else _) = _ => destruct c; [discriminate|] end.
  match type of H with match ?p with _ => _ end = _ => destruct p as [[pal lp]|] eqn:EP; [|discriminate] end.
  apply palette_length in EP.
  match type of H with (if ?c then _ else _) = _ => destruct c; [discriminate|] end.
  match type of H with (if ?c then _ else _) = _ => destruct c eqn:CG; [discriminate|] end.
  match type of H with (if ?c then _ else _) = _ => destruct c; [discriminate|] end.
  apply orb_false_iff in CG. destruct CG as [CG C3]. apply orb_false_iff in CG. destruct CG as [C1 C2].
  apply Z.leb_gt in C1. apply Z.leb_gt in C2. apply Z.ltb_ge in C3.
  inversion H; subst. split; [assumption|split; [assumption|]]. split.
  - unfold zlen. rewrite rows_length. simpl length. nia.
  - unfold zlen in *. lia.
Qed.

(* C09 — property theorems only. Each is closed by [exact] of a lemma of the Proofs_* files.
   Readers = the executable Gallina mirrors (coq/C09/Model.v, Readers.v) of ASerializable::_recordRead /
   _recordReadVec / _recordReadVecInPlace and of the _deserialize of Db, DbGrid, Table, Polygons, PolyElem,
   PolyLine2D, Faults, run by X::createFromNF on the BYTES of a file; monitors: bounds-checked stores (OOB),
   ghost allocation counter + cap (Throw), fuelled loops (Hang).
   [hyp_now E f]   = the file is shorter than 2^31 bytes; E has at least the fixes present in the code NOW (C09_1, C09_2,
                     C09_3 second hunk, C09_4 — cfg_now, the configuration the correspondence ties to /repo); its fuel exceeds
                     |f|; its allocation cap is not below the proved bound.
   [hyp_fixed E f] = the same plus the proposed fixes/C09_5 (cfg_fixed).
   The statements quantify over ALL byte strings f. *)
From Coq Require Import List ZArith QArith Bool.
From Gst Require Import C09.Model C09.Readers C09.Spec C09.Witness C09.Proofs_prim C09.Proofs_loc C09.Proofs_wf C09.Proofs_top
                        C09.Proofs_refute C09.Proofs_main.
Import ListNotations.
Local Open Scope Z_scope.

(* ---------------------------------------------------------------- the code as it is now *)
(* no reader ever stores outside a buffer *)
Theorem C09_no_oob : forall E f, hyp_now E f -> all_loaders (fun A o => no_oob o) E f.
Proof. exact main_no_oob. Qed.
Print Assumptions C09_no_oob.

(* fuel |f|+1 is never exhausted: every loop consumes input or stops *)
Theorem C09_total : forall E f, hyp_now E f -> all_loaders (fun A o => no_hang o) E f.
Proof. exact main_total. Qed.
Print Assumptions C09_total.

(* Table, Polygons, PolyElem, PolyLine2D, Faults: clean outcome, allocation <= 256|f| + 4096 bytes, class invariant:
   good_outcome wf b o  :=  clean o /\ 0 <= ghost_of o <= b /\ forall a, loaded o a -> wf a *)
Theorem C09_alloc_bounded : forall E f, hyp_now E f ->
  good_outcome wf_table (alloc_bound (flen f)) (load_Table E f) /\
  good_outcome wf_polygons (alloc_bound (flen f)) (load_Polygons E f) /\
  good_outcome wf_polyelem (alloc_bound (flen f)) (load_PolyElem E f) /\
  good_outcome wf_polyline (alloc_bound (flen f)) (load_PolyLine2D E f) /\
  good_outcome wf_faults (alloc_bound (flen f)) (load_Faults E f).
Proof. exact main_five. Qed.
Print Assumptions C09_alloc_bounded.

(* all seven loaders: the only thing that can still escape is std::bad_alloc out of Db::setLocatorByUID (site 16) *)
Theorem C09_no_exception_partial : forall E f, hyp_now E f -> all_loaders (fun A o => safe_outcome o) E f.
Proof. exact main_only_throw16. Qed.
Print Assumptions C09_no_exception_partial.

(* in particular for every interruption point of a write *)
Corollary C09_prefix_closed : forall E f n, hyp_now E (firstn n f) -> all_loaders (fun A o => safe_outcome o) E (firstn n f).
Proof. exact main_prefix. Qed.
Print Assumptions C09_prefix_closed.

(* what the current code still falsifies for Db / DbGrid: a locator rank read from the file is used as a size
   ('x2000000000': 8 GB requested; 'x100001': 400 kB for a 21-byte file) and pads the role list with UID 0 ('x3' on a single column: roles [0;0;0]) *)
Theorem C09_alloc_bounded_refuted : load_Db (now_env_of w_locsize) w_locsize = Crashed (Throw 1 16) /\
  alloc_bound (flen w_locghost) < ghost_of (load_Db (now_env_of w_locghost) w_locghost).
Proof. exact (conj now_locsize now_locsize_ghost). Qed.
Print Assumptions C09_alloc_bounded_refuted.
Theorem C09_wellformed_refuted : exists d g, load_Db (now_env_of w_locrank) w_locrank = Loaded d g /\ ~ wf_db d.
Proof. exact now_locrank. Qed.
Print Assumptions C09_wellformed_refuted.

(* ---------------------------------------------------------------- with the proposed fixes/C09_5 *)
(* Db and DbGrid: clean, allocation bounded (DbGrid: 16|f|^2 + 512|f| + 8192, the two ndim x ndim rotation matrices), well formed *)
Theorem C09_wellformed : forall E f, hyp_fixed E f ->
  good_outcome wf_db (alloc_bound (flen f)) (load_Db E f) /\
  good_outcome wf_dbgrid (alloc_bound_grid (flen f)) (load_DbGrid E f).
Proof. exact main_db_fixed. Qed.
Print Assumptions C09_wellformed.
Theorem C09_no_exception : forall E f, hyp_fixed E f -> all_loaders (fun A o => clean o) E f.
Proof. exact main_clean_fixed. Qed.
Print Assumptions C09_no_exception.

(* ---------------------------------------------------------------- any configuration *)
(* _recordRead: returns, consumes a suffix, allocates nothing *)
Theorem C09_recordRead_total : forall m, reads m (record_word m).
Proof. exact main_recordRead. Qed.
Print Assumptions C09_recordRead_total.
(* the invariants evaluated by the runner on the model's objects are the declarative ones *)
Theorem C09_wf_db_decidable : forall d, wf_db_b d = true <-> wf_db d.
Proof. exact wf_db_b_spec. Qed.
Print Assumptions C09_wf_db_decidable.
Theorem C09_wf_dbgrid_decidable : forall x, wf_dbgrid_b x = true <-> wf_dbgrid x.
Proof. exact wf_dbgrid_b_spec. Qed.
Print Assumptions C09_wf_dbgrid_decidable.

(* ---------------------------------------------------------------- regression and non-vacuity (concrete files, vm_compute) *)
(* the files that broke the readers before the fixes C09_1..4 (cfg_asis) ... *)
Example C09_regression_before_fixes :
  load_Db (asis_env w_store_inplace) w_store_inplace = Crashed (OOB 14) /\
  load_Db (asis_env w_store_vec) w_store_vec = Crashed (OOB 11) /\
  load_PolyLine2D (asis_env w_store_poly) w_store_poly = Crashed (OOB 42) /\
  load_DbGrid (asis_env w_gridread) w_gridread = Crashed (OOB 17) /\
  load_Db (asis_env w_alloc) w_alloc = Crashed (Throw 1 11) /\
  load_Db (asis_env w_negative) w_negative = Crashed (Throw 2 13) /\
  load_Table (asis_env w_assert) w_assert = Crashed (Throw 3 31) /\
  load_Polygons (asis_env w_hang) w_hang = Crashed (Hang 43).
Proof. exact asis_witnesses. Qed.
(* ... fail cleanly now (each file is replayed on the real loader by checks/C09.py) *)
Example C09_regression_now :
  load_Db (now_env_of w_store_inplace) w_store_inplace = Failed 72 /\
  load_Db (now_env_of w_store_vec) w_store_vec = Failed 40 /\
  load_PolyLine2D (now_env_of w_store_poly) w_store_poly = Failed 32 /\
  load_DbGrid (now_env_of w_gridread) w_gridread = Failed 124 /\
  load_Db (now_env_of w_alloc) w_alloc = Failed 0 /\
  load_Db (now_env_of w_negative) w_negative = Failed 0 /\
  load_Table (now_env_of w_assert) w_assert = Failed 0 /\
  load_Polygons (now_env_of w_hang) w_hang = Failed 0 /\
  load_Db (now_env_of w_negnech) w_negnech = Failed 0 /\
  load_DbGrid (now_env_of w_gridtrunc) w_gridtrunc = Failed 124.
Proof. exact now_on_witnesses. Qed.
(* fixes/C09_5 refuses ranks beyond the columns, fillers and doubly declared ranks; declarations in any order still load *)
Example C09_nonvacuous_C09_5 :
  load_Db (fix_env w_locsize) w_locsize = Failed 72 /\ load_Db (fix_env w_locrank) w_locrank = Failed 72 /\
  load_Db (fix_env w_filler) w_filler = Failed 240 /\ load_Db (fix_env w_rank_dup) w_rank_dup = Failed 236 /\
  load_Db (fix_env v_db_unordered) v_db_unordered = load_Db (now_env_of v_db_unordered) v_db_unordered /\
  exists d g, load_Db (fix_env v_db_unordered) v_db_unordered = Loaded d g /\ nth 0 (d_loc d) [] = [1; 0] /\ wf_db_b d = true.
Proof. exact fixed_on_locators. Qed.
(* the hypotheses are satisfiable by the environments the runner uses, and valid files load to non-trivial objects *)
Example C09_nonvacuous_hyp : hyp_now (now_env_of v_db) v_db /\ hyp_fixed (fix_env v_dbgrid) v_dbgrid.
Proof.
  exact (match envs_satisfy_hyps with conj a (conj b (conj c d)) => conj (conj c a) (conj d b) end).
Qed.
Example C09_nonvacuous_valid :
  (exists d g, load_Db (now_env_of v_db) v_db = Loaded d g /\ load_Db (fix_env v_db) v_db = Loaded d g /\ load_Db (asis_env v_db) v_db = Loaded d g /\ d_ncol d = 2 /\ d_nech d = 3 /\ wf_db_b d = true) /\
  (exists x g, load_DbGrid (now_env_of v_dbgrid) v_dbgrid = Loaded x g /\ load_DbGrid (fix_env v_dbgrid) v_dbgrid = Loaded x g /\ load_DbGrid (asis_env v_dbgrid) v_dbgrid = Loaded x g /\ d_nech (dg_db x) = 4 /\ wf_dbgrid_b x = true) /\
  (exists t g, load_Table (now_env_of v_table) v_table = Loaded t g /\ load_Table (asis_env v_table) v_table = Loaded t g /\ t_nrows t = 2 /\ wf_table_b t = true) /\
  (exists l g, load_Polygons (now_env_of v_polygons) v_polygons = Loaded l g /\ load_Polygons (asis_env v_polygons) v_polygons = Loaded l g /\ length l = 1%nat /\ wf_polygons_b l = true).
Proof. exact valid_files_load. Qed.

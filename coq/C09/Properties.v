(* C09 — property theorems only. Each is closed by [exact] of a lemma of the Proofs_* files.
   Readers = the executable Gallina mirrors (coq/C09/Model.v, Readers.v) of ASerializable::_recordRead /
   _recordReadVec / _recordReadVecInPlace and of the _deserialize of Db, DbGrid, Table, Polygons, PolyElem,
   PolyLine2D, Faults, run by X::createFromNF on the BYTES of a file; monitors: bounds-checked stores (OOB),
   ghost allocation counter + cap (Throw), fuelled loops (Hang).
   [hyp E f] = the file is shorter than 2^31 bytes; E is the code as it is NOW (cfg_fixed: the fixes C09_1 .. C09_5 and
   C08_12 are in /repo; this is the configuration the correspondence of checks/C09.py ties to the real loaders); its
   fuel exceeds |f|; its allocation cap is not below the proved bound.
   Every fix of fixes/C09_1 .. C09_17 is committed in /repo: all the theorems down to C09_csv speak about the code as it is now;
   the files that broke the readers before each fix are kept as regression cases (C09_regression_*: the reader models before
   the fixes still fail on them, the check replays them on the real loaders and recognises the old failure if a fix is reverted).
   Only C09_csv_no_exception and C09_pending_* speak about readers WITH proposed fixes (fixes/C09_18 .. C09_22).
   The statements quantify over ALL byte strings f. *)
From Coq Require Import List ZArith QArith Bool.
From Gst Require Import C09.Model C09.Readers C09.Readers2 C09.Readers3 C09.Readers4 C09.Spec C09.Witness C09.Proofs_prim C09.Proofs_loc
                        C09.Proofs_wf C09.Proofs_top C09.Proofs_refute C09.Proofs_main C09.Proofs2_top C09.Proofs2_refute
                        C09.Proofs3_csv C09.Proofs4 C09.Readers5 C09.Proofs5.
Import ListNotations.
Local Open Scope Z_scope.

(* no reader ever stores outside a buffer *)
Theorem C09_no_oob : forall E f, hyp E f -> all_loaders (fun A o => no_oob o) E f.
Proof. exact main_all_no_oob. Qed.
Print Assumptions C09_no_oob.

(* allocation requested while reading is bounded by the file length: 256|f| + 4096 bytes
   (DbGrid: 16|f|^2 + 512|f| + 8192, the two ndim x ndim rotation matrices) *)
Theorem C09_alloc_bounded : forall E f, hyp E f ->
  ghost_of (load_Db E f) <= alloc_bound (flen f) /\ ghost_of (load_DbGrid E f) <= alloc_bound_grid (flen f) /\
  ghost_of (load_Table E f) <= alloc_bound (flen f) /\ ghost_of (load_Polygons E f) <= alloc_bound (flen f) /\
  ghost_of (load_PolyElem E f) <= alloc_bound (flen f) /\ ghost_of (load_PolyLine2D E f) <= alloc_bound (flen f) /\
  ghost_of (load_Faults E f) <= alloc_bound (flen f).
Proof. exact main_all_alloc. Qed.
Print Assumptions C09_alloc_bounded.

(* no allocation fails, no size is negative, no assertion trips: nothing escapes the loader *)
Theorem C09_no_exception : forall E f, hyp E f -> all_loaders (fun A o => no_throw o) E f.
Proof. exact main_all_no_throw. Qed.
Print Assumptions C09_no_exception.

(* fuel |f|+1 is never exhausted: every loop consumes input or stops *)
Theorem C09_total : forall E f, hyp E f -> all_loaders (fun A o => no_hang o) E f.
Proof. exact main_all_total. Qed.
Print Assumptions C09_total.

(* a successful read returns an object that satisfies the class invariant (Db: rectangular table, names pairwise different,
   uid table = columns, role lists without repetition, made of columns, pairwise disjoint; DbGrid: + samples = grid nodes) *)
Theorem C09_wellformed : forall E f, hyp E f ->
  (forall d, loaded (load_Db E f) d -> wf_db d) /\ (forall x, loaded (load_DbGrid E f) x -> wf_dbgrid x) /\
  (forall t, loaded (load_Table E f) t -> wf_table t) /\ (forall l, loaded (load_Polygons E f) l -> wf_polygons l) /\
  (forall p, loaded (load_PolyElem E f) p -> wf_polyelem p) /\ (forall p, loaded (load_PolyLine2D E f) p -> wf_polyline p) /\
  (forall l, loaded (load_Faults E f) l -> wf_faults l).
Proof. exact main_all_wf. Qed.
Print Assumptions C09_wellformed.

(* in particular for every interruption point of a write *)
Corollary C09_prefix_closed : forall E f n, hyp E (firstn n f) -> all_loaders (fun A o => clean o) E (firstn n f).
Proof. exact main_all_prefix. Qed.
Print Assumptions C09_prefix_closed.

(* ---------------------------------------------------------------- second wave: Rule, AnamHermite, Neigh family, Vario, Model
   good_outcome wf b o  :=  clean o (no OOB, no exception, no exhausted fuel) /\ 0 <= ghost_of o <= b /\ forall a, loaded o a -> wf a.
   full_env = the code as it is now: now_env + the fixes/C09_11 (Rule), C09_12 (ANeigh), C09_13 (Vario), C09_14 (Model), all in /repo
   (e_prop E = p_all). What the readers did before these fixes is in C09_regression_before_C09_11_14 below. *)
Theorem C09_anamhermite : forall E f, flen f < 2147483648 -> now_env E f (alloc_bound (flen f)) ->
  good_outcome wf_anamh (alloc_bound (flen f)) (load_AnamHermite E f).
Proof. exact P_anamh. Qed.
Print Assumptions C09_anamhermite.
Theorem C09_rule : forall E f, flen f < 2147483648 -> full_env E f (alloc_bound (flen f)) ->
  good_outcome wf_rule (alloc_bound (flen f)) (load_Rule E f).
Proof. exact P_rule. Qed.
Print Assumptions C09_rule.
Theorem C09_neigh : forall E f, flen f < 2147483648 -> full_env E f (alloc_bound_grid (flen f)) ->
  good_outcome wf_neighmoving (alloc_bound_grid (flen f)) (load_NeighMoving E f).
Proof. exact P_neighm. Qed.
Print Assumptions C09_neigh.
Theorem C09_neigh_simple : forall E f, flen f < 2147483648 -> full_env E f (alloc_bound (flen f)) ->
  good_outcome (fun nd => 0 < nd) (alloc_bound (flen f)) (load_NeighUnique E f) /\
  good_outcome (fun p => 0 < fst p) (alloc_bound (flen f)) (load_NeighBench E f) /\
  good_outcome (fun p => 0 < fst p) (alloc_bound (flen f)) (load_NeighCell E f).
Proof. exact P_neighs. Qed.
Print Assumptions C09_neigh_simple.
Theorem C09_neighimage : forall E f, flen f < 2147483648 -> full_env E f (alloc_bound (flen f)) ->
  good_outcome (fun p => 0 < fst (fst p) /\ zlen (snd p) = fst (fst p)) (alloc_bound (flen f)) (load_NeighImage E f).
Proof. exact (fun E f _ H => load_NeighImage_full E f H). Qed.
Print Assumptions C09_neighimage.
(* allocation: 64|f|^2 + 512|f| + 8192 (per direction: vectors of ndim values, result arrays present in the file) *)
Theorem C09_vario : forall E f, flen f < 2147483648 -> full_env E f (alloc_bound_vario (flen f)) ->
  good_outcome wf_vario (alloc_bound_vario (flen f)) (load_Vario E f).
Proof. exact P_vario. Qed.
Print Assumptions C09_vario.
(* whatever the constructors of covariances and drifts answer; allocation: 64|f|^3 + ... (ndim x ndim tensors per structure) *)
Theorem C09_model : forall E f, flen f < 2147483648 -> forall acov adrift, full_env E f (alloc_bound_model (flen f)) ->
  good_outcome wf_gmodel (alloc_bound_model (flen f)) (load_Model acov adrift E f).
Proof. exact P_model. Qed.
Print Assumptions C09_model.
(* regression cases: the readers BEFORE fixes/C09_11 .. C09_14 on five files (Rule: null pointer table; Rule: incomplete tree returned;
   Vario: a refused direction, results and directions no longer match; ANeigh: 48 GB requested; Model: an exception of a constructor
   escapes), and the code as it is now on the same files (each file replayed on the real loaders by checks/C09.py) *)
Example C09_regression_before_C09_11_14 :
  load_Rule (before_env w_rule_root) w_rule_root = Crashed (OOB 52) /\
  (exists r g, load_Rule (before_env w_rule_half) w_rule_half = Loaded r g /\ wf_rule_b r = false) /\
  (exists v g, load_Vario (before_env w_vario_mixed) w_vario_mixed = Loaded v g /\ wf_vario_b v = false) /\
  load_NeighUnique (before_env w_neigh_huge) w_neigh_huge = Crashed (Throw 1 71) /\
  load_Model (fun _ => false) (fun _ => true) (before_env w_model_cov) w_model_cov = Crashed (Throw 4 93).
Proof. exact before_witnesses. Qed.
Example C09_regression_second_wave_now :
  load_Rule (full_env_of w_rule_root) w_rule_root = Failed 40 /\
  load_Rule (full_env_of w_rule_half) w_rule_half = Failed 80 /\
  load_Vario (full_env_of w_vario_mixed) w_vario_mixed = Failed 368 /\
  load_NeighUnique (full_env_of w_neigh_huge) w_neigh_huge = Failed 0 /\
  load_Model (fun _ => false) (fun _ => true) (full_env_of w_model_cov) w_model_cov = Failed 120.
Proof. exact now_witnesses. Qed.
Example C09_second_wave_nonvacuous :
  (flen w_model_cov < 2147483648 /\ full_env (full_env_of w_model_cov) w_model_cov (alloc_bound_model (flen w_model_cov))) /\
  (exists r g, load_Rule (full_env_of v_rule) v_rule = Loaded r g /\ load_Rule (before_env v_rule) v_rule = Loaded r g /\ wf_rule_b r = true /\ ru_nnode r = 3) /\
  (exists n g, load_NeighMoving (full_env_of v_neighmoving) v_neighmoving = Loaded n g /\ nm_ndim n = 2 /\ zlen (nm_coeffs n) = 2) /\
  (exists v g, load_Vario (full_env_of v_vario) v_vario = Loaded v g /\ load_Vario (before_env v_vario) v_vario = Loaded v g /\ wf_vario_b v = true /\ va_ndir v = 1) /\
  (exists x g, load_Model (fun _ => true) (fun _ => true) (full_env_of w_model_cov) w_model_cov = Loaded x g /\ gm_ncova x = 1).
Proof. exact (conj full_env_sat valid2). Qed.

(* ---------------------------------------------------------------- CSV: csv_table_read + Db::resetFromCSV (the code as it is now: fixc = true)
   never loops (fuel |f|+1); everything built is bounded by the file (values, names, rows <= |f|; the Db array <= 2|f|); an object is
   returned only for a full ncol x nrow table (>= 1 column, >= 1 sample; hence the copy loop tab[icol + ncol * iech] stays inside the
   table, C09_csv_copy_in_bounds), one name per column, every name a word, names pairwise different, the uid table enumerates the
   columns, the 29 role lists are made of distinct live columns (C09_csv_wellformed: the class invariant wf_db holds). The only exception left is std::bad_alloc out of setLocatorByUID when a column NAME carries a huge
   rank ("x2000000000": found in this round, fixes/C09_18 proposed); with that fix nothing escapes (C09_csv_no_exception). *)
Theorem C09_csv_total : forall E fixc fixr F f, db_from_csv E fixc fixr F f <> CsvHang.
Proof. exact csv_total. Qed.
Print Assumptions C09_csv_total.
Theorem C09_csv : forall E fixr F f,
  match db_from_csv E true fixr F f with
  | CsvOk d => wf_csv_db d /\ d_nech d <= flen f /\ d_ncol d <= flen f + 1 /\ zlen (d_array d) <= 2 * flen f
  | CsvFail => True
  | CsvAlloc => fixr = false \/ e_cap E < 4 * (flen f + 2)
  | CsvThrow | CsvHang => False
  end.
Proof. exact csv_spec_file. Qed.
Print Assumptions C09_csv.
(* wf_csv_db = the class invariant of Db (wf_db: names pairwise different included) + at least one column and one sample + names are words *)
Theorem C09_csv_wellformed : forall d, wf_csv_db d -> wf_db d /\ Forall is_word (d_names d) /\ 0 < d_ncol d /\ 0 < d_nech d.
Proof. exact (fun d H => conj (wf_csv_db_wf_db d H) (match H with conj a (conj b (conj _ (conj w _))) => conj w (conj a b) end)). Qed.
Print Assumptions C09_csv_wellformed.
Theorem C09_csv_alloc_bounded : forall fuel F f ct, csv_table_read fuel F f = Some ct ->
  zlen (ct_tab ct) <= flen f /\ zlen (ct_names ct) <= flen f /\ 0 <= ct_nrow ct <= flen f.
Proof. exact csv_table_read_bound. Qed.
Print Assumptions C09_csv_alloc_bounded.
Theorem C09_csv_copy_in_bounds : forall ntab ncol nrow icol iech, ntab = ncol * nrow -> 0 <= icol < ncol -> 0 <= iech < nrow ->
  0 <= icol + ncol * iech < ntab.
Proof. exact csv_copy_in_bounds. Qed.
Theorem C09_csv_no_exception : forall E F f, alloc_bound (flen f) <= e_cap E ->
  match db_from_csv E true true F f with CsvOk d => wf_csv_db d | CsvFail => True | _ => False end.
Proof. exact csv_no_exception_next. Qed.
Print Assumptions C09_csv_no_exception.
(* the rank taken from a name: the reader as it is now throws, with fixes/C09_18 it returns the table without roles *)
Example C09_csv_rank :
  db_from_csv (full_env_of w_csv_rank) true false (mkCsv true 0 44 46 (-1) (-1) false) w_csv_rank = CsvAlloc /\
  exists d, db_from_csv (full_env_of w_csv_rank) true true (mkCsv true 0 44 46 (-1) (-1) false) w_csv_rank = CsvOk d /\
            d_ncol d = 1 /\ d_nech d = 2 /\ concat (d_loc d) = [].
Proof. exact csv_rank_witness. Qed.

(* ---------------------------------------------------------------- pending: the five readers whose counts are still unchecked
   (AnamDiscreteDD / IR, AnamEmpirical, DbLine, MeshETurbo), WITH the guards of the proposed fixes/C09_19 .. C09_22 (coq/C09/Readers4.v; the check
   compares these models with the implementation as soon as it shows the guards). DbLine: quadratic bound (one vector per line). *)
Theorem C09_pending_anamdiscrete : forall E f, flen f < 2147483648 -> now_env E f (alloc_bound (flen f)) ->
  good_outcome wf_anamdd (alloc_bound (flen f)) (load_AnamDD E f) /\
  good_outcome (fun p => wf_anamd (fst p)) (alloc_bound (flen f)) (load_AnamIR E f).
Proof. exact (fun E f H1 H2 => conj (load_AnamDD_guarded E f H1 H2) (load_AnamIR_guarded E f H1 H2)). Qed.
Print Assumptions C09_pending_anamdiscrete.
Theorem C09_pending_anamempirical : forall E f, flen f < 2147483648 -> now_env E f (alloc_bound (flen f)) ->
  good_outcome wf_aname (alloc_bound (flen f)) (load_AnamEmpirical E f).
Proof. exact load_AnamEmpirical_guarded. Qed.
Print Assumptions C09_pending_anamempirical.
(* MeshETurbo: dimension 1 .. 3, positive numbers of nodes within an int, mask ranks inside the grid; the array of an indirection is
   requested only when the grid is in proportion with the file (e_flen E = |f|: the size of the file as _isCountInFile sees it) *)
Theorem C09_pending_meshturbo : forall E f, flen f < 2147483648 -> now_env E f (alloc_bound (flen f)) -> e_flen E = flen f ->
  good_outcome wf_mturbo (alloc_bound (flen f)) (load_MeshETurbo E f).
Proof. exact load_MeshETurbo_guarded. Qed.
Print Assumptions C09_pending_meshturbo.
Theorem C09_pending_dbline : forall E f, flen f < 2147483648 -> fixed_env E f (alloc_bound_grid (flen f)) ->
  good_outcome wf_dbline (alloc_bound_grid (flen f)) (load_DbLine E f).
Proof. exact load_DbLine_guarded. Qed.
Print Assumptions C09_pending_dbline.

(* ---------------------------------------------------------------- the binary format: GridBmp::readGridFromFile on the bytes of a file
   (coq/C09/Readers5.v, tied to db_grid_read_bmp by the correspondence on field-aware corruptions of the two headers).
   The palette loop fills ir / ig / ib[256]: no store at a rank >= 256, whatever the header says (the test ncol > 256 precedes the loop
   and nothing changes ncol in between); the pixel loops deliver exactly nx0 * nx1 values (the stores tab[ecr++] stay inside tab), the
   image is not larger than the file (allocation 8 |f|). *)
Theorem C09_bmp_palette_in_bounds : forall f, bmp_read f <> BmpOOB.
Proof. exact bmp_no_oob. Qed.
Print Assumptions C09_bmp_palette_in_bounds.
Theorem C09_bmp_pixel_loops : forall f nx0 nx1 dx0 dx1 tab, bmp_read f = BmpOk nx0 nx1 dx0 dx1 tab ->
  0 < nx0 /\ 0 < nx1 /\ zlen tab = nx0 * nx1 /\ nx0 * nx1 <= zlen f.
Proof. exact bmp_pixels. Qed.
Print Assumptions C09_bmp_pixel_loops.

(* _recordRead, in any configuration: returns, consumes a suffix, allocates nothing *)
Theorem C09_recordRead_total : forall m, reads m (record_word m).
Proof. exact main_recordRead. Qed.
Print Assumptions C09_recordRead_total.
(* the invariants evaluated by the runner on the model's objects are the declarative ones *)
Theorem C09_wf_db_decidable : forall d, wf_db_b d = true <-> wf_db d.
Proof. exact wf_db_b_spec. Qed.
Print Assumptions C09_wf_db_decidable.
Theorem C09_wf_dbgrid_decidable : forall x, wf_dbgrid_b x = true <-> wf_dbgrid x.
Proof. exact wf_dbgrid_b_spec. Qed.
Print Assumptions C09_wf_dbgrid_decidable.

(* ---------------------------------------------------------------- regression and non-vacuity (concrete files, vm_compute) *)
(* the files that broke the readers before the fixes C09_1..4 (cfg_asis) ... *)
Example C09_regression_before_fixes :
  load_Db (asis_env w_store_inplace) w_store_inplace = Crashed (OOB 14) /\
  load_Db (asis_env w_store_vec) w_store_vec = Crashed (OOB 11) /\
  load_PolyLine2D (asis_env w_store_poly) w_store_poly = Crashed (OOB 42) /\
  load_DbGrid (asis_env w_gridread) w_gridread = Crashed (OOB 17) /\
  load_Db (asis_env w_alloc) w_alloc = Crashed (Throw 1 11) /\
  load_Db (asis_env w_negative) w_negative = Crashed (Throw 2 13) /\
  load_Table (asis_env w_assert) w_assert = Crashed (Throw 3 31) /\
  load_Polygons (asis_env w_hang) w_hang = Crashed (Hang 43).
Proof. exact asis_witnesses. Qed.
(* ... and before C09_5 (cfg_pre5): a locator rank used as a size, role lists padded with UID 0 *)
Example C09_regression_before_C09_5 :
  load_Db (pre5_env w_locsize) w_locsize = Crashed (Throw 1 16) /\
  alloc_bound (flen w_locghost) < ghost_of (load_Db (pre5_env w_locghost) w_locghost) /\
  (exists d g, load_Db (pre5_env w_locrank) w_locrank = Loaded d g /\ ~ wf_db d) /\
  (exists d g, load_Db (pre5_env w_filler) w_filler = Loaded d g /\ nth 0 (d_loc d) [] = [0; 1]).
Proof. exact (conj now_locsize (conj now_locsize_ghost (conj now_locrank now_filler))). Qed.
(* all of them fail cleanly now, declarations in any order still load
   (each file is replayed on the real loader by checks/C09.py) *)
Example C09_regression_now :
  load_Db (fix_env w_store_inplace) w_store_inplace = Failed 72 /\
  load_Db (fix_env w_store_vec) w_store_vec = Failed 40 /\
  load_PolyLine2D (fix_env w_store_poly) w_store_poly = Failed 32 /\
  load_DbGrid (fix_env w_gridread) w_gridread = Failed 124 /\
  load_Db (fix_env w_alloc) w_alloc = Failed 0 /\
  load_Db (fix_env w_negative) w_negative = Failed 0 /\
  load_Table (fix_env w_assert) w_assert = Failed 0 /\
  load_Polygons (fix_env w_hang) w_hang = Failed 0 /\
  load_Db (fix_env w_negnech) w_negnech = Failed 0 /\
  load_DbGrid (fix_env w_gridtrunc) w_gridtrunc = Failed 124.
Proof. exact fixed_on_witnesses2. Qed.
Example C09_regression_now_locators :
  load_Db (fix_env w_locsize) w_locsize = Failed 72 /\ load_Db (fix_env w_locrank) w_locrank = Failed 72 /\
  load_Db (fix_env w_filler) w_filler = Failed 240 /\ load_Db (fix_env w_rank_dup) w_rank_dup = Failed 236 /\
  load_Db (fix_env v_db_unordered) v_db_unordered = load_Db (pre5_env v_db_unordered) v_db_unordered /\
  exists d g, load_Db (fix_env v_db_unordered) v_db_unordered = Loaded d g /\ nth 0 (d_loc d) [] = [1; 0] /\ wf_db_b d = true.
Proof. exact fixed_on_locators. Qed.
(* the hypothesis is satisfiable by the environment the runner uses, and valid files load to non-trivial objects *)
Example C09_nonvacuous_hyp : hyp (fix_env v_db) v_db /\ hyp (fix_env v_dbgrid) v_dbgrid.
Proof. exact envs_satisfy_hyps2. Qed.
Example C09_nonvacuous_valid :
  (exists d g, load_Db (fix_env v_db) v_db = Loaded d g /\ load_Db (asis_env v_db) v_db = Loaded d g /\ d_ncol d = 2 /\ d_nech d = 3 /\ wf_db_b d = true) /\
  (exists x g, load_DbGrid (fix_env v_dbgrid) v_dbgrid = Loaded x g /\ load_DbGrid (asis_env v_dbgrid) v_dbgrid = Loaded x g /\ d_nech (dg_db x) = 4 /\ wf_dbgrid_b x = true) /\
  (exists t g, load_Table (fix_env v_table) v_table = Loaded t g /\ load_Table (asis_env v_table) v_table = Loaded t g /\ t_nrows t = 2 /\ wf_table_b t = true) /\
  (exists l g, load_Polygons (fix_env v_polygons) v_polygons = Loaded l g /\ load_Polygons (asis_env v_polygons) v_polygons = Loaded l g /\ length l = 1%nat /\ wf_polygons_b l = true).
Proof. exact valid_files_load2. Qed.

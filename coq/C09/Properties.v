(* C09 — property theorems only. Each is closed by [exact] of a lemma of the Proofs_* files.
   Readers = the executable Gallina mirrors (coq/C09/Model.v, Readers.v) of ASerializable::_recordRead /
   _recordReadVec / _recordReadVecInPlace and of the _deserialize of Db, DbGrid, Table, Polygons, PolyElem,
   PolyLine2D, Faults, run by X::createFromNF on the BYTES of a file; monitors: bounds-checked stores (OOB),
   ghost allocation counter + cap (Throw), fuelled loops (Hang).
   [hyp E f] = the file is shorter than 2^31 bytes; E is the code as it is NOW (cfg_fixed: the fixes C09_1 .. C09_5 and
   C08_12 are in /repo; this is the configuration the correspondence of checks/C09.py ties to the real loaders); its
   fuel exceeds |f|; its allocation cap is not below the proved bound.
   The statements quantify over ALL byte strings f. *)
From Coq Require Import List ZArith QArith Bool.
From Gst Require Import C09.Model C09.Readers C09.Spec C09.Witness C09.Proofs_prim C09.Proofs_loc C09.Proofs_wf C09.Proofs_top
                        C09.Proofs_refute C09.Proofs_main.
Import ListNotations.
Local Open Scope Z_scope.

(* no reader ever stores outside a buffer *)
Theorem C09_no_oob : forall E f, hyp E f -> all_loaders (fun A o => no_oob o) E f.
Proof. exact main_all_no_oob. Qed.
Print Assumptions C09_no_oob.

(* allocation requested while reading is bounded by the file length: 256|f| + 4096 bytes
   (DbGrid: 16|f|^2 + 512|f| + 8192, the two ndim x ndim rotation matrices) *)
Theorem C09_alloc_bounded : forall E f, hyp E f ->
  ghost_of (load_Db E f) <= alloc_bound (flen f) /\ ghost_of (load_DbGrid E f) <= alloc_bound_grid (flen f) /\
  ghost_of (load_Table E f) <= alloc_bound (flen f) /\ ghost_of (load_Polygons E f) <= alloc_bound (flen f) /\
  ghost_of (load_PolyElem E f) <= alloc_bound (flen f) /\ ghost_of (load_PolyLine2D E f) <= alloc_bound (flen f) /\
  ghost_of (load_Faults E f) <= alloc_bound (flen f).
Proof. exact main_all_alloc. Qed.
Print Assumptions C09_alloc_bounded.

(* no allocation fails, no size is negative, no assertion trips: nothing escapes the loader *)
Theorem C09_no_exception : forall E f, hyp E f -> all_loaders (fun A o => no_throw o) E f.
Proof. exact main_all_no_throw. Qed.
Print Assumptions C09_no_exception.

(* fuel |f|+1 is never exhausted: every loop consumes input or stops *)
Theorem C09_total : forall E f, hyp E f -> all_loaders (fun A o => no_hang o) E f.
Proof. exact main_all_total. Qed.
Print Assumptions C09_total.

(* a successful read returns an object that satisfies the class invariant (Db: rectangular table, names pairwise different,
   uid table = columns, role lists without repetition, made of columns, pairwise disjoint; DbGrid: + samples = grid nodes) *)
Theorem C09_wellformed : forall E f, hyp E f ->
  (forall d, loaded (load_Db E f) d -> wf_db d) /\ (forall x, loaded (load_DbGrid E f) x -> wf_dbgrid x) /\
  (forall t, loaded (load_Table E f) t -> wf_table t) /\ (forall l, loaded (load_Polygons E f) l -> wf_polygons l) /\
  (forall p, loaded (load_PolyElem E f) p -> wf_polyelem p) /\ (forall p, loaded (load_PolyLine2D E f) p -> wf_polyline p) /\
  (forall l, loaded (load_Faults E f) l -> wf_faults l).
Proof. exact main_all_wf. Qed.
Print Assumptions C09_wellformed.

(* in particular for every interruption point of a write *)
Corollary C09_prefix_closed : forall E f n, hyp E (firstn n f) -> all_loaders (fun A o => clean o) E (firstn n f).
Proof. exact main_all_prefix. Qed.
Print Assumptions C09_prefix_closed.

(* _recordRead, in any configuration: returns, consumes a suffix, allocates nothing *)
Theorem C09_recordRead_total : forall m, reads m (record_word m).
Proof. exact main_recordRead. Qed.
Print Assumptions C09_recordRead_total.
(* the invariants evaluated by the runner on the model's objects are the declarative ones *)
Theorem C09_wf_db_decidable : forall d, wf_db_b d = true <-> wf_db d.
Proof. exact wf_db_b_spec. Qed.
Print Assumptions C09_wf_db_decidable.
Theorem C09_wf_dbgrid_decidable : forall x, wf_dbgrid_b x = true <-> wf_dbgrid x.
Proof. exact wf_dbgrid_b_spec. Qed.
Print Assumptions C09_wf_dbgrid_decidable.

(* ---------------------------------------------------------------- regression and non-vacuity (concrete files, vm_compute) *)
(* the files that broke the readers before the fixes C09_1..4 (cfg_asis) ... *)
Example C09_regression_before_fixes :
  load_Db (asis_env w_store_inplace) w_store_inplace = Crashed (OOB 14) /\
  load_Db (asis_env w_store_vec) w_store_vec = Crashed (OOB 11) /\
  load_PolyLine2D (asis_env w_store_poly) w_store_poly = Crashed (OOB 42) /\
  load_DbGrid (asis_env w_gridread) w_gridread = Crashed (OOB 17) /\
  load_Db (asis_env w_alloc) w_alloc = Crashed (Throw 1 11) /\
  load_Db (asis_env w_negative) w_negative = Crashed (Throw 2 13) /\
  load_Table (asis_env w_assert) w_assert = Crashed (Throw 3 31) /\
  load_Polygons (asis_env w_hang) w_hang = Crashed (Hang 43).
Proof. exact asis_witnesses. Qed.
(* ... and before C09_5 (cfg_pre5): a locator rank used as a size, role lists padded with UID 0 *)
Example C09_regression_before_C09_5 :
  load_Db (pre5_env w_locsize) w_locsize = Crashed (Throw 1 16) /\
  alloc_bound (flen w_locghost) < ghost_of (load_Db (pre5_env w_locghost) w_locghost) /\
  (exists d g, load_Db (pre5_env w_locrank) w_locrank = Loaded d g /\ ~ wf_db d) /\
  (exists d g, load_Db (pre5_env w_filler) w_filler = Loaded d g /\ nth 0 (d_loc d) [] = [0; 1]).
Proof. exact (conj now_locsize (conj now_locsize_ghost (conj now_locrank now_filler))). Qed.
(* all of them fail cleanly now, declarations in any order still load
   (each file is replayed on the real loader by checks/C09.py) *)
Example C09_regression_now :
  load_Db (fix_env w_store_inplace) w_store_inplace = Failed 72 /\
  load_Db (fix_env w_store_vec) w_store_vec = Failed 40 /\
  load_PolyLine2D (fix_env w_store_poly) w_store_poly = Failed 32 /\
  load_DbGrid (fix_env w_gridread) w_gridread = Failed 124 /\
  load_Db (fix_env w_alloc) w_alloc = Failed 0 /\
  load_Db (fix_env w_negative) w_negative = Failed 0 /\
  load_Table (fix_env w_assert) w_assert = Failed 0 /\
  load_Polygons (fix_env w_hang) w_hang = Failed 0 /\
  load_Db (fix_env w_negnech) w_negnech = Failed 0 /\
  load_DbGrid (fix_env w_gridtrunc) w_gridtrunc = Failed 124.
Proof. exact fixed_on_witnesses2. Qed.
Example C09_regression_now_locators :
  load_Db (fix_env w_locsize) w_locsize = Failed 72 /\ load_Db (fix_env w_locrank) w_locrank = Failed 72 /\
  load_Db (fix_env w_filler) w_filler = Failed 240 /\ load_Db (fix_env w_rank_dup) w_rank_dup = Failed 236 /\
  load_Db (fix_env v_db_unordered) v_db_unordered = load_Db (pre5_env v_db_unordered) v_db_unordered /\
  exists d g, load_Db (fix_env v_db_unordered) v_db_unordered = Loaded d g /\ nth 0 (d_loc d) [] = [1; 0] /\ wf_db_b d = true.
Proof. exact fixed_on_locators. Qed.
(* the hypothesis is satisfiable by the environment the runner uses, and valid files load to non-trivial objects *)
Example C09_nonvacuous_hyp : hyp (fix_env v_db) v_db /\ hyp (fix_env v_dbgrid) v_dbgrid.
Proof. exact envs_satisfy_hyps2. Qed.
Example C09_nonvacuous_valid :
  (exists d g, load_Db (fix_env v_db) v_db = Loaded d g /\ load_Db (asis_env v_db) v_db = Loaded d g /\ d_ncol d = 2 /\ d_nech d = 3 /\ wf_db_b d = true) /\
  (exists x g, load_DbGrid (fix_env v_dbgrid) v_dbgrid = Loaded x g /\ load_DbGrid (asis_env v_dbgrid) v_dbgrid = Loaded x g /\ d_nech (dg_db x) = 4 /\ wf_dbgrid_b x = true) /\
  (exists t g, load_Table (fix_env v_table) v_table = Loaded t g /\ load_Table (asis_env v_table) v_table = Loaded t g /\ t_nrows t = 2 /\ wf_table_b t = true) /\
  (exists l g, load_Polygons (fix_env v_polygons) v_polygons = Loaded l g /\ load_Polygons (asis_env v_polygons) v_polygons = Loaded l g /\ length l = 1%nat /\ wf_polygons_b l = true).
Proof. exact valid_files_load2. Qed.

(* C09 — property theorems only. Each is closed by [exact] of a lemma of the Proofs_* files.
   Readers = the executable Gallina mirrors (coq/C09/Model.v, Readers.v) of ASerializable::_recordRead /
   _recordReadVec / _recordReadVecInPlace and of the _deserialize of Db, DbGrid, Table, Polygons, PolyElem,
   PolyLine2D, Faults, run by X::createFromNF on the BYTES of a file; monitors: bounds-checked stores (OOB),
   ghost allocation counter + cap (Throw), fuelled loops (Hang).
   [hyp E f] = the file is shorter than 2^31 bytes, E applies the candidate fixes fixes/C09_1..4 (cfg_fixed), its fuel
   exceeds |f| and its allocation cap is not below the proved bound.  The statements quantify over ALL byte strings f.
   For the code as it is (cfg_asis) each statement is refuted by a concrete file (C09_*_refuted), replayed on the
   real loaders by checks/C09.py. *)
From Coq Require Import List ZArith QArith Bool.
From Gst Require Import C09.Model C09.Readers C09.Spec C09.Witness C09.Proofs_prim C09.Proofs_wf C09.Proofs_top
                        C09.Proofs_refute C09.Proofs_main.
Import ListNotations.
Local Open Scope Z_scope.

(* no reader ever stores outside a buffer *)
Theorem C09_no_oob : forall E f, hyp E f -> all_loaders (fun A o => no_oob o) E f.
Proof. exact main_no_oob. Qed.
Print Assumptions C09_no_oob.

(* allocation requested while reading is bounded by the file length: 256|f| + 4096 bytes
   (DbGrid: 16|f|^2 + 512|f| + 8192, the two ndim x ndim rotation matrices) *)
Theorem C09_alloc_bounded : forall E f, hyp E f ->
  ghost_of (load_Db E f) <= alloc_bound (flen f) /\ ghost_of (load_DbGrid E f) <= alloc_bound_grid (flen f) /\
  ghost_of (load_Table E f) <= alloc_bound (flen f) /\ ghost_of (load_Polygons E f) <= alloc_bound (flen f) /\
  ghost_of (load_PolyElem E f) <= alloc_bound (flen f) /\ ghost_of (load_PolyLine2D E f) <= alloc_bound (flen f) /\
  ghost_of (load_Faults E f) <= alloc_bound (flen f).
Proof. exact main_alloc. Qed.
Print Assumptions C09_alloc_bounded.

(* no allocation fails, no size is negative, no assertion trips: nothing escapes the loader *)
Theorem C09_no_exception : forall E f, hyp E f -> all_loaders (fun A o => no_throw o) E f.
Proof. exact main_no_throw. Qed.
Print Assumptions C09_no_exception.

(* fuel |f|+1 is never exhausted: every loop consumes input or stops *)
Theorem C09_total : forall E f, hyp E f -> all_loaders (fun A o => no_hang o) E f.
Proof. exact main_total. Qed.
Print Assumptions C09_total.

(* a successful read returns an object that satisfies the class invariant *)
Theorem C09_wellformed : forall E f, hyp E f ->
  (forall d, loaded (load_Db E f) d -> wf_db d) /\ (forall x, loaded (load_DbGrid E f) x -> wf_dbgrid x) /\
  (forall t, loaded (load_Table E f) t -> wf_table t) /\ (forall l, loaded (load_Polygons E f) l -> wf_polygons l) /\
  (forall p, loaded (load_PolyElem E f) p -> wf_polyelem p) /\ (forall p, loaded (load_PolyLine2D E f) p -> wf_polyline p) /\
  (forall l, loaded (load_Faults E f) l -> wf_faults l).
Proof. exact main_wf. Qed.
Print Assumptions C09_wellformed.

(* in particular for every interruption point of a write *)
Corollary C09_prefix_closed : forall E f n, hyp E (firstn n f) -> all_loaders (fun A o => clean o) E (firstn n f).
Proof. exact main_prefix. Qed.
Print Assumptions C09_prefix_closed.

(* the loaders other than DbGrid under the linear cap 256|f| + 4096 only:
   good_outcome wf b o  :=  clean o /\ 0 <= ghost_of o <= b /\ forall a, loaded o a -> wf a *)
Theorem C09_linear_loaders : forall E f, flen f < 2147483648 -> fixed_env E f (alloc_bound (flen f)) ->
  good_outcome wf_db (alloc_bound (flen f)) (load_Db E f) /\
  good_outcome wf_table (alloc_bound (flen f)) (load_Table E f) /\
  good_outcome wf_polygons (alloc_bound (flen f)) (load_Polygons E f) /\
  good_outcome wf_polyelem (alloc_bound (flen f)) (load_PolyElem E f) /\
  good_outcome wf_polyline (alloc_bound (flen f)) (load_PolyLine2D E f) /\
  good_outcome wf_faults (alloc_bound (flen f)) (load_Faults E f).
Proof. exact main_linear. Qed.
Print Assumptions C09_linear_loaders.

(* _recordRead, in any configuration: returns, consumes a suffix, allocates nothing *)
Theorem C09_recordRead_total : forall m, reads m (record_word m).
Proof. exact main_recordRead. Qed.
Print Assumptions C09_recordRead_total.

(* the invariants evaluated by the runner on the model's objects are the declarative ones *)
Theorem C09_wf_db_decidable : forall d, wf_db_b d = true <-> wf_db d.
Proof. exact wf_db_b_spec. Qed.
Print Assumptions C09_wf_db_decidable.
Theorem C09_wf_dbgrid_decidable : forall x, wf_dbgrid_b x = true <-> wf_dbgrid x.
Proof. exact wf_dbgrid_b_spec. Qed.
Print Assumptions C09_wf_dbgrid_decidable.

(* ---------------------------------------------------------------- the code as it is: refutations *)
(* _recordReadVecInPlace stores element nvalues before testing "ecr > nvalues" (one value too many on the last row) *)
Theorem C09_no_oob_refuted : load_Db (asis_env w_store_inplace) w_store_inplace = Crashed (OOB 14).
Proof. exact refute_store_inplace. Qed.
Print Assumptions C09_no_oob_refuted.
(* the same in _recordReadVec (here a std::string stored past the end of the locators) *)
Theorem C09_no_oob_refuted_vec : load_Db (asis_env w_store_vec) w_store_vec = Crashed (OOB 11).
Proof. exact refute_store_vec. Qed.
Theorem C09_no_oob_refuted_polyline : load_PolyLine2D (asis_env w_store_poly) w_store_poly = Crashed (OOB 42).
Proof. exact refute_store_poly. Qed.
(* a DbGrid whose sample count is below the grid size: Db::_loadData reads past the values read *)
Theorem C09_no_oob_refuted_loaddata : load_DbGrid (asis_env w_gridread) w_gridread = Crashed (OOB 17).
Proof. exact refute_loaddata. Qed.
(* counts read from the file are used as sizes: 64 GB requested for a 15-byte file *)
Theorem C09_alloc_bounded_refuted : load_Db (asis_env w_alloc) w_alloc = Crashed (Throw 1 11) /\
  alloc_bound (flen w_alloc) < ghost_of (load_Db (asis_env_nocap w_alloc) w_alloc).
Proof. exact (conj refute_alloc_throw refute_alloc_ghost). Qed.
Print Assumptions C09_alloc_bounded_refuted.
Theorem C09_no_exception_refuted : load_Db (asis_env w_negative) w_negative = Crashed (Throw 2 13) /\
  load_Table (asis_env w_assert) w_assert = Crashed (Throw 3 31) /\ load_Db (asis_env w_locsize) w_locsize = Crashed (Throw 1 16).
Proof. exact (conj refute_negative (conj refute_assert refute_locsize)). Qed.
(* a count-driven loop goes on at end of file without consuming anything *)
Theorem C09_total_refuted : load_Polygons (asis_env w_hang) w_hang = Crashed (Hang 43).
Proof. exact refute_hang. Qed.
Print Assumptions C09_total_refuted.
(* locator "x3" on a single column: role list [0;0;0]; negative sample count accepted; DbGrid drops the failure of its Db part *)
Theorem C09_wellformed_refuted :
  (exists d g, load_Db (asis_env w_locrank) w_locrank = Loaded d g /\ ~ wf_db d) /\
  (exists d g, load_Db (asis_env w_negnech) w_negnech = Loaded d g /\ ~ wf_db d) /\
  (exists x g, load_DbGrid (asis_env w_gridtrunc) w_gridtrunc = Loaded x g /\ ~ wf_dbgrid x).
Proof. exact (conj refute_wf_locrank (conj refute_wf_negnech refute_wf_gridtrunc)). Qed.
Print Assumptions C09_wellformed_refuted.

(* ---------------------------------------------------------------- non-vacuity *)
(* hyp is satisfiable by the environment the runner uses, and under it valid files load to non-trivial objects
   (the same objects as without the fixes), while the refutation witnesses fail cleanly *)
Example C09_nonvacuous_hyp : hyp (fix_env v_db) v_db /\ hyp (fix_env v_dbgrid) v_dbgrid.
Proof. vm_compute. repeat split; try reflexivity; intro H; discriminate H. Qed.
Example C09_nonvacuous_valid :
  (exists d g, load_Db (fix_env v_db) v_db = Loaded d g /\ load_Db (asis_env v_db) v_db = Loaded d g /\ d_ncol d = 2 /\ d_nech d = 3 /\ wf_db_b d = true) /\
  (exists x g, load_DbGrid (fix_env v_dbgrid) v_dbgrid = Loaded x g /\ load_DbGrid (asis_env v_dbgrid) v_dbgrid = Loaded x g /\ d_nech (dg_db x) = 4 /\ wf_dbgrid_b x = true) /\
  (exists t g, load_Table (fix_env v_table) v_table = Loaded t g /\ load_Table (asis_env v_table) v_table = Loaded t g /\ t_nrows t = 2 /\ wf_table_b t = true) /\
  (exists l g, load_Polygons (fix_env v_polygons) v_polygons = Loaded l g /\ load_Polygons (asis_env v_polygons) v_polygons = Loaded l g /\ length l = 1%nat /\ wf_polygons_b l = true).
Proof. exact valid_files_load. Qed.
Example C09_nonvacuous_fixed_on_witnesses :
  load_Db (fix_env w_store_inplace) w_store_inplace = Failed 72 /\
  load_Db (fix_env w_store_vec) w_store_vec = Failed 40 /\
  load_PolyLine2D (fix_env w_store_poly) w_store_poly = Failed 32 /\
  load_DbGrid (fix_env w_gridread) w_gridread = Failed 124 /\
  load_Db (fix_env w_alloc) w_alloc = Failed 0 /\
  load_Db (fix_env w_locsize) w_locsize = Loaded (mkDb 1 1 [[97]] [0] ([0] :: repeat [] 28) [Num (5 # 1)]) 120 /\
  load_Db (fix_env w_negative) w_negative = Failed 0 /\
  load_Table (fix_env w_assert) w_assert = Failed 0 /\
  load_Polygons (fix_env w_hang) w_hang = Failed 0 /\
  load_Db (fix_env w_negnech) w_negnech = Failed 0 /\
  load_DbGrid (fix_env w_gridtrunc) w_gridtrunc = Failed 124.
Proof. exact fixed_on_witnesses. Qed.

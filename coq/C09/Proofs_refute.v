(* C09 proofs, part 10: the statements that the code as it is (cfg_asis) falsifies, each with a concrete file. *)
From Coq Require Import List ZArith QArith Bool Lia.
From Gst Require Import C09.Model C09.Readers C09.Spec C09.Witness C09.Proofs_top.
Import ListNotations.
Local Open Scope Z_scope.

(* the environment of the implementation under test: no fix, fuel |f|+1, 256 MB per request *)
Definition asis_env (f : list Z) : env := mkEnv cfg_asis 268435456 (S (length f)).
Definition asis_env_nocap (f : list Z) : env := mkEnv cfg_asis (2 ^ 62) (S (length f)).

Lemma refute_store_inplace : load_Db (asis_env w_store_inplace) w_store_inplace = Crashed (OOB 14).
Proof. vm_compute. reflexivity. Qed.
Lemma refute_store_vec : load_Db (asis_env w_store_vec) w_store_vec = Crashed (OOB 11).
Proof. vm_compute. reflexivity. Qed.
Lemma refute_store_poly : load_PolyLine2D (asis_env w_store_poly) w_store_poly = Crashed (OOB 42).
Proof. vm_compute. reflexivity. Qed.
Lemma refute_loaddata : load_DbGrid (asis_env w_gridread) w_gridread = Crashed (OOB 17).
Proof. vm_compute. reflexivity. Qed.
Lemma refute_alloc_throw : load_Db (asis_env w_alloc) w_alloc = Crashed (Throw 1 11).
Proof. vm_compute. reflexivity. Qed.
Lemma refute_alloc_ghost : alloc_bound (flen w_alloc) < ghost_of (load_Db (asis_env_nocap w_alloc) w_alloc).
Proof. vm_compute. reflexivity. Qed.
Lemma refute_locsize : load_Db (asis_env w_locsize) w_locsize = Crashed (Throw 1 16).
Proof. vm_compute. reflexivity. Qed.
Lemma refute_negative : load_Db (asis_env w_negative) w_negative = Crashed (Throw 2 13).
Proof. vm_compute. reflexivity. Qed.
Lemma refute_assert : load_Table (asis_env w_assert) w_assert = Crashed (Throw 3 31).
Proof. vm_compute. reflexivity. Qed.
Lemma refute_hang : load_Polygons (asis_env w_hang) w_hang = Crashed (Hang 43).
Proof. vm_compute. reflexivity. Qed.

Lemma refute_wf_locrank : exists d g, load_Db (asis_env w_locrank) w_locrank = Loaded d g /\ ~ wf_db d.
Proof.
  eexists. eexists. split; [vm_compute; reflexivity|].
  intros [_ [_ [_ [_ [_ [_ [ND _]]]]]]]. simpl in ND. inversion ND as [|x l H1 H2]; subst. apply H1. left. reflexivity.
Qed.
Lemma refute_wf_negnech : exists d g, load_Db (asis_env w_negnech) w_negnech = Loaded d g /\ ~ wf_db d.
Proof.
  eexists. eexists. split; [vm_compute; reflexivity|].
  intros [_ [H _]]. simpl in H. lia.
Qed.
Lemma refute_wf_gridtrunc : exists x g, load_DbGrid (asis_env w_gridtrunc) w_gridtrunc = Loaded x g /\ ~ wf_dbgrid x.
Proof.
  eexists. eexists. split; [vm_compute; reflexivity|].
  intros [_ [_ H]]. vm_compute in H. discriminate.
Qed.

(* the same files with the candidate fixes: clean failures *)
Definition fix_env (f : list Z) : env := mkEnv cfg_fixed 268435456 (S (length f)).
Lemma fixed_on_witnesses :
  load_Db (fix_env w_store_inplace) w_store_inplace = Failed 72 /\
  load_Db (fix_env w_store_vec) w_store_vec = Failed 40 /\
  load_PolyLine2D (fix_env w_store_poly) w_store_poly = Failed 32 /\
  load_DbGrid (fix_env w_gridread) w_gridread = Failed 124 /\
  load_Db (fix_env w_alloc) w_alloc = Failed 0 /\
  load_Db (fix_env w_locsize) w_locsize = Loaded (mkDb 1 1 [[97]] [0] ([0] :: repeat [] 28) [Num (5 # 1)]) 120 /\
  load_Db (fix_env w_negative) w_negative = Failed 0 /\
  load_Table (fix_env w_assert) w_assert = Failed 0 /\
  load_Polygons (fix_env w_hang) w_hang = Failed 0 /\
  load_Db (fix_env w_negnech) w_negnech = Failed 0 /\
  load_DbGrid (fix_env w_gridtrunc) w_gridtrunc = Failed 124.
Proof. vm_compute. repeat split; reflexivity. Qed.

(* valid files load, with the fixes as without them *)
Lemma valid_files_load :
  (exists d g, load_Db (fix_env v_db) v_db = Loaded d g /\ load_Db (asis_env v_db) v_db = Loaded d g /\ d_ncol d = 2 /\ d_nech d = 3 /\ wf_db_b d = true) /\
  (exists x g, load_DbGrid (fix_env v_dbgrid) v_dbgrid = Loaded x g /\ load_DbGrid (asis_env v_dbgrid) v_dbgrid = Loaded x g /\ d_nech (dg_db x) = 4 /\ wf_dbgrid_b x = true) /\
  (exists t g, load_Table (fix_env v_table) v_table = Loaded t g /\ load_Table (asis_env v_table) v_table = Loaded t g /\ t_nrows t = 2 /\ wf_table_b t = true) /\
  (exists l g, load_Polygons (fix_env v_polygons) v_polygons = Loaded l g /\ load_Polygons (asis_env v_polygons) v_polygons = Loaded l g /\ length l = 1%nat /\ wf_polygons_b l = true).
Proof. vm_compute. repeat split; repeat eexists; reflexivity. Qed.
Lemma fix_env_fixed : forall f, flen f < 1000000 -> fixed_env (fix_env f) f (alloc_bound (flen f)).
Proof. intros f H. unfold fixed_env, fix_env, alloc_bound. cbn [e_cfg e_fuel e_cap]. split; [reflexivity|split; [lia|lia]]. Qed.

(* C09 proofs, part 10: concrete files.
   - what the readers before fixes/C09_5 (cfg_pre5) falsified: a locator rank used as a size, role lists with fillers;
   - regression: the files that broke the code before the fixes C09_1..4 (cfg_asis) and their clean failure now;
   - non-vacuity: valid files load to the same objects under the three configurations. *)
From Coq Require Import List ZArith QArith Bool Lia.
From Gst Require Import C09.Model C09.Readers C09.Spec C09.Witness C09.Proofs_loc C09.Proofs_wf C09.Proofs_top.
Import ListNotations.
Local Open Scope Z_scope.

(* fuel |f|+1, 256 MB per request (the child process of the check) *)
Definition asis_env (f : list Z) : env := mkEnv cfg_asis 268435456 (S (length f)) (Z.of_nat (length f)) p_none.
Definition pre5_env (f : list Z) : env := mkEnv cfg_pre5 268435456 (S (length f)) (Z.of_nat (length f)) p_none.
Definition fix_env (f : list Z) : env := mkEnv cfg_fixed 268435456 (S (length f)) (Z.of_nat (length f)) p_none.

(* ---------------------------------------------------------------- before fixes/C09_5 (cfg_pre5) *)
Lemma now_locsize : load_Db (pre5_env w_locsize) w_locsize = Crashed (Throw 1 16).
Proof. vm_compute. reflexivity. Qed.
(* below the cap the request is served: 400 kB of role list for a 21-byte file *)
Lemma now_locsize_ghost : alloc_bound (flen w_locghost) < ghost_of (load_Db (pre5_env w_locghost) w_locghost).
Proof. vm_compute. reflexivity. Qed.
Lemma now_locrank : exists d g, load_Db (pre5_env w_locrank) w_locrank = Loaded d g /\ ~ wf_db d.
Proof.
  eexists. eexists. split; [vm_compute; reflexivity|].
  intros H. apply wf_db_b_spec in H. vm_compute in H. discriminate.
Qed.
(* "NA x2": column 0 has no role in the file and holds rank 1 of the coordinates in the object *)
Lemma now_filler : exists d g, load_Db (pre5_env w_filler) w_filler = Loaded d g /\ nth 0 (d_loc d) [] = [0; 1].
Proof. eexists. eexists. split; vm_compute; reflexivity. Qed.
(* with fixes/C09_5 these files are refused, out-of-order declarations still load *)
Lemma fixed_on_locators :
  load_Db (fix_env w_locsize) w_locsize = Failed 72 /\ load_Db (fix_env w_locrank) w_locrank = Failed 72 /\
  load_Db (fix_env w_filler) w_filler = Failed 240 /\ load_Db (fix_env w_rank_dup) w_rank_dup = Failed 236 /\
  load_Db (fix_env v_db_unordered) v_db_unordered = load_Db (pre5_env v_db_unordered) v_db_unordered /\
  exists d g, load_Db (fix_env v_db_unordered) v_db_unordered = Loaded d g /\ nth 0 (d_loc d) [] = [1; 0] /\ wf_db_b d = true.
Proof. vm_compute. repeat split; try reflexivity. eexists. eexists. repeat split; reflexivity. Qed.

(* ---------------------------------------------------------------- regression: before the fixes C09_1..4 *)
Lemma asis_witnesses :
  load_Db (asis_env w_store_inplace) w_store_inplace = Crashed (OOB 14) /\
  load_Db (asis_env w_store_vec) w_store_vec = Crashed (OOB 11) /\
  load_PolyLine2D (asis_env w_store_poly) w_store_poly = Crashed (OOB 42) /\
  load_DbGrid (asis_env w_gridread) w_gridread = Crashed (OOB 17) /\
  load_Db (asis_env w_alloc) w_alloc = Crashed (Throw 1 11) /\
  load_Db (asis_env w_negative) w_negative = Crashed (Throw 2 13) /\
  load_Table (asis_env w_assert) w_assert = Crashed (Throw 3 31) /\
  load_Polygons (asis_env w_hang) w_hang = Crashed (Hang 43).
Proof. vm_compute. repeat split; reflexivity. Qed.
Lemma asis_wf_witnesses :
  (exists d g, load_Db (asis_env w_negnech) w_negnech = Loaded d g /\ wf_db_b d = false) /\
  (exists x g, load_DbGrid (asis_env w_gridtrunc) w_gridtrunc = Loaded x g /\ wf_dbgrid_b x = false).
Proof. vm_compute. split; eexists; eexists; split; reflexivity. Qed.
Lemma now_on_witnesses :
  load_Db (pre5_env w_store_inplace) w_store_inplace = Failed 72 /\
  load_Db (pre5_env w_store_vec) w_store_vec = Failed 40 /\
  load_PolyLine2D (pre5_env w_store_poly) w_store_poly = Failed 32 /\
  load_DbGrid (pre5_env w_gridread) w_gridread = Failed 124 /\
  load_Db (pre5_env w_alloc) w_alloc = Failed 0 /\
  load_Db (pre5_env w_negative) w_negative = Failed 0 /\
  load_Table (pre5_env w_assert) w_assert = Failed 0 /\
  load_Polygons (pre5_env w_hang) w_hang = Failed 0 /\
  load_Db (pre5_env w_negnech) w_negnech = Failed 0 /\
  load_DbGrid (pre5_env w_gridtrunc) w_gridtrunc = Failed 124.
Proof. vm_compute. repeat split; reflexivity. Qed.

(* ---------------------------------------------------------------- valid files *)
Lemma valid_files_load :
  (exists d g, load_Db (pre5_env v_db) v_db = Loaded d g /\ load_Db (fix_env v_db) v_db = Loaded d g /\ load_Db (asis_env v_db) v_db = Loaded d g /\ d_ncol d = 2 /\ d_nech d = 3 /\ wf_db_b d = true) /\
  (exists x g, load_DbGrid (pre5_env v_dbgrid) v_dbgrid = Loaded x g /\ load_DbGrid (fix_env v_dbgrid) v_dbgrid = Loaded x g /\ load_DbGrid (asis_env v_dbgrid) v_dbgrid = Loaded x g /\ d_nech (dg_db x) = 4 /\ wf_dbgrid_b x = true) /\
  (exists t g, load_Table (pre5_env v_table) v_table = Loaded t g /\ load_Table (asis_env v_table) v_table = Loaded t g /\ t_nrows t = 2 /\ wf_table_b t = true) /\
  (exists l g, load_Polygons (pre5_env v_polygons) v_polygons = Loaded l g /\ load_Polygons (asis_env v_polygons) v_polygons = Loaded l g /\ length l = 1%nat /\ wf_polygons_b l = true).
Proof. vm_compute. repeat split; repeat eexists; reflexivity. Qed.
Lemma envs_satisfy_hyps :
  now_env (pre5_env v_db) v_db (alloc_bound_grid (flen v_db)) /\ fixed_env (fix_env v_dbgrid) v_dbgrid (alloc_bound_grid (flen v_dbgrid)) /\
  flen v_db < 2147483648 /\ flen v_dbgrid < 2147483648.
Proof. vm_compute. repeat split; try reflexivity; intro H; discriminate H. Qed.

(* ---------------------------------------------------------------- the code as it is now (cfg_fixed) *)
Lemma fixed_on_witnesses2 :
  load_Db (fix_env w_store_inplace) w_store_inplace = Failed 72 /\
  load_Db (fix_env w_store_vec) w_store_vec = Failed 40 /\
  load_PolyLine2D (fix_env w_store_poly) w_store_poly = Failed 32 /\
  load_DbGrid (fix_env w_gridread) w_gridread = Failed 124 /\
  load_Db (fix_env w_alloc) w_alloc = Failed 0 /\
  load_Db (fix_env w_negative) w_negative = Failed 0 /\
  load_Table (fix_env w_assert) w_assert = Failed 0 /\
  load_Polygons (fix_env w_hang) w_hang = Failed 0 /\
  load_Db (fix_env w_negnech) w_negnech = Failed 0 /\
  load_DbGrid (fix_env w_gridtrunc) w_gridtrunc = Failed 124.
Proof. vm_compute. repeat split; reflexivity. Qed.
Lemma valid_files_load2 :
  (exists d g, load_Db (fix_env v_db) v_db = Loaded d g /\ load_Db (asis_env v_db) v_db = Loaded d g /\ d_ncol d = 2 /\ d_nech d = 3 /\ wf_db_b d = true) /\
  (exists x g, load_DbGrid (fix_env v_dbgrid) v_dbgrid = Loaded x g /\ load_DbGrid (asis_env v_dbgrid) v_dbgrid = Loaded x g /\ d_nech (dg_db x) = 4 /\ wf_dbgrid_b x = true) /\
  (exists t g, load_Table (fix_env v_table) v_table = Loaded t g /\ load_Table (asis_env v_table) v_table = Loaded t g /\ t_nrows t = 2 /\ wf_table_b t = true) /\
  (exists l g, load_Polygons (fix_env v_polygons) v_polygons = Loaded l g /\ load_Polygons (asis_env v_polygons) v_polygons = Loaded l g /\ length l = 1%nat /\ wf_polygons_b l = true).
Proof. vm_compute. repeat split; repeat eexists; reflexivity. Qed.

(* C09 proofs, second wave, part 2: Rule. With fixes/C09_11 the construction of the tree never dereferences a missing
   node pointer, and an object is returned only for a complete tree. *)
From Coq Require Import List ZArith QArith Bool Lia Arith.
From Gst Require Import C09.Model C09.Readers C09.Readers2 C09.Spec C09.Proofs_prim C09.Proofs_loc C09.Proofs2_loops.
Import ListNotations.
Local Open Scope Z_scope.

Lemma nth_upd_nth : forall A (l : list A) j k v d,
  nth k (upd_nth l j v) d = if Nat.eqb k j && Nat.ltb j (length l) then v else nth k l d.
Proof.
  induction l as [|x l IH]; intros j k v d.
  - destruct j; simpl; destruct k; simpl; rewrite ?andb_false_r; reflexivity.
  - destruct j as [|j]; destruct k as [|k]; simpl; try reflexivity.
    rewrite IH. replace (Nat.ltb (S j) (S (length l))) with (Nat.ltb j (length l)); [reflexivity|].
    unfold Nat.ltb. simpl. reflexivity.
Qed.

(* the slot of rank r holds a node *)
Definition P (t : ntab) (r : Z) : Prop := exists c, tab_get t r = Some (Some c).
Lemma tab_set_len : forall t r v, zlen (tab_set t r v) = zlen t.
Proof. intros. unfold tab_set, zlen. rewrite upd_nth_length. reflexivity. Qed.
Lemma P_set_other : forall t r r' c0, P t r' -> P (tab_set t r (Some c0)) r'.
Proof.
  intros t r r' c0 [c H]. unfold P, tab_get in *. rewrite tab_set_len.
  destruct ((1 <=? r') && (r' <=? zlen t)) eqn:C; [|discriminate]. unfold tab_set. rewrite nth_upd_nth.
  destruct (Nat.eqb (Z.to_nat (r' - 1)) (Z.to_nat (r - 1)) && Nat.ltb (Z.to_nat (r - 1)) (length t)); [eexists; reflexivity|exists c; assumption].
Qed.
Lemma P_set_same : forall t r c0, 1 <= r <= zlen t -> P (tab_set t r (Some c0)) r.
Proof.
  intros t r c0 H. unfold P, tab_get. rewrite tab_set_len.
  replace ((1 <=? r) && (r <=? zlen t)) with true by (symmetry; apply andb_true_iff; split; apply Z.leb_le; lia).
  unfold tab_set. rewrite nth_upd_nth. rewrite Nat.eqb_refl.
  replace (Nat.ltb (Z.to_nat (r - 1)) (length t)) with true by (symmetry; apply Nat.ltb_lt; unfold zlen in H; lia).
  eexists; reflexivity.
Qed.

Definition INV (nb : Z) (prev : list (Z * Z)) (n1 n2 : ntab) : Prop :=
  zlen n1 = nb /\ zlen n2 = nb /\
  forall t r, In (t, r) prev -> (t = 1 -> P n1 r) /\ (t = 2 -> P n2 r).

Lemma build_nodes_no_crash : forall nb rows first prev n1 n2,
  INV nb prev n1 n2 -> (first = true -> prev = []) ->
  build_nodes true nb first prev rows n1 n2 <> BCrash.
Proof.
  intros nb. induction rows as [|row rows IH]; intros first prev n1 n2 HI HF; cbn [build_nodes]; [discriminate|].
  destruct row as [|ft [|fr [|fv [|nt [|nr [|fac [|x r]]]]]]]; try discriminate.
  destruct (negb ((nt =? 0) || (nt =? 1) || (nt =? 2))); [discriminate|].
  destruct (negb (nt =? 0) && ((nr <? 1) || (nb <? nr))) eqn:CR; [discriminate|].
  assert (HRK : nt <> 0 -> 1 <= nr <= nb).
  { intros Hn. apply andb_false_iff in CR. destruct CR as [CR|CR].
    - apply negb_false_iff in CR. apply Z.eqb_eq in CR. lia.
    - apply orb_false_iff in CR. destruct CR as [CR1 CR2]. apply Z.ltb_ge in CR1. apply Z.ltb_ge in CR2. lia. }
  destruct (((nt =? 1) && negb (is_none2 (tab_get n1 nr))) || ((nt =? 2) && negb (is_none2 (tab_get n2 nr)))); [discriminate|].
  cbn [andb]. destruct (negb ((ft =? 0) || (ft =? 1) || (ft =? 2))) eqn:CT; [discriminate|].
  assert (HFT : 0 <= ft <= 2).
  { apply negb_false_iff in CT. repeat (apply orb_true_iff in CT; destruct CT as [CT|CT]); apply Z.eqb_eq in CT; lia. }
  destruct (negb first && negb (has_parent prev ft fr)) eqn:CP.
  { replace ((0 <=? ft) && (ft <=? 2)) with true by (symmetry; apply andb_true_iff; split; apply Z.leb_le; lia). discriminate. }
  destruct (first && negb (ft =? 0)) eqn:C1; [discriminate|].
  destruct (negb first && (ft =? 0)) eqn:C2; [discriminate|].
  destruct HI as [L1 [L2 HP]].
  (* the parent slot holds a node *)
  assert (HL1 : ft = 1 -> P n1 fr).
  { intros Hft. destruct first.
    - simpl in C1. apply negb_false_iff in C1. apply Z.eqb_eq in C1. lia.
    - simpl in CP. apply negb_false_iff in CP. unfold has_parent in CP. apply existsb_exists in CP.
      destruct CP as [[t r] [Hin Heq]]. simpl in Heq. apply andb_true_iff in Heq. destruct Heq as [E1 E2].
      apply Z.eqb_eq in E1. apply Z.eqb_eq in E2. subst. apply (HP _ _ Hin). reflexivity. }
  assert (HL2 : ft = 2 -> P n2 fr).
  { intros Hft. destruct first.
    - simpl in C1. apply negb_false_iff in C1. apply Z.eqb_eq in C1. lia.
    - simpl in CP. apply negb_false_iff in CP. unfold has_parent in CP. apply existsb_exists in CP.
      destruct CP as [[t r] [Hin Heq]]. simpl in Heq. apply andb_true_iff in Heq. destruct Heq as [E1 E2].
      apply Z.eqb_eq in E1. apply Z.eqb_eq in E2. subst. apply (HP _ _ Hin). reflexivity. }
  (* first link *)
  set (n1' := if ft =? 1 then match tab_get n1 fr with Some (Some c) => Some (tab_set n1 fr (Some (set_child fv c))) | _ => None end else Some n1).
  set (n2' := if ft =? 2 then match tab_get n2 fr with Some (Some c) => Some (tab_set n2 fr (Some (set_child fv c))) | _ => None end else Some n2).
  assert (H1 : exists a, n1' = Some a /\ zlen a = nb /\ forall r, P n1 r -> P a r).
  { unfold n1'. destruct (ft =? 1) eqn:CF.
    - apply Z.eqb_eq in CF. destruct (HL1 CF) as [c Hc]. rewrite Hc. eexists. split; [reflexivity|].
      split; [rewrite tab_set_len; assumption|]. intros r Hr. apply P_set_other. assumption.
    - exists n1. split; [reflexivity|split; [assumption|auto]]. }
  assert (H2 : exists a, n2' = Some a /\ zlen a = nb /\ forall r, P n2 r -> P a r).
  { unfold n2'. destruct (ft =? 2) eqn:CF.
    - apply Z.eqb_eq in CF. destruct (HL2 CF) as [c Hc]. rewrite Hc. eexists. split; [reflexivity|].
      split; [rewrite tab_set_len; assumption|]. intros r Hr. apply P_set_other. assumption.
    - exists n2. split; [reflexivity|split; [assumption|auto]]. }
  destruct H1 as [a1 [E1 [LA1 PA1]]]. destruct H2 as [a2 [E2 [LA2 PA2]]].
  fold n1' n2'. rewrite E1, E2.
  apply IH; [|discriminate].
  split; [destruct (nt =? 1); [rewrite tab_set_len|]; assumption|].
  split; [destruct (nt =? 2); [rewrite tab_set_len|]; assumption|].
  intros t r [Hin|Hin].
  - inversion Hin; subst. split; intros Ht; subst.
    + rewrite Z.eqb_refl. apply P_set_same. pose proof (HRK ltac:(lia)). lia.
    + rewrite Z.eqb_refl. apply P_set_same. pose proof (HRK ltac:(lia)). lia.
  - destruct (HP _ _ Hin) as [Q1 Q2]. split; intros Ht.
    + destruct (nt =? 1); [apply P_set_other|]; apply PA1; auto.
    + destruct (nt =? 2); [apply P_set_other|]; apply PA2; auto.
Qed.

Section Fixed.
Variable E : env.
Variable flen : Z.
Hypothesis Hcfg : cfg_ge_now (e_cfg E).
Hypothesis Hflen : 0 <= flen.
Hypothesis Hfuel : flen < Z.of_nat (e_fuel E).
Hypothesis Hcap : alloc_bound flen <= e_cap E.
Hypothesis HR : fix_rule (e_prop E) = true.

Theorem rule_fixed : forall m, len m <= flen -> rspec (40 * flen) wf_rule m (rule_deserialize E m).
Proof.
  intros m Hm. unfold rule_deserialize, rspec. unfold alloc_bound in Hcap.
  assert (HFC : fix_counts (e_cfg E) = true) by (destruct Hcfg as [H1 [H2 [H3 H4]]]; assumption).
  assert (Hlm : 0 <= len m) by (unfold len; lia).
  pose proof (read_int_reads m) as R1. destruct (read_int m) as [o1 m1|b]; cbn [bind reads] in *; [|contradiction].
  destruct R1 as [L1 G1]. destruct o1 as [mode|]; [|split; [lia|split; [lia|exact I]]].
  pose proof (read_double_reads m1) as R2. destruct (read_double m1) as [o2 m2|b]; cbn [bind reads] in *; [|contradiction].
  destruct R2 as [L2 G2]. destruct o2 as [rho|]; [|split; [lia|split; [lia|exact I]]].
  pose proof (read_int_reads m2) as R3. destruct (read_int m2) as [o3 m3|b]; cbn [bind reads] in *; [|contradiction].
  destruct R3 as [L3 G3]. destruct o3 as [nb|]; [|split; [lia|split; [lia|exact I]]].
  destruct ((nb <=? 0) || negb (count_ok E (6 * nb) m3)) eqn:CK; [split; [lia|split; [lia|exact I]]|].
  apply orb_false_iff in CK. destruct CK as [C0 CK]. apply Z.leb_gt in C0. apply negb_false_iff in CK.
  apply count_ok_fixed in CK; [|assumption].
  rewrite alloc_ok by lia. cbn [bind].
  set (m4 := mkM (ms m3) (galloc m3 + 6 * nb * 4)).
  assert (L4 : len m4 = len m3) by reflexivity. assert (G4 : galloc m4 = galloc m3 + 6 * nb * 4) by reflexivity.
  pose proof (read_ints_spec (e_fuel E) (6 * nb) 0 [] m4 ltac:(lia) ltac:(lia)) as RN. unfold loop_post in RN.
  destruct (read_ints (e_fuel E) (6 * nb) 0 [] m4) as [on m5|b]; cbn [bind]; [|contradiction].
  destruct RN as [L5 [G5 W5]]. destruct on as [nodes|]; [|split; [lia|split; [lia|exact I]]].
  rewrite alloc_ok by lia. cbn [bind]. rewrite HR.
  set (m6 := mkM (ms m5) (galloc m5 + 2 * nb * 8)).
  assert (L6 : len m6 = len m5) by reflexivity. assert (G6 : galloc m6 = galloc m5 + 2 * nb * 8) by reflexivity.
  set (empty := repeat (@None (bool * bool)) (Z.to_nat nb)).
  assert (HE : zlen empty = nb) by (unfold empty, zlen; rewrite repeat_length; lia).
  pose proof (build_nodes_no_crash nb (chunk6 (length nodes) nodes) true [] empty empty) as HB.
  destruct (build_nodes true nb true [] (chunk6 (length nodes) nodes) empty empty) as [n1 n2| |].
  - cbn [andb]. destruct (negb (tab_complete n1 && tab_complete n2)) eqn:CC; [split; [lia|split; [lia|exact I]]|].
    apply negb_false_iff in CC. split; [lia|split; [lia|]]. unfold wf_rule. cbn [ru_built ru_complete ru_nnode].
    split; [reflexivity|split; [assumption|lia]].
  - split; [lia|split; [lia|exact I]].
  - exfalso. apply HB; [|reflexivity|reflexivity]. split; [assumption|split; [assumption|]]. intros t r [].
Qed.
End Fixed.

(* C09 proofs, part 4: role lists and names of a freshly loaded Db.
   - set_locator with the clamp of fixes/C09_3 keeps "no uid twice, every uid below the number of columns handled";
   - correctNewNameForDuplicates terminates (the candidates have strictly growing lengths). *)
From Coq Require Import List ZArith QArith Bool Lia Arith Permutation.
From Gst Require Import C09.Model C09.Readers C09.Spec C09.Proofs_prim.
Import ListNotations.
Local Open Scope Z_scope.

(* ------------------------------------------------------------------ list surgery *)
Lemma upd_nth_length : forall A (l : list A) k v, length (upd_nth l k v) = length l.
Proof. induction l as [|x l IH]; intros [|k] v; simpl; auto. Qed.
Lemma upd_nth_app : forall A (a : list A) x b v, upd_nth (a ++ x :: b) (length a) v = a ++ v :: b.
Proof. induction a as [|y a IH]; intros; simpl; [reflexivity|]. rewrite IH. reflexivity. Qed.
Lemma upd_nth_beyond : forall A (l : list A) k v, (length l <= k)%nat -> upd_nth l k v = l.
Proof. induction l as [|x l IH]; intros [|k] v H; simpl in *; auto; try lia. rewrite IH by lia. reflexivity. Qed.
Lemma nth_upd_nth_same : forall A (l : list A) k v d, (k < length l)%nat -> nth k (upd_nth l k v) d = v.
Proof. induction l as [|x l IH]; intros [|k] v d H; simpl in *; try lia; auto. apply IH. lia. Qed.
Lemma set_at_end : forall p v, set_at p (length p) v = p ++ [v].
Proof. induction p as [|x p IH]; intros; simpl; [reflexivity|]. rewrite IH. reflexivity. Qed.
Lemma set_at_mid : forall p1 u p2 v, set_at (p1 ++ u :: p2) (length p1) v = p1 ++ v :: p2.
Proof. induction p1 as [|x p1 IH]; intros; simpl; [reflexivity|]. rewrite IH. reflexivity. Qed.

Lemma remove_first_notin : forall u l, ~ In u l -> remove_first u l = l.
Proof.
  induction l as [|x l IH]; intros H; simpl; [reflexivity|].
  destruct (x =? u) eqn:E.
  - apply Z.eqb_eq in E. exfalso. apply H. left. assumption.
  - rewrite IH; [reflexivity|]. intro. apply H. right. assumption.
Qed.
Lemma map_remove_first_notin : forall u ls, ~ In u (concat ls) -> map (remove_first u) ls = ls.
Proof.
  induction ls as [|l ls IH]; intros H; simpl; [reflexivity|].
  simpl in H. rewrite remove_first_notin by (intro; apply H; apply in_or_app; left; assumption).
  rewrite IH by (intro; apply H; apply in_or_app; right; assumption). reflexivity.
Qed.

Lemma NoDup_insert : forall (l1 l2 : list Z) a, NoDup (l1 ++ l2) -> ~ In a (l1 ++ l2) -> NoDup (l1 ++ a :: l2).
Proof.
  intros l1 l2 a H N. eapply Permutation_NoDup; [apply Permutation_cons_app; apply Permutation_refl|].
  constructor; assumption.
Qed.

(* pigeonhole: distinct numbers of [0, n) are at most n *)
Lemma NoDup_range_length : forall (l : list Z) n, NoDup l -> Forall (fun u => 0 <= u < n) l -> Z.of_nat (length l) <= Z.max n 0.
Proof.
  intros l n ND F.
  assert (H : (length (map Z.to_nat l) <= length (seq 0 (Z.to_nat n)))%nat).
  { apply NoDup_incl_length.
    - clear - ND F. induction l as [|x l IH]; simpl; [constructor|].
      inversion ND; subst. inversion F; subst. constructor; [|apply IH; assumption].
      intro HI. apply in_map_iff in HI. destruct HI as [y [Hy HI]].
      rewrite Forall_forall in H4. specialize (H4 _ HI). assert (y = x) by lia. subst. contradiction.
    - intros k HI. apply in_map_iff in HI. destruct HI as [y [Hy HI]]. rewrite Forall_forall in F. specialize (F _ HI).
      apply in_seq. lia. }
  rewrite map_length, seq_length in H. lia.
Qed.

(* ------------------------------------------------------------------ the role lists *)
Lemma znth_nth : forall (ls : list (list Z)) t, 0 <= t -> znth ls t [] = nth (Z.to_nat t) ls [].
Proof. intros. unfold znth. replace (t <? 0) with false by (symmetry; apply Z.ltb_ge; lia). reflexivity. Qed.

Lemma set_at_length : forall p k v, length (set_at p k v) = Nat.max (length p) (S k).
Proof.
  induction p as [|x p IH]; intros k v.
  - induction k as [|k IHk]; simpl; [reflexivity|]. rewrite IHk. simpl. lia.
  - destruct k as [|k]; simpl; [lia|]. rewrite IH. lia.
Qed.
Lemma set_at_Forall : forall (P : Z -> Prop) p k v, P 0 -> P v -> Forall P p -> Forall P (set_at p k v).
Proof.
  intros P p. induction p as [|x p IH]; intros k v H0 Hv HF.
  - induction k as [|k IHk]; simpl; constructor; auto.
  - inversion HF; subst. destruct k as [|k]; simpl; constructor; auto.
Qed.
Lemma concat_upd : forall (locs : list (list Z)) t p', (t < length locs)%nat ->
  exists A B, concat locs = concat A ++ nth t locs [] ++ concat B /\
              concat (upd_nth locs t p') = concat A ++ p' ++ concat B.
Proof.
  intros locs t p' Ht. destruct (nth_split locs [] Ht) as [A [B [EQ LA]]]. exists A, B. split.
  - rewrite EQ at 1. rewrite concat_app. simpl. reflexivity.
  - rewrite EQ at 1. rewrite <- LA. rewrite upd_nth_app. rewrite concat_app. simpl. reflexivity.
Qed.
Lemma Forall_upd_nth : forall A (P : A -> Prop) (l : list A) k v, Forall P l -> P v -> Forall P (upd_nth l k v).
Proof.
  induction l as [|x l IH]; intros k v HF Hv; [destruct k; constructor|].
  inversion HF; subst. destruct k; simpl; constructor; auto.
Qed.
Lemma Forall_nth_default : forall (P : list Z -> Prop) (l : list (list Z)) k, Forall P l -> P [] -> P (nth k l []).
Proof.
  induction l as [|x l IH]; intros k HF H0; [destruct k; assumption|].
  inversion HF; subst. destruct k; simpl; auto.
Qed.
Lemma concat_length_bound : forall (l : list (list Z)) b, 0 <= b -> Forall (fun x => zlen x <= b) l ->
  zlen (concat l) <= Z.of_nat (length l) * b.
Proof.
  induction l as [|x l IH]; intros b Hb HF; [unfold zlen; simpl; lia|].
  inversion HF; subst. specialize (IH b Hb H2). unfold zlen in *. cbn [concat length]. rewrite app_length.
  rewrite Nat2Z.inj_add, Nat2Z.inj_succ. nia.
Qed.

Definition is_throw16 (b : bad) : bool := match b with Throw k s => (k =? 1) && (s =? 16) | _ => false end.

(* Db::setLocatorByUID as called by Db::_deserialize (no clamp: a rank beyond the count pads the list with 0).
   [i] is the column being handled: the lists only hold fillers (0) and columns below i. *)
Lemma set_locator_spec : forall E ncol locs i typ idx m,
  0 <= i < ncol -> 0 <= idx -> typ < 29 -> length locs = 29%nat -> Forall (fun u => 0 <= u < i) (concat locs) ->
  match set_locator E ncol locs i typ idx m with
  | Ret locs' m' => ms m' = ms m /\ length locs' = 29%nat /\ Forall (fun u => 0 <= u < i + 1) (concat locs') /\
                    galloc m' = galloc m + 4 * (zlen (concat locs') - zlen (concat locs)) /\
                    zlen (concat locs) <= zlen (concat locs') /\
                    (forall b, Forall (fun l => zlen l <= b) locs -> idx < b -> Forall (fun l => zlen l <= b) locs')
  | Bad b => is_throw16 b = true /\ e_cap E < (idx + 1) * 4
  end.
Proof.
  intros E ncol locs i typ idx m Hi Hidx Htyp HL F. unfold set_locator.
  replace ((0 <=? i) && (i <? ncol)) with true
    by (symmetry; apply andb_true_iff; split; [apply Z.leb_le|apply Z.ltb_lt]; lia).
  assert (Hfresh : ~ In i (concat locs)).
  { intro HI. rewrite Forall_forall in F. specialize (F _ HI). lia. }
  rewrite map_remove_first_notin by assumption.
  assert (F' : Forall (fun u => 0 <= u < i + 1) (concat locs)).
  { eapply Forall_impl; [|exact F]. simpl. intros. lia. }
  destruct (typ <? 0) eqn:CT.
  - split; [reflexivity|split; [assumption|split; [assumption|split; [lia|split; [lia|]]]]]. intros b Hb _. assumption.
  - apply Z.ltb_ge in CT. rewrite znth_nth by assumption. cbv zeta.
    set (t := Z.to_nat typ). assert (Ht : (t < length locs)%nat) by (unfold t; lia).
    set (p := nth t locs []).
    set (p' := set_at p (Z.to_nat idx) i).
    destruct (concat_upd locs t p' Ht) as [A [B [EC EU]]]. fold p in EC.
    assert (FP : Forall (fun u => 0 <= u < i + 1) p') by
      (unfold p'; apply set_at_Forall; [lia|lia|]; rewrite EC in F'; apply Forall_app in F'; destruct F' as [_ F2]; apply Forall_app in F2; destruct F2; assumption).
    assert (FU : Forall (fun u => 0 <= u < i + 1) (concat (upd_nth locs t p'))).
    { rewrite EU. rewrite EC in F'. apply Forall_app in F'. destruct F' as [F1 F2]. apply Forall_app in F2. destruct F2 as [F2 F3].
      apply Forall_app. split; [assumption|]. apply Forall_app. split; assumption. }
    assert (LP : length p' = Nat.max (length p) (S (Z.to_nat idx))) by (unfold p'; apply set_at_length).
    assert (LC : zlen (concat (upd_nth locs t p')) = zlen (concat locs) - zlen p + zlen p').
    { rewrite EU, EC. unfold zlen. rewrite !app_length. lia. }
    assert (LB : forall b, Forall (fun l => zlen l <= b) locs -> idx < b -> Forall (fun l => zlen l <= b) (upd_nth locs t p')).
    { intros b Hb Hib. apply Forall_upd_nth; [assumption|].
      assert (zlen p <= b). { unfold p. apply (Forall_nth_default (fun l => zlen l <= b)); [assumption|unfold zlen; simpl; lia]. }
      unfold zlen in *. lia. }
    destruct (zlen p <=? idx) eqn:CN.
    + apply Z.leb_le in CN. destruct (e_cap E <? (idx + 1) * 4) eqn:CC.
      * apply Z.ltb_lt in CC. split; [reflexivity|assumption].
      * cbn [ms galloc]. split; [reflexivity|split; [rewrite upd_nth_length; assumption|split; [assumption|]]].
        unfold zlen in *. split; [lia|split; [lia|assumption]].
    + apply Z.leb_gt in CN. split; [reflexivity|split; [rewrite upd_nth_length; assumption|split; [assumption|]]].
      unfold zlen in *. split; [lia|split; [lia|assumption]].
Qed.

(* ------------------------------------------------------------------ names *)
Lemma bytes_eqb_eq : forall a b, bytes_eqb a b = true -> a = b.
Proof.
  induction a as [|x a IH]; intros [|y b] H; simpl in H; try discriminate; [reflexivity|].
  apply andb_true_iff in H. destruct H as [H1 H2]. apply Z.eqb_eq in H1. subst. f_equal. apply IH. assumption.
Qed.

(* number of entries at least as long as the candidate *)
Definition cnt (O : list (list Z)) (k : nat) : nat := length (filter (fun x => Nat.leb k (length x)) O).
Lemma filter_len_mono : forall (O : list (list Z)) (a b : nat), (a <= b)%nat ->
  (length (filter (fun x => Nat.leb b (length x)) O) <= length (filter (fun x => Nat.leb a (length x)) O))%nat.
Proof.
  induction O as [|y O IH]; intros a b Hab; simpl; [lia|]. specialize (IH a b Hab).
  destruct (Nat.leb b (length y)) eqn:C1; destruct (Nat.leb a (length y)) eqn:C2; simpl; try lia.
  apply Nat.leb_le in C1. apply Nat.leb_gt in C2. lia.
Qed.
Lemma cnt_decr : forall O nm, existsb (fun x => bytes_eqb x nm) O = true ->
  (cnt O (length (nm ++ [46%Z; 49%Z])) < cnt O (length nm))%nat.
Proof.
  intros O nm. unfold cnt. rewrite app_length. simpl length.
  induction O as [|x O IH]; intros H; simpl in H; [discriminate|].
  simpl. destruct (bytes_eqb x nm) eqn:EQ.
  - apply bytes_eqb_eq in EQ. subst x.
    replace (Nat.leb (length nm + 2) (length nm)) with false by (symmetry; apply Nat.leb_gt; lia).
    rewrite Nat.leb_refl. simpl. pose proof (filter_len_mono O (length nm) (length nm + 2) ltac:(lia)). lia.
  - simpl in H. specialize (IH H).
    destruct (Nat.leb (length nm + 2) (length x)) eqn:C1; destruct (Nat.leb (length nm) (length x)) eqn:C2; simpl; try lia.
    apply Nat.leb_le in C1. apply Nat.leb_gt in C2. lia.
Qed.

Lemma bytes_eqb_refl : forall a, bytes_eqb a a = true.
Proof. induction a as [|x a IH]; simpl; [reflexivity|]. rewrite Z.eqb_refl, IH. reflexivity. Qed.
Lemma cnt_le : forall O k, (cnt O k <= length O)%nat.
Proof. intros. unfold cnt. induction O as [|x O IH]; simpl; [lia|]. destruct (Nat.leb k (length x)); simpl; lia. Qed.

Lemma dedup_prev_total : forall fuel prev nm, (cnt prev (length nm) < fuel)%nat ->
  exists nm', dedup_prev fuel prev nm = Some nm' /\ ~ In nm' prev.
Proof.
  induction fuel as [|f IH]; intros prev nm Hc; [lia|]. simpl.
  destruct (existsb (fun x => bytes_eqb x nm) prev) eqn:EX.
  - pose proof (cnt_decr _ _ EX) as HD. apply IH. lia.
  - exists nm. split; [reflexivity|]. intro HI.
    assert (existsb (fun x => bytes_eqb x nm) prev = true) by (apply existsb_exists; exists nm; split; [assumption|apply bytes_eqb_refl]).
    congruence.
Qed.
(* correctNamesForDuplicates terminates, keeps the number of names and leaves them pairwise different *)
Lemma correct_names_total : forall l prev, NoDup prev ->
  exists r, correct_names prev l = Some r /\ length r = (length prev + length l)%nat /\ NoDup r.
Proof.
  induction l as [|nm l IH]; intros prev ND; cbn [correct_names].
  - exists (frev prev). split; [reflexivity|]. rewrite frev_length. split; [simpl; lia|]. rewrite frev_rev. apply NoDup_rev. assumption.
  - destruct (dedup_prev_total (S (length prev)) prev nm) as [nm' [H1 H2]].
    + pose proof (cnt_le prev (length nm)). lia.
    + rewrite H1. destruct (IH (nm' :: prev)) as [r [R1 [R2 R3]]]; [constructor; assumption|].
      exists r. split; [assumption|split; [simpl in R2 |- *; lia|assumption]].
Qed.

(* C09 proofs, part 4: role lists and names of a freshly loaded Db.
   - set_locator with the clamp of fixes/C09_3 keeps "no uid twice, every uid below the number of columns handled";
   - correctNewNameForDuplicates terminates (the candidates have strictly growing lengths). *)
From Coq Require Import List ZArith QArith Bool Lia Arith Permutation.
From Gst Require Import C09.Model C09.Readers C09.Spec C09.Proofs_prim.
Import ListNotations.
Local Open Scope Z_scope.

(* ------------------------------------------------------------------ list surgery *)
Lemma upd_nth_length : forall A (l : list A) k v, length (upd_nth l k v) = length l.
Proof. induction l as [|x l IH]; intros [|k] v; simpl; auto. Qed.
Lemma upd_nth_app : forall A (a : list A) x b v, upd_nth (a ++ x :: b) (length a) v = a ++ v :: b.
Proof. induction a as [|y a IH]; intros; simpl; [reflexivity|]. rewrite IH. reflexivity. Qed.
Lemma upd_nth_beyond : forall A (l : list A) k v, (length l <= k)%nat -> upd_nth l k v = l.
Proof. induction l as [|x l IH]; intros [|k] v H; simpl in *; auto; try lia. rewrite IH by lia. reflexivity. Qed.
Lemma nth_upd_nth_same : forall A (l : list A) k v d, (k < length l)%nat -> nth k (upd_nth l k v) d = v.
Proof. induction l as [|x l IH]; intros [|k] v d H; simpl in *; try lia; auto. apply IH. lia. Qed.
Lemma set_at_end : forall p v, set_at p (length p) v = p ++ [v].
Proof. induction p as [|x p IH]; intros; simpl; [reflexivity|]. rewrite IH. reflexivity. Qed.
Lemma set_at_mid : forall p1 u p2 v, set_at (p1 ++ u :: p2) (length p1) v = p1 ++ v :: p2.
Proof. induction p1 as [|x p1 IH]; intros; simpl; [reflexivity|]. rewrite IH. reflexivity. Qed.

Lemma remove_first_notin : forall u l, ~ In u l -> remove_first u l = l.
Proof.
  induction l as [|x l IH]; intros H; simpl; [reflexivity|].
  destruct (x =? u) eqn:E.
  - apply Z.eqb_eq in E. exfalso. apply H. left. assumption.
  - rewrite IH; [reflexivity|]. intro. apply H. right. assumption.
Qed.
Lemma map_remove_first_notin : forall u ls, ~ In u (concat ls) -> map (remove_first u) ls = ls.
Proof.
  induction ls as [|l ls IH]; intros H; simpl; [reflexivity|].
  simpl in H. rewrite remove_first_notin by (intro; apply H; apply in_or_app; left; assumption).
  rewrite IH by (intro; apply H; apply in_or_app; right; assumption). reflexivity.
Qed.

Lemma NoDup_insert : forall (l1 l2 : list Z) a, NoDup (l1 ++ l2) -> ~ In a (l1 ++ l2) -> NoDup (l1 ++ a :: l2).
Proof.
  intros l1 l2 a H N. eapply Permutation_NoDup; [apply Permutation_cons_app; apply Permutation_refl|].
  constructor; assumption.
Qed.

(* pigeonhole: distinct numbers of [0, n) are at most n *)
Lemma NoDup_range_length : forall (l : list Z) n, NoDup l -> Forall (fun u => 0 <= u < n) l -> Z.of_nat (length l) <= Z.max n 0.
Proof.
  intros l n ND F.
  assert (H : (length (map Z.to_nat l) <= length (seq 0 (Z.to_nat n)))%nat).
  { apply NoDup_incl_length.
    - clear - ND F. induction l as [|x l IH]; simpl; [constructor|].
      inversion ND; subst. inversion F; subst. constructor; [|apply IH; assumption].
      intro HI. apply in_map_iff in HI. destruct HI as [y [Hy HI]].
      rewrite Forall_forall in H4. specialize (H4 _ HI). assert (y = x) by lia. subst. contradiction.
    - intros k HI. apply in_map_iff in HI. destruct HI as [y [Hy HI]]. rewrite Forall_forall in F. specialize (F _ HI).
      apply in_seq. lia. }
  rewrite map_length, seq_length in H. lia.
Qed.

(* ------------------------------------------------------------------ the role lists *)
(* invariant after the columns 0 .. i-1 have received their role *)
Definition LI (i : Z) (locs : list (list Z)) : Prop :=
  length locs = 29%nat /\ NoDup (concat locs) /\ Forall (fun u => 0 <= u < i) (concat locs).

Lemma LI_init : LI 0 no_loc.
Proof. unfold LI, no_loc. simpl. split; [reflexivity|split; constructor]. Qed.

Lemma in_concat_nth : forall (ls : list (list Z)) k u, In u (nth k ls []) -> In u (concat ls).
Proof.
  induction ls as [|l ls IH]; intros [|k] u H; simpl in *; try contradiction.
  - apply in_or_app. left. assumption.
  - apply in_or_app. right. eapply IH. eassumption.
Qed.
Lemma length_nth_concat : forall (ls : list (list Z)) k, (length (nth k ls []) <= length (concat ls))%nat.
Proof.
  induction ls as [|l ls IH]; intros [|k]; simpl; try lia.
  - rewrite app_length. lia.
  - rewrite app_length. specialize (IH k). lia.
Qed.

Lemma LI_replace : forall i locs t k,
  0 <= i -> LI i locs -> (k <= length (nth t locs []))%nat ->
  LI (i + 1) (upd_nth locs t (set_at (nth t locs []) k i)).
Proof.
  intros i locs t k Hi [HL [ND F]] Hk.
  assert (Hfresh : ~ In i (concat locs)).
  { intro HI. rewrite Forall_forall in F. specialize (F _ HI). lia. }
  assert (F' : Forall (fun u => 0 <= u < i + 1) (concat locs)).
  { eapply Forall_impl; [|exact F]. simpl. intros. lia. }
  destruct (le_lt_dec (length locs) t) as [Ht|Ht].
  - rewrite upd_nth_beyond by assumption. split; [assumption|split; assumption].
  - destruct (nth_split locs [] Ht) as [A [B [EQ LA]]].
    remember (nth t locs []) as p eqn:Hp.
    assert (EC : concat locs = concat A ++ p ++ concat B).
    { rewrite EQ at 1. rewrite concat_app. simpl. reflexivity. }
    split; [rewrite upd_nth_length; assumption|].
    assert (EU : upd_nth locs t (set_at p k i) = A ++ set_at p k i :: B).
    { rewrite EQ at 1. rewrite <- LA. apply upd_nth_app. }
    rewrite EU. rewrite concat_app. simpl.
    destruct (Nat.eq_dec k (length p)) as [Ek|Ek].
    + subst k. rewrite set_at_end.
      replace (concat A ++ (p ++ [i]) ++ concat B) with ((concat A ++ p) ++ i :: concat B)
        by (rewrite <- !app_assoc; reflexivity).
      rewrite EC in ND, Hfresh, F'. rewrite app_assoc in ND, Hfresh, F'.
      split.
      * apply NoDup_insert; assumption.
      * apply Forall_app in F'. destruct F' as [F1 F2]. apply Forall_app. split; [assumption|].
        constructor; [lia|assumption].
    + assert (Hk' : (k < length p)%nat) by lia.
      destruct (nth_split p 0 Hk') as [p1 [p2 [EP LP]]].
      rewrite EP. rewrite <- LP. rewrite set_at_mid.
      replace (concat A ++ (p1 ++ i :: p2) ++ concat B) with ((concat A ++ p1) ++ i :: (p2 ++ concat B))
        by (rewrite <- !app_assoc; reflexivity).
      rewrite EC, EP in ND, Hfresh, F'.
      replace (concat A ++ (p1 ++ nth k p 0 :: p2) ++ concat B) with ((concat A ++ p1) ++ nth k p 0 :: (p2 ++ concat B)) in ND, Hfresh, F'
        by (rewrite <- !app_assoc; reflexivity).
      split.
      * apply NoDup_insert.
        -- eapply NoDup_remove_1. exact ND.
        -- intro HI. apply Hfresh. apply in_app_or in HI. apply in_or_app. destruct HI; [left; assumption|right; right; assumption].
      * apply Forall_app in F'. destruct F' as [F1 F2]. inversion F2; subst. apply Forall_app. split; [assumption|].
        constructor; [lia|assumption].
Qed.

Lemma znth_nth : forall (ls : list (list Z)) t, 0 <= t -> znth ls t [] = nth (Z.to_nat t) ls [].
Proof. intros. unfold znth. replace (t <? 0) with false by (symmetry; apply Z.ltb_ge; lia). reflexivity. Qed.

(* Db::setLocatorByUID as called by Db::_deserialize, with the clamp *)
Lemma set_locator_fixed : forall E ncol locs i typ idx m,
  fix_loc (e_cfg E) = true -> 0 <= i < ncol -> 0 <= idx -> (ncol + 1) * 4 <= e_cap E -> LI i locs ->
  match set_locator E ncol locs i typ idx m with
  | Ret locs' m' => ms m' = ms m /\ galloc m <= galloc m' <= galloc m + 4 /\ LI (i + 1) locs'
  | Bad _ => False
  end.
Proof.
  intros E ncol locs i typ idx m HF Hi Hidx Hcap HLI. unfold set_locator. rewrite HF.
  replace ((0 <=? i) && (i <? ncol)) with true
    by (symmetry; apply andb_true_iff; split; [apply Z.leb_le|apply Z.ltb_lt]; lia).
  destruct HLI as [HL [ND F]].
  assert (Hfresh : ~ In i (concat locs)).
  { intro HI. rewrite Forall_forall in F. specialize (F _ HI). lia. }
  rewrite map_remove_first_notin by assumption.
  destruct (typ <? 0) eqn:CT.
  - split; [reflexivity|split; [lia|]]. split; [assumption|split; [assumption|]].
    eapply Forall_impl; [|exact F]. simpl. intros. lia.
  - apply Z.ltb_ge in CT. rewrite znth_nth by assumption.
    set (p := nth (Z.to_nat typ) locs []).
    assert (HP : Z.of_nat (length p) <= i).
    { pose proof (length_nth_concat locs (Z.to_nat typ)) as H1.
      pose proof (NoDup_range_length _ _ ND F) as H2. unfold p. lia. }
    set (idx' := Z.min idx (zlen p)).
    assert (Hk : (Z.to_nat idx' <= length p)%nat) by (unfold idx', zlen; lia).
    pose proof (LI_replace i locs (Z.to_nat typ) (Z.to_nat idx') ltac:(lia) (conj HL (conj ND F)) Hk) as HR.
    fold p in HR.
    destruct (zlen p <=? idx') eqn:CN.
    + apply Z.leb_le in CN.
      replace (e_cap E <? (idx' + 1) * 4) with false by (symmetry; apply Z.ltb_ge; unfold idx', zlen in *; lia).
      simpl. split; [reflexivity|split; [unfold idx', zlen in *; lia|exact HR]].
    + split; [reflexivity|split; [lia|exact HR]].
Qed.

(* ------------------------------------------------------------------ names *)
Lemma bytes_eqb_eq : forall a b, bytes_eqb a b = true -> a = b.
Proof.
  induction a as [|x a IH]; intros [|y b] H; simpl in H; try discriminate; [reflexivity|].
  apply andb_true_iff in H. destruct H as [H1 H2]. apply Z.eqb_eq in H1. subst. f_equal. apply IH. assumption.
Qed.

Definition others {A} (l : list A) (r : nat) : list A := firstn r l ++ skipn (S r) l.
Lemma others_upd : forall A (l : list A) r v, others (upd_nth l r v) r = others l r.
Proof.
  unfold others. induction l as [|x l IH]; intros [|r] v; simpl; auto.
  specialize (IH r v). simpl in IH. f_equal. destruct l; [destruct r; reflexivity|]. exact IH.
Qed.
Lemma other_equal_others : forall l i r nm,
  other_equal l i (i + r) nm = existsb (fun x => bytes_eqb x nm) (others l r).
Proof.
  induction l as [|x l IH]; intros i r nm; simpl.
  - unfold others. destruct r; reflexivity.
  - destruct r as [|r].
    + replace (i + 0)%nat with i by lia. rewrite Nat.eqb_refl. simpl.
      unfold others. simpl. specialize (IH (S i) 0%nat nm).
      (* the remaining entries all have an index different from i *)
      clear IH. assert (G : forall l j, (i < j)%nat -> other_equal l j i nm = existsb (fun x => bytes_eqb x nm) l).
      { induction l0 as [|y l0 IH0]; intros j Hj; simpl; [reflexivity|].
        replace (Nat.eqb j i) with false by (symmetry; apply Nat.eqb_neq; lia). simpl. rewrite IH0 by lia. reflexivity. }
      apply G. lia.
    + replace (Nat.eqb i (i + S r)) with false by (symmetry; apply Nat.eqb_neq; lia). simpl.
      replace (i + S r)%nat with (S i + r)%nat by lia. rewrite IH. unfold others. simpl. reflexivity.
Qed.

(* number of entries at least as long as the candidate *)
Definition cnt (O : list (list Z)) (k : nat) : nat := length (filter (fun x => Nat.leb k (length x)) O).
Lemma filter_len_mono : forall (O : list (list Z)) (a b : nat), (a <= b)%nat ->
  (length (filter (fun x => Nat.leb b (length x)) O) <= length (filter (fun x => Nat.leb a (length x)) O))%nat.
Proof.
  induction O as [|y O IH]; intros a b Hab; simpl; [lia|]. specialize (IH a b Hab).
  destruct (Nat.leb b (length y)) eqn:C1; destruct (Nat.leb a (length y)) eqn:C2; simpl; try lia.
  apply Nat.leb_le in C1. apply Nat.leb_gt in C2. lia.
Qed.
Lemma cnt_decr : forall O nm, existsb (fun x => bytes_eqb x nm) O = true ->
  (cnt O (length (nm ++ [46%Z; 49%Z])) < cnt O (length nm))%nat.
Proof.
  intros O nm. unfold cnt. rewrite app_length. simpl length.
  induction O as [|x O IH]; intros H; simpl in H; [discriminate|].
  simpl. destruct (bytes_eqb x nm) eqn:EQ.
  - apply bytes_eqb_eq in EQ. subst x.
    replace (Nat.leb (length nm + 2) (length nm)) with false by (symmetry; apply Nat.leb_gt; lia).
    rewrite Nat.leb_refl. simpl. pose proof (filter_len_mono O (length nm) (length nm + 2) ltac:(lia)). lia.
  - simpl in H. specialize (IH H).
    destruct (Nat.leb (length nm + 2) (length x)) eqn:C1; destruct (Nat.leb (length nm) (length x)) eqn:C2; simpl; try lia.
    apply Nat.leb_le in C1. apply Nat.leb_gt in C2. lia.
Qed.

Lemma dedup_name_total : forall fuel l rank,
  (rank < length l)%nat -> (cnt (others l rank) (length (nth rank l [])) < fuel)%nat ->
  exists l', dedup_name fuel l rank = Some l' /\ length l' = length l.
Proof.
  induction fuel as [|f IH]; intros l rank Hr Hc; [lia|]. simpl.
  pose proof (other_equal_others l 0 rank (nth rank l [])) as HO. simpl in HO. rewrite HO.
  destruct (existsb (fun x => bytes_eqb x (nth rank l [])) (others l rank)) eqn:EX.
  - pose proof (cnt_decr _ _ EX) as HD.
    set (l1 := upd_nth l rank (nth rank l [] ++ [46; 49])).
    destruct (IH l1 rank) as [l' [H1 H2]].
    + unfold l1. rewrite upd_nth_length. assumption.
    + unfold l1. rewrite others_upd. rewrite nth_upd_nth_same by assumption. lia.
    + exists l'. split; [assumption|]. unfold l1 in H2. rewrite upd_nth_length in H2. assumption.
  - exists l. split; reflexivity.
Qed.
Lemma cnt_le : forall O k, (cnt O k <= length O)%nat.
Proof. intros. unfold cnt. induction O as [|x O IH]; simpl; [lia|]. destruct (Nat.leb k (length x)); simpl; lia. Qed.
Lemma others_length : forall A (l : list A) r, (r < length l)%nat -> S (length (others l r)) = length l.
Proof.
  intros A l r H. unfold others. rewrite app_length, firstn_length, skipn_length. lia.
Qed.
Lemma set_name_total : forall l rank nm, (rank < length l)%nat ->
  exists l', set_name l rank nm = Some l' /\ length l' = length l.
Proof.
  intros l rank nm H. unfold set_name.
  destruct (dedup_name_total (S (length l)) (upd_nth l rank nm) rank) as [l' [H1 H2]].
  - rewrite upd_nth_length. assumption.
  - pose proof (cnt_le (others (upd_nth l rank nm) rank) (length (nth rank (upd_nth l rank nm) []))).
    pose proof (others_length _ (upd_nth l rank nm) rank ltac:(rewrite upd_nth_length; assumption)).
    rewrite upd_nth_length in *. lia.
  - exists l'. split; [assumption|]. rewrite upd_nth_length in H2. assumption.
Qed.

(* C09 proofs, part 8: from the class readers to X::createFromNF on a whole file. *)
From Coq Require Import List ZArith QArith Bool Lia Arith.
From Gst Require Import C09.Model C09.Readers C09.Spec C09.Proofs_prim C09.Proofs_table C09.Proofs_poly
                        C09.Proofs_loc C09.Proofs_db C09.Proofs_grid.
Import ListNotations.
Local Open Scope Z_scope.

Definition flen (f : list Z) : Z := Z.of_nat (length f).
(* [now_env]: at least the fixes C09_1 .. C09_4, fuel larger than the file length, cap above the bound; [fixed_env] adds
   fixes/C09_5 (fix_rank) and is the code as it is now *)
Definition now_env (E : env) (f : list Z) (bound : Z) : Prop :=
  cfg_ge_now (e_cfg E) /\ (length f < e_fuel E)%nat /\ bound <= e_cap E.
Definition fixed_env (E : env) (f : list Z) (bound : Z) : Prop :=
  now_env E f bound /\ fix_rank (e_cfg E) = true.
(* every outcome but one: std::bad_alloc out of Db::setLocatorByUID (site 16), a locator rank used as a size *)
Definition safe_outcome {A} (o : outcome A) : Prop :=
  match o with Crashed b => is_throw16 b = true | _ => True end.
Definition good_outcome {A} (wf : A -> Prop) (bound : Z) (o : outcome A) : Prop :=
  clean o /\ 0 <= ghost_of o <= bound /\ forall a, loaded o a -> wf a.

Lemma file_open_len : forall tag f m, file_open tag f = Some m -> len m <= flen f /\ galloc m = 0.
Proof.
  intros tag f m H. unfold file_open in H. destruct (getline (open_stream f)) as [w s] eqn:RW.
  destruct (bytes_eqb (trim w) tag && good s); [|discriminate]. inversion H; subst.
  apply getline_slen in RW. unfold len, flen, slen in *. simpl in *. split; [lia|reflexivity].
Qed.
Lemma create_spec : forall A tag (rd : env -> mon -> res (option A)) E f cost (wf : A -> Prop),
  0 <= cost ->
  (forall m, len m <= flen f -> rspec cost wf m (rd E m)) ->
  good_outcome wf cost (create_from_nf tag rd E f).
Proof.
  intros A tag rd E f cost wf Hc H. unfold create_from_nf, good_outcome.
  destruct (file_open tag f) as [m|] eqn:FO.
  - destruct (file_open_len _ _ _ FO) as [HL HG]. specialize (H m HL). unfold rspec in H.
    destruct (rd E m) as [o m'|b]; [|contradiction]. destruct H as [H1 [H2 H3]].
    destruct o as [a|]; simpl; (split; [exact I|split; [lia|]]).
    + intros a' [g Hg]. inversion Hg; subst. assumption.
    + intros a' [g Hg]. discriminate.
  - simpl. split; [exact I|split; [lia|]]. intros a' [g Hg]. discriminate.
Qed.
Lemma create_spec2 : forall A tag (rd : env -> mon -> res (option A)) E f cost (wf : A -> Prop) (rk : bool),
  0 <= cost ->
  (forall m, len m <= flen f ->
     match rd E m with
     | Ret o m' => len m' <= len m /\ galloc m <= galloc m' /\ (rk = true -> galloc m' <= galloc m + cost) /\
                   match o with Some a => rk = true -> wf a | None => True end
     | Bad b => is_throw16 b = true /\ rk = false
     end) ->
  safe_outcome (create_from_nf tag rd E f) /\ (rk = true -> good_outcome wf cost (create_from_nf tag rd E f)).
Proof.
  intros A tag rd E f cost wf rk Hc H. unfold create_from_nf, good_outcome, safe_outcome.
  destruct (file_open tag f) as [m|] eqn:FO.
  - destruct (file_open_len _ _ _ FO) as [HL HG]. specialize (H m HL).
    destruct (rd E m) as [o m'|b].
    + destruct H as [H1 [H2 [H3 H4]]]. destruct o as [a|]; simpl; (split; [exact I|]); intros HR; specialize (H3 HR);
        (split; [exact I|split; [lia|]]); intros a' [g Hg]; [inversion Hg; subst; auto|discriminate].
    + destruct H as [H1 H2]. split; [assumption|]. intros HR. congruence.
  - simpl. split; [exact I|]. intros _. split; [exact I|split; [lia|]]. intros a' [g Hg]. discriminate.
Qed.
Lemma good_outcome_weaken : forall A (wf : A -> Prop) b1 b2 o, b1 <= b2 -> good_outcome wf b1 o -> good_outcome wf b2 o.
Proof. intros A wf b1 b2 o H [H1 [H2 H3]]. split; [assumption|split; [lia|assumption]]. Qed.

Section Loaders.
Variable E : env.
Variable f : list Z.
Hypothesis Hlen : flen f < 2147483648.

Lemma flen_nonneg : 0 <= flen f. Proof. unfold flen. lia. Qed.
Lemma fuel_of : forall b, now_env E f b -> flen f < Z.of_nat (e_fuel E).
Proof. intros b [_ [H _]]. unfold flen. lia. Qed.

(* the readers that do not depend on fix_rank *)
Theorem load_Table_now : now_env E f (alloc_bound (flen f)) -> good_outcome wf_table (alloc_bound (flen f)) (load_Table E f).
Proof.
  intros HE. pose proof flen_nonneg. pose proof (fuel_of _ HE). destruct HE as [H1 [H2 H3]].
  eapply good_outcome_weaken; [|apply create_spec with (cost := 8 * flen f); [lia|]].
  - unfold alloc_bound. lia.
  - intros m Hm. apply (table_fixed E (flen f)); assumption.
Qed.
Theorem load_Polygons_now : now_env E f (alloc_bound (flen f)) -> good_outcome wf_polygons (alloc_bound (flen f)) (load_Polygons E f).
Proof.
  intros HE. pose proof flen_nonneg. pose proof (fuel_of _ HE). destruct HE as [H1 [H2 H3]].
  eapply good_outcome_weaken; [|apply create_spec with (cost := 32 * flen f); [lia|]].
  - unfold alloc_bound. lia.
  - intros m Hm. apply (polygons_fixed E (flen f)); assumption.
Qed.
Theorem load_Faults_now : now_env E f (alloc_bound (flen f)) -> good_outcome wf_faults (alloc_bound (flen f)) (load_Faults E f).
Proof.
  intros HE. pose proof flen_nonneg. pose proof (fuel_of _ HE). destruct HE as [H1 [H2 H3]].
  eapply good_outcome_weaken; [|apply create_spec with (cost := 32 * flen f); [lia|]].
  - unfold alloc_bound. lia.
  - intros m Hm. apply (faults_fixed E (flen f)); assumption.
Qed.
Theorem load_PolyLine2D_now : now_env E f (alloc_bound (flen f)) -> good_outcome wf_polyline (alloc_bound (flen f)) (load_PolyLine2D E f).
Proof.
  intros HE. pose proof flen_nonneg. pose proof (fuel_of _ HE). destruct HE as [H1 [H2 H3]].
  eapply good_outcome_weaken; [|apply create_spec with (cost := 16 * flen f + 16); [lia|]].
  - unfold alloc_bound. lia.
  - intros m Hm. apply (polyline_fixed E (flen f)); assumption.
Qed.
Theorem load_PolyElem_now : now_env E f (alloc_bound (flen f)) -> good_outcome wf_polyelem (alloc_bound (flen f)) (load_PolyElem E f).
Proof.
  intros HE. pose proof flen_nonneg. pose proof (fuel_of _ HE). destruct HE as [H1 [H2 H3]].
  eapply good_outcome_weaken; [|apply create_spec with (cost := 16 * flen f + 16); [lia|]].
  - unfold alloc_bound. lia.
  - intros m Hm. apply (polyelem_fixed E (flen f)); assumption.
Qed.
(* Db and DbGrid: safe now; fully good with fixes/C09_5 *)
Lemma load_Db_both : now_env E f (alloc_bound (flen f)) ->
  safe_outcome (load_Db E f) /\ (fix_rank (e_cfg E) = true -> good_outcome wf_db (alloc_bound (flen f)) (load_Db E f)).
Proof.
  intros HE. pose proof flen_nonneg. pose proof (fuel_of _ HE). destruct HE as [H1 [H2 H3]].
  destruct (create_spec2 db tag_Db (fun E m => db_deserialize E None m) E f (240 * flen f) wf_db (fix_rank (e_cfg E)) ltac:(lia)) as [S G].
  - intros m Hm. pose proof (db_spec E (flen f) H1 ltac:(lia) ltac:(assumption) H3 None m I Hm) as HD.
    unfold dspec in HD. destruct (db_deserialize E None m) as [o m'|b]; [|exact HD].
    destruct HD as [D1 [D2 [D3 D4]]]. split; [assumption|split; [assumption|split; [assumption|]]].
    destruct o; [|exact I]. intros HR. destruct (D4 HR). assumption.
  - split; [exact S|]. intros HR. eapply good_outcome_weaken; [|exact (G HR)]. unfold alloc_bound. lia.
Qed.
Lemma load_DbGrid_both : now_env E f (alloc_bound_grid (flen f)) ->
  safe_outcome (load_DbGrid E f) /\ (fix_rank (e_cfg E) = true -> good_outcome wf_dbgrid (alloc_bound_grid (flen f)) (load_DbGrid E f)).
Proof.
  intros HE. pose proof flen_nonneg. pose proof (fuel_of _ HE). destruct HE as [H1 [H2 H3]].
  destruct (create_spec2 dbgrid tag_DbGrid dbgrid_deserialize E f (16 * flen f * flen f + 300 * flen f) wf_dbgrid (fix_rank (e_cfg E)) ltac:(nia)) as [S G].
  - intros m Hm. pose proof (dbgrid_spec E (flen f) H1 ltac:(lia) ltac:(assumption) H3 m Hm) as HD.
    unfold gspec in HD. exact HD.
  - split; [exact S|]. intros HR. eapply good_outcome_weaken; [|exact (G HR)]. unfold alloc_bound_grid. nia.
Qed.
Theorem load_Db_now : now_env E f (alloc_bound (flen f)) -> safe_outcome (load_Db E f).
Proof. intros H. apply load_Db_both. assumption. Qed.
Theorem load_DbGrid_now : now_env E f (alloc_bound_grid (flen f)) -> safe_outcome (load_DbGrid E f).
Proof. intros H. apply load_DbGrid_both. assumption. Qed.
Theorem load_Db_fixed : fixed_env E f (alloc_bound (flen f)) -> good_outcome wf_db (alloc_bound (flen f)) (load_Db E f).
Proof. intros [H HR]. apply load_Db_both; assumption. Qed.
Theorem load_DbGrid_fixed : fixed_env E f (alloc_bound_grid (flen f)) -> good_outcome wf_dbgrid (alloc_bound_grid (flen f)) (load_DbGrid E f).
Proof. intros [H HR]. apply load_DbGrid_both; assumption. Qed.
End Loaders.

(* C13 proofs, part 3: conditioning by kriging of the simulated error. *)
From Coq Require Import List ZArith QArith Lqa Lia Bool.
From Gst Require Import lib.QAux C13.Model.
Import ListNotations.
Local Open Scope Z_scope.

(* ---------------------------------------------------------------- rank indexing *)
Lemma sim_rank_inj nbsimu nvar i v c i' v' c' :
  0 <= i < nbsimu -> 0 <= i' < nbsimu -> 0 <= v < nvar -> 0 <= v' < nvar ->
  sim_rank i v c nbsimu nvar = sim_rank i' v' c' nbsimu nvar -> i = i' /\ v = v' /\ c = c'.
Proof.
  unfold sim_rank. intros Hi Hi' Hv Hv' E.
  assert (E1 : nbsimu * (v + nvar * c) + i = nbsimu * (v' + nvar * c') + i') by lia.
  apply Z.div_mod_unique in E1; [|left; lia|left; lia]. destruct E1 as [E2 E3].
  assert (E4 : nvar * c + v = nvar * c' + v') by lia.
  apply Z.div_mod_unique in E4; [|left; lia|left; lia]. lia.
Qed.

Lemma sim_rank_nonneg nbsimu nvar i v c : 0 <= i -> 0 <= v -> 0 <= c -> 0 <= nbsimu -> 0 <= nvar ->
  0 <= sim_rank i v c nbsimu nvar.
Proof. unfold sim_rank. intros. nia. Qed.

Lemma sim_rank_bound nbsimu nvar i v c : 0 <= i < nbsimu -> 0 <= v < nvar -> 0 <= c ->
  sim_rank i v c nbsimu nvar < nbsimu * nvar * (c + 1).
Proof. unfold sim_rank. intros. nia. Qed.

(* ---------------------------------------------------------------- rows *)
Lemma set_nth_length {A} n (v : A) l : length (set_nth n v l) = length l.
Proof. revert n. induction l; intros [|n]; simpl; try reflexivity. f_equal. apply IHl. Qed.
Lemma nth_set_nth_same {A} n (v d : A) l : (n < length l)%nat -> nth n (set_nth n v l) d = v.
Proof. revert n. induction l; intros [|n] H; simpl in *; try lia; [reflexivity| apply IHl; lia]. Qed.
Lemma nth_set_nth_other {A} n m (v d : A) l : n <> m -> nth m (set_nth n v l) d = nth m l d.
Proof. revert n m. induction l; intros [|n] [|m] H; simpl; try reflexivity; try lia. apply IHl. lia. Qed.

Lemma set_item_length t i v : length (set_item t i v) = length t.
Proof. unfold set_item. destruct (i <? 0); [reflexivity| apply set_nth_length]. Qed.
Lemma get_set_same t i v : 0 <= i < Z.of_nat (length t) -> get_item (set_item t i v) i = v.
Proof.
  intro H. unfold get_item, set_item. destruct (i <? 0) eqn:E; [apply Z.ltb_lt in E; lia|].
  apply nth_set_nth_same. lia.
Qed.
Lemma get_set_other t i j v : i <> j -> get_item (set_item t i v) j = get_item t j.
Proof.
  intro H. unfold get_item, set_item. destruct (j <? 0) eqn:Ej; [reflexivity|].
  destruct (i <? 0) eqn:Ei; [reflexivity|].
  apply Z.ltb_ge in Ej, Ei. apply nth_set_nth_other. intro E. apply H. lia.
Qed.

Section PW.
Context {P : Type} (item : P -> Z) (g : P -> option Q -> option Q).
Lemma pw_update_length ps : forall t, length (pw_update item g ps t) = length t.
Proof. induction ps; intro t; simpl; [reflexivity|]. unfold pw_update in *. simpl. rewrite IHps. apply set_item_length. Qed.
Lemma pw_update_other ps : forall t i, ~ In i (map item ps) -> get_item (pw_update item g ps t) i = get_item t i.
Proof.
  induction ps as [|p r IH]; intros t i H; [reflexivity|].
  unfold pw_update in *. simpl. rewrite IH; [|intro; apply H; right; assumption].
  apply get_set_other. intro E. apply H. left. exact E.
Qed.
Lemma pw_update_get ps : forall t, NoDup (map item ps) ->
  (forall p, In p ps -> 0 <= item p < Z.of_nat (length t)) ->
  forall p, In p ps -> get_item (pw_update item g ps t) (item p) = g p (get_item t (item p)).
Proof.
  induction ps as [|q r IH]; intros t ND Hr p Hin; [contradiction|].
  inversion ND as [|? ? Hq ND']; subst.
  change (pw_update item g (q :: r) t) with (pw_update item g r (set_item t (item q) (g q (get_item t (item q))))).
  destruct Hin as [->|Hin].
  - rewrite pw_update_other by exact Hq. apply get_set_same. apply Hr. left; reflexivity.
  - rewrite IH; [| exact ND' | intros p' Hp'; rewrite set_item_length; apply Hr; right; exact Hp' | exact Hin].
    f_equal. apply get_set_other. intro E. apply Hq. rewrite E. apply in_map. exact Hin.
Qed.
End PW.

Lemma In_zrange x n : In x (zrange n) <-> 0 <= x < n.
Proof.
  unfold zrange. rewrite in_map_iff. split.
  - intros [k [<- Hk]]. apply in_seq in Hk. lia.
  - intro H. exists (Z.to_nat x). split; [lia| apply in_seq; lia].
Qed.
Lemma NoDup_map_on {A B} (f : A -> B) l :
  (forall x y, In x l -> In y l -> f x = f y -> x = y) -> NoDup l -> NoDup (map f l).
Proof.
  induction l as [|a r IH]; intros Hinj ND; [constructor|].
  inversion ND as [|? ? Ha ND']; subst. simpl. constructor.
  - intro H. apply in_map_iff in H. destruct H as [y [E Hy]].
    apply Hinj in E; [subst; contradiction| right; exact Hy| left; reflexivity].
  - apply IH; [|exact ND']. intros x y Hx Hy. apply Hinj; right; assumption.
Qed.

Lemma NoDup_zrange n : NoDup (zrange n).
Proof.
  unfold zrange. apply NoDup_map_on; [intros a b _ _; apply Nat2Z.inj| apply seq_NoDup].
Qed.
Lemma In_sim_pairs nbsimu nvar p : 0 < nvar -> 0 <= nbsimu ->
  (In p (sim_pairs nbsimu nvar) <-> 0 <= fst p < nbsimu /\ 0 <= snd p < nvar).
Proof.
  intros Hv Hs. unfold sim_pairs. rewrite in_map_iff. split.
  - intros [e [<- He]]. apply In_zrange in He. simpl.
    pose proof (Z.mod_pos_bound e nvar Hv). split; [|lia].
    split; [apply Z.div_pos; lia|]. apply Z.div_lt_upper_bound; lia.
  - intros [H1 H2]. exists (snd p + nvar * fst p). split.
    + destruct p as [i v]. simpl in *. f_equal.
      * rewrite Z.mul_comm, Z.div_add by lia. rewrite Z.div_small by lia. lia.
      * rewrite Z.mul_comm, Z.mod_add by lia. apply Z.mod_small. lia.
    + apply In_zrange. nia.
Qed.

Lemma NoDup_sim_items nbsimu nvar icase : 0 < nvar -> 0 <= nbsimu ->
  NoDup (map (fun p => sim_rank (fst p) (snd p) icase nbsimu nvar) (sim_pairs nbsimu nvar)).
Proof.
  intros Hv Hs. apply NoDup_map_on.
  - intros x y Hx Hy E. apply In_sim_pairs in Hx, Hy; try assumption.
    apply sim_rank_inj in E; try tauto. destruct x, y; simpl in *. f_equal; tauto.
  - unfold sim_pairs. apply NoDup_map_on; [|apply NoDup_zrange].
    intros x y Hx Hy E. apply In_zrange in Hx, Hy. injection E as E1 E2.
    rewrite (Z.div_mod x nvar), (Z.div_mod y nvar) by lia. rewrite E1, E2. reflexivity.
Qed.

(* ---------------------------------------------------------------- the kriged correction *)
Local Open Scope Q_scope.

(* sum over lec of wgt[lec][ivar] * diff[lec] *)
Fixpoint dotw (ivar : nat) (w : list (list Q)) (ds : list Q) {struct ds} : Q :=
  match ds, w with
  | d :: ds', wl :: w' => nth ivar wl 0 * d + dotw ivar w' ds'
  | _, _ => 0
  end.

Lemma sc_scan_defined ivar item : forall nb ds w simu,
  map (fun r => get_item r item) nb = map Some ds -> (length ds <= length w)%nat ->
  exists s, sc_scan nb item ivar w simu = Some (s, skipn (length ds) w) /\ s == simu - dotw ivar w ds.
Proof.
  induction nb as [|r nb IH]; intros ds w simu E L.
  - destruct ds; [|discriminate]. simpl. exists simu. split; [reflexivity| simpl; ring].
  - destruct ds as [|d ds]; [discriminate|]. simpl in E. injection E as E1 E2.
    simpl. rewrite E1. destruct w as [|wl w]; [simpl in L; lia|].
    destruct (IH ds w (simu - nth ivar wl 0 * d) E2) as [s [H1 H2]]; [simpl in L; lia|].
    exists s. split; [exact H1|]. rewrite H2. simpl. ring.
Qed.

Lemma dotw_app ivar : forall ds1 ds2 w, (length ds1 <= length w)%nat ->
  dotw ivar w (ds1 ++ ds2) == dotw ivar w ds1 + dotw ivar (skipn (length ds1) w) ds2.
Proof.
  induction ds1 as [|d ds1 IH]; intros ds2 w L; simpl.
  - ring.
  - destruct w as [|wl w]; [simpl in L; lia|]. rewrite IH by (simpl in L; lia). ring.
Qed.

Lemma sc_vars_defined nb isimu icase nbsimu nvar ivar (df : Z -> list Q) : forall jvars w simu,
  (forall jv, In jv jvars ->
     map (fun r => get_item r (sim_rank isimu jv icase nbsimu nvar)) nb = map Some (df jv) /\
     length (df jv) = length nb) ->
  (length jvars * length nb <= length w)%nat ->
  exists s, sc_vars jvars nb isimu icase nbsimu nvar ivar w simu = Some s /\
            s == simu - dotw ivar w (flat_map df jvars).
Proof.
  induction jvars as [|jv rest IH]; intros w simu H L.
  - simpl. exists simu. split; [reflexivity| ring].
  - destruct (H jv (or_introl eq_refl)) as [E Hl].
    destruct (sc_scan_defined ivar _ nb (df jv) w simu E) as [s1 [S1 S2]]; [simpl in L; lia|].
    simpl. rewrite S1.
    destruct (IH (skipn (length (df jv)) w) s1) as [s [T1 T2]].
    + intros jv' Hin. apply H. right. exact Hin.
    + rewrite skipn_length. simpl in L. lia.
    + exists s. split; [exact T1|]. rewrite T2, S2. rewrite dotw_app by (simpl in L; lia). ring.
Qed.

(* unit weights select one difference *)
Lemma dotw_unit ivar : forall ds w k,
  (k < length ds)%nat -> (length ds <= length w)%nat ->
  (forall lec, (lec < length w)%nat -> nth ivar (nth lec w []) 0 == if Nat.eqb lec k then 1 else 0) ->
  dotw ivar w ds == nth k ds 0.
Proof.
  induction ds as [|d ds IH]; intros w k Hk L H; [simpl in Hk; lia|].
  destruct w as [|wl w]; [simpl in L; lia|]. simpl dotw.
  destruct k as [|k].
  - rewrite (H O) by (simpl; lia). simpl.
    assert (Z0 : forall ds' w', (forall lec, (lec < length w')%nat -> nth ivar (nth lec w' []) 0 == 0) ->
                 dotw ivar w' ds' == 0).
    { induction ds' as [|d' ds' IH']; intros w' Hw; [reflexivity|].
      destruct w' as [|wl' w']; [reflexivity|]. simpl.
      rewrite (Hw O) by (simpl; lia). simpl. rewrite IH'; [ring|].
      intros lec Hl. apply (Hw (S lec)). simpl; lia. }
    rewrite Z0; [ring|]. intros lec Hl. apply (H (S lec)). simpl; lia.
  - rewrite (H O) by (simpl; lia). simpl.
    rewrite (IH w k); [ring| simpl in Hk; lia| simpl in L; lia|].
    intros lec Hl. apply (H (S lec)). simpl; lia.
Qed.

Lemma nth_flat_map_blocks {A} (f : Z -> list A) (n : nat) d : forall l a k,
  (forall x, In x l -> length (f x) = n) -> (a < length l)%nat -> (k < n)%nat ->
  nth (a * n + k) (flat_map f l) d = nth k (f (nth a l 0%Z)) d.
Proof.
  induction l as [|x l IH]; intros a k Hlen Ha Hk; [simpl in Ha; lia|].
  simpl flat_map. destruct a as [|a].
  - simpl. apply app_nth1. rewrite (Hlen x (or_introl eq_refl)). exact Hk.
  - rewrite app_nth2 by (rewrite (Hlen x (or_introl eq_refl)); lia).
    rewrite (Hlen x (or_introl eq_refl)).
    replace (S a * n + k - n)%nat with (a * n + k)%nat by lia.
    simpl nth. apply IH; [intros y Hy; apply Hlen; right; exact Hy| simpl in Ha; lia| exact Hk].
Qed.

Lemma all_some_map {A B} (f : A -> option B) (h : A -> B) l :
  (forall x, In x l -> f x = Some (h x)) -> all_some (map f l) = Some (map h l).
Proof.
  induction l as [|a r IH]; intro H; [reflexivity|].
  simpl. rewrite (H a (or_introl eq_refl)). rewrite IH; [reflexivity|].
  intros x Hx. apply H. right. exact Hx.
Qed.

Lemma map_fst_combine_eq {A B} : forall (l : list A) (l' : list B), length l = length l' -> map fst (combine l l') = l.
Proof.
  induction l as [|a l IH]; intros [|b l'] H; simpl in *; try reflexivity; try discriminate.
  f_equal. apply IH. lia.
Qed.

Lemma nth_zrange k n : (k < Z.to_nat n)%nat -> nth k (zrange n) 0%Z = Z.of_nat k.
Proof.
  intro H. unfold zrange. rewrite (nth_indep _ 0%Z (Z.of_nat 0)) by (rewrite map_length, seq_length; exact H).
  rewrite map_nth, seq_nth by exact H. reflexivity.
Qed.

Lemma zrange_length n : length (zrange n) = Z.to_nat n.
Proof. unfold zrange. rewrite map_length, seq_length. reflexivity. Qed.

(* The conditioning step is exact where the kriging is:
   all simulated errors defined, weights of variable ivar equal to the unit vector on (ivar, datum k),
   same non conditional value at the target and at datum k  ==>  the conditional value is the datum. *)
Lemma cond_exact nbsimu nvar icase (nb : list row) (wgt : list (list Q)) (target : row)
      (df : Z -> Z -> list Q) (* df isimu jvar = simulated errors of all data *)
      (k : nat) (isimu ivar : Z) (zk snc : Q) :
  (0 <= isimu < nbsimu)%Z -> (0 <= ivar < nvar)%Z -> (0 <= icase)%Z ->
  (forall i jv, (0 <= i < nbsimu)%Z -> (0 <= jv < nvar)%Z ->
     map (fun r => get_item r (sim_rank i jv icase nbsimu nvar)) nb = map Some (df i jv) /\
     length (df i jv) = length nb) ->
  (Z.to_nat nvar * length nb <= length wgt)%nat ->
  (k < length nb)%nat ->
  (forall lec, (lec < length wgt)%nat ->
     nth (Z.to_nat ivar) (nth lec wgt []) 0 == if Nat.eqb lec (Z.to_nat ivar * length nb + k) then 1 else 0) ->
  nth k (df isimu ivar) 0 == snc - zk ->
  get_item target (sim_rank isimu ivar icase nbsimu nvar) = Some snc ->
  (nbsimu * nvar * (icase + 1) <= Z.of_nat (length target))%Z ->
  exists t' v, simulate_calcul nbsimu nvar icase nb wgt target = Some t' /\
               get_item t' (sim_rank isimu ivar icase nbsimu nvar) = Some v /\ v == zk.
Proof.
  intros Hi Hv Hc Hdef Hw Hk Hunit Hd Ht Hlen.
  assert (Hnv : (0 < nvar)%Z) by lia. assert (Hns : (0 <= nbsimu)%Z) by lia.
  (* every correction is defined *)
  assert (KE : forall p, In p (sim_pairs nbsimu nvar) -> exists s,
             krig_error nbsimu nvar icase nb wgt p = Some s /\
             s == 0 - dotw (Z.to_nat (snd p)) wgt (flat_map (df (fst p)) (zrange nvar))).
  { intros p Hp. apply In_sim_pairs in Hp; try assumption. destruct Hp as [P1 P2].
    unfold krig_error. apply sc_vars_defined.
    - intros jv Hjv. apply In_zrange in Hjv. apply Hdef; assumption.
    - rewrite zrange_length. exact Hw. }
  set (h := fun p => 0 - dotw (Z.to_nat (snd p)) wgt (flat_map (df (fst p)) (zrange nvar))).
  (* pick the value computed for each pair *)
  assert (KE' : exists simus, all_some (map (krig_error nbsimu nvar icase nb wgt) (sim_pairs nbsimu nvar)) = Some simus /\
                length simus = length (sim_pairs nbsimu nvar) /\
                forall p s, In (p, s) (combine (sim_pairs nbsimu nvar) simus) -> s == h p).
  { clear - KE. induction (sim_pairs nbsimu nvar) as [|p r IH].
    - exists []. repeat split. intros p s [].
    - destruct (KE p (or_introl eq_refl)) as [s [S1 S2]].
      destruct IH as [ss [A1 [A2 A3]]]; [intros q Hq; apply KE; right; exact Hq|].
      exists (s :: ss). simpl. rewrite S1, A1. repeat split; [simpl; congruence|].
      intros q t [E|Hin]; [injection E as <- <-; exact S2| apply A3; exact Hin]. }
  destruct KE' as [simus [A1 [A2 A3]]].
  unfold simulate_calcul. rewrite A1.
  set (item := fun ps : Z * Z * Q => sim_rank (fst (fst ps)) (snd (fst ps)) icase nbsimu nvar).
  set (g := fun (ps : Z * Z * Q) old => op_add old (Some (snd ps))).
  assert (Hin : In (isimu, ivar) (sim_pairs nbsimu nvar)) by (apply In_sim_pairs; simpl; try assumption; tauto).
  destruct (In_nth _ _ (0%Z, 0%Z) Hin) as [n [Hn1 Hn2]].
  set (s := nth n simus 0).
  assert (Hps : In ((isimu, ivar), s) (combine (sim_pairs nbsimu nvar) simus)).
  { rewrite <- Hn2. unfold s. rewrite <- combine_nth by (symmetry; exact A2).
    apply nth_In. rewrite combine_length, A2, Nat.min_id. exact Hn1. }
  eexists. exists (s + snc). split; [reflexivity|]. split.
  - change (sim_rank isimu ivar icase nbsimu nvar) with (item ((isimu, ivar), s)).
    rewrite (pw_update_get item g); [| | |exact Hps].
    + unfold g, item. simpl. rewrite Ht. reflexivity.
    + unfold item. replace (map _ (combine (sim_pairs nbsimu nvar) simus))
        with (map (fun p => sim_rank (fst p) (snd p) icase nbsimu nvar) (sim_pairs nbsimu nvar)).
      * apply NoDup_sim_items; assumption.
      * rewrite <- (map_map fst (fun p => sim_rank (fst p) (snd p) icase nbsimu nvar)).
        rewrite map_fst_combine_eq by (symmetry; exact A2). reflexivity.
    + intros [q t] Hq. apply in_combine_l in Hq. apply In_sim_pairs in Hq; try assumption.
      unfold item. simpl. split.
      * apply sim_rank_nonneg; lia.
      * pose proof (sim_rank_bound nbsimu nvar (fst q) (snd q) icase ltac:(tauto) ltac:(tauto) Hc). lia.
  - rewrite (A3 _ _ Hps). unfold h. simpl fst; simpl snd.
    rewrite (dotw_unit (Z.to_nat ivar) _ wgt (Z.to_nat ivar * length nb + k)).
    + rewrite (nth_flat_map_blocks (df isimu) (length nb) 0 (zrange nvar) (Z.to_nat ivar) k).
      * rewrite nth_zrange by lia. rewrite Z2Nat.id by lia. rewrite Hd. ring.
      * intros x Hx. apply In_zrange in Hx. apply Hdef; assumption.
      * rewrite zrange_length. lia.
      * exact Hk.
    + assert (L : length (flat_map (df isimu) (zrange nvar)) = (Z.to_nat nvar * length nb)%nat).
      { assert (G : forall l, (forall x, In x l -> length (df isimu x) = length nb) ->
                 length (flat_map (df isimu) l) = (length l * length nb)%nat).
        { induction l as [|x l IH]; intro Hl; [reflexivity|]. simpl. rewrite app_length, IH, (Hl x); [reflexivity|left; reflexivity|].
          intros y Hy. apply Hl. right. exact Hy. }
        rewrite G, zrange_length; [reflexivity|]. intros x Hx. apply In_zrange in Hx. apply Hdef; assumption. }
      rewrite L. assert (Z.to_nat ivar < Z.to_nat nvar)%nat by lia. nia.
    + assert (L : length (flat_map (df isimu) (zrange nvar)) = (Z.to_nat nvar * length nb)%nat).
      { assert (G : forall l, (forall x, In x l -> length (df isimu x) = length nb) ->
                 length (flat_map (df isimu) l) = (length l * length nb)%nat).
        { induction l as [|x l IH]; intro Hl; [reflexivity|]. simpl. rewrite app_length, IH, (Hl x); [reflexivity|left; reflexivity|].
          intros y Hy. apply Hl. right. exact Hy. }
        rewrite G, zrange_length; [reflexivity|]. intros x Hx. apply In_zrange in Hx. apply Hdef; assumption. }
      rewrite L. exact Hw.
    + exact Hunit.
Qed.

(* _difference: what is stored at the data is (simulation - datum), per simulation and variable *)
Lemma In_var_pairs nbsimu nvar p : (0 < nbsimu)%Z -> (0 <= nvar)%Z ->
  (In p (var_pairs nbsimu nvar) <-> 0 <= fst p < nbsimu /\ 0 <= snd p < nvar)%Z.
Proof.
  intros Hs Hv. unfold var_pairs. rewrite in_map_iff. split.
  - intros [e [<- He]]. apply In_zrange in He. simpl.
    pose proof (Z.mod_pos_bound e nbsimu Hs). split; [lia|].
    split; [apply Z.div_pos; lia|]. apply Z.div_lt_upper_bound; lia.
  - intros [H1 H2]. exists (fst p + nbsimu * snd p)%Z. split.
    + destruct p as [i v]. simpl in *. f_equal.
      * rewrite Z.mul_comm, Z.mod_add by lia. apply Z.mod_small. lia.
      * rewrite Z.mul_comm, Z.div_add by lia. rewrite Z.div_small by lia. lia.
    + apply In_zrange. nia.
Qed.

Lemma difference_exact nbsimu nvar icase z (r : row) isimu ivar sv zv :
  (0 <= isimu < nbsimu)%Z -> (0 <= ivar < nvar)%Z -> (0 <= icase)%Z ->
  (nbsimu * nvar * (icase + 1) <= Z.of_nat (length r))%Z ->
  get_item r (sim_rank isimu ivar icase nbsimu nvar) = Some sv ->
  nth (Z.to_nat ivar) z None = Some zv ->
  get_item (difference_row nbsimu nvar icase z r) (sim_rank isimu ivar icase nbsimu nvar) = Some (sv - zv).
Proof.
  intros Hi Hv Hc Hlen Hs Hz. unfold difference_row.
  set (item := fun p : Z * Z => sim_rank (fst p) (snd p) icase nbsimu nvar).
  change (sim_rank isimu ivar icase nbsimu nvar) with (item (isimu, ivar)).
  rewrite pw_update_get.
  - simpl. unfold item. simpl. rewrite Hz, Hs. reflexivity.
  - apply NoDup_map_on.
    + intros x y Hx Hy E. apply In_var_pairs in Hx, Hy; try lia.
      unfold item in E. apply sim_rank_inj in E; try tauto. destruct x, y; simpl in *. f_equal; tauto.
    + unfold var_pairs. apply NoDup_map_on; [|apply NoDup_zrange].
      intros x y Hx Hy E. apply In_zrange in Hx, Hy. injection E as E1 E2.
      rewrite (Z.div_mod x nbsimu), (Z.div_mod y nbsimu) by lia. rewrite E1, E2. reflexivity.
  - intros p Hp. apply In_var_pairs in Hp; try lia. unfold item. split.
    + apply sim_rank_nonneg; lia.
    + pose proof (sim_rank_bound nbsimu nvar (fst p) (snd p) icase ltac:(tauto) ltac:(tauto) Hc). lia.
  - apply In_var_pairs; simpl; try lia.
Qed.

(* ---------------------------------------------------------------- absolute rank vs rank among active samples *)
Section MASK.
Context {A : Type} (active : A -> bool).

Lemma filter_len_le (l : list A) : (length (filter active l) <= length l)%nat.
Proof. induction l as [|a l IH]; simpl; [lia|]. destruct (active a); simpl; lia. Qed.
Lemma rank_active_le i l : (rank_active active i l <= i)%nat.
Proof.
  unfold rank_active. etransitivity; [apply filter_len_le|]. apply firstn_le_length.
Qed.

(* index map: the active sample of absolute rank i sits at position rank_active i in the compressed vector *)
Lemma nth_rank_active d : forall l i, (i < length l)%nat -> active (nth i l d) = true ->
  nth (rank_active active i l) (filter active l) d = nth i l d.
Proof.
  induction l as [|a l IH]; intros i Hi Ha; [simpl in Hi; lia|].
  destruct i as [|i].
  - unfold rank_active. simpl in *. rewrite Ha. reflexivity.
  - unfold rank_active in *. simpl firstn. simpl filter. simpl in Ha, Hi.
    destruct (active a); simpl; apply IH; try lia; exact Ha.
Qed.

Lemma rank_active_lt d : forall l i, (i < length l)%nat -> active (nth i l d) = true ->
  (rank_active active i l < length (filter active l))%nat.
Proof.
  induction l as [|a l IH]; intros i Hi Ha; [simpl in Hi; lia|].
  destruct i as [|i].
  - unfold rank_active. simpl in *. rewrite Ha. simpl. lia.
  - unfold rank_active in *. simpl firstn. simpl filter. simpl in Ha, Hi.
    specialize (IH i ltac:(lia) Ha). destruct (active a); simpl; lia.
Qed.

(* both numberings agree exactly when no sample before i is masked *)
Lemma rank_active_id l i : (i <= length l)%nat ->
  (rank_active active i l = i <-> forallb active (firstn i l) = true).
Proof.
  revert i. induction l as [|a l IH]; intros i Hi.
  - assert (i = 0)%nat by (simpl in Hi; lia). subst. unfold rank_active. simpl. tauto.
  - destruct i as [|i]; [unfold rank_active; simpl; tauto|].
    unfold rank_active in *. simpl firstn. simpl filter. simpl forallb. simpl in Hi.
    destruct (active a) eqn:Ea; simpl.
    + rewrite <- (IH i) by lia. split; intro H; lia.
    + split; [|discriminate]. intro H.
      pose proof (rank_active_le i l) as L. unfold rank_active in L. lia.
Qed.

End MASK.

(* ---------------------------------------------------------------- _updateData2ToTarget (point output) *)
Lemma find_close_spec eps2 c : forall data ip k,
  find_close eps2 c data ip = Some k <->
  (ip <= k < ip + length data)%nat /\ is_close eps2 c (nth (k - ip) data no_datum) = true /\
  (forall j, (j < k - ip)%nat -> is_close eps2 c (nth j data no_datum) = false).
Proof.
  induction data as [|d r IH]; intros ip k; simpl.
  - split; [discriminate| intros [H _]; lia].
  - destruct (is_close eps2 c d) eqn:E.
    + split.
      * intro H. injection H as <-. rewrite Nat.sub_diag.
        split; [lia|]. split; [exact E|]. intros j Hj; lia.
      * intros (H1 & H2 & H3). destruct (Nat.eq_dec k ip) as [->|N]; [reflexivity|].
        specialize (H3 O ltac:(lia)). simpl in H3. congruence.
    + rewrite IH. split.
      * intros (H1 & H2 & H3). replace (k - ip)%nat with (S (k - S ip)) by lia.
        split; [lia|]. split; [exact H2|]. intros [|j] Hj; [exact E| apply H3; lia].
      * intros (H1 & H2 & H3). assert (k <> ip).
        { intro; subst. rewrite Nat.sub_diag in H2. congruence. }
        replace (k - ip)%nat with (S (k - S ip)) in H2, H3 by lia.
        split; [lia|]. split; [exact H2|]. intros j Hj. apply (H3 (S j)). lia.
Qed.

(* searching the vectors compressed by the selection yields the rank AMONG ACTIVE samples of the datum
   found by the search over absolute ranks: using it as an absolute rank is wrong as soon as a sample
   located before it is masked (rank_active_id) *)
Lemma find_close_compressed eps2 c : forall data ip0 ip,
  find_close eps2 c (filter d_active data) ip0 =
  match find_close eps2 c data ip with
  | Some k => Some (ip0 + rank_active d_active (k - ip) data)%nat
  | None => None
  end.
Proof.
  induction data as [|d r IH]; intros ip0 ip; [reflexivity|].
  simpl filter. destruct (d_active d) eqn:Ea.
  - cbn [find_close]. destruct (is_close eps2 c d) eqn:E.
    + rewrite Nat.sub_diag. unfold rank_active. simpl. f_equal. lia.
    + rewrite (IH (S ip0) (S ip)). destruct (find_close eps2 c r (S ip)) as [k|] eqn:Ek; [|reflexivity].
      apply find_close_spec in Ek. destruct Ek as (H1 & _).
      replace (k - ip)%nat with (S (k - S ip)) by lia. unfold rank_active. simpl. rewrite Ea. simpl. f_equal. lia.
  - cbn [find_close]. assert (E : is_close eps2 c d = false) by (unfold is_close; rewrite Ea; reflexivity).
    rewrite E. rewrite (IH ip0 (S ip)). destruct (find_close eps2 c r (S ip)) as [k|] eqn:Ek; [|reflexivity].
    apply find_close_spec in Ek. destruct Ek as (H1 & _).
    replace (k - ip)%nat with (S (k - S ip)) by lia. unfold rank_active. simpl. rewrite Ea. reflexivity.
Qed.

Lemma find_close_compressed0 eps2 c data :
  find_close eps2 c (filter d_active data) 0 =
  match find_close eps2 c data 0 with
  | Some k => Some (rank_active d_active k data)
  | None => None
  end.
Proof.
  rewrite (find_close_compressed eps2 c data 0 0).
  destruct (find_close eps2 c data 0); [rewrite Nat.sub_0_r|]; reflexivity.
Qed.
Lemma find_close_spec0 eps2 c data k :
  find_close eps2 c data 0 = Some k <->
  (0 <= k < 0 + length data)%nat /\ is_close eps2 c (nth (k - 0) data no_datum) = true /\
  (forall j, (j < k - 0)%nat -> is_close eps2 c (nth j data no_datum) = false).
Proof. exact (find_close_spec eps2 c data 0 k). Qed.

(* the copy honours the first active datum within eps - whatever the masks - with its own value *)
Lemma copy_exact nbsimu nvar icase eps2 data c (r : row) k isimu ivar v :
  (0 <= isimu < nbsimu)%Z -> (0 <= ivar < nvar)%Z -> (0 <= icase)%Z ->
  (nbsimu * nvar * (icase + 1) <= Z.of_nat (length r))%Z ->
  find_close eps2 c data 0 = Some k ->
  nth (Z.to_nat ivar) (d_z (nth k data no_datum)) None = Some v ->
  get_item (update_point_target nbsimu nvar icase eps2 data true c r) (sim_rank isimu ivar icase nbsimu nvar) = Some v.
Proof.
  intros Hi Hv Hc Hlen Hf Hz. unfold update_point_target. simpl negb. cbn iota. rewrite Hf.
  set (item := fun p : Z * Z => sim_rank (fst p) (snd p) icase nbsimu nvar).
  change (sim_rank isimu ivar icase nbsimu nvar) with (item (isimu, ivar)).
  rewrite pw_update_get.
  - simpl. rewrite Hz. reflexivity.
  - apply NoDup_sim_items; lia.
  - intros p Hp. apply In_sim_pairs in Hp; try lia. unfold item. split.
    + apply sim_rank_nonneg; lia.
    + pose proof (sim_rank_bound nbsimu nvar (fst p) (snd p) icase ltac:(tauto) ltac:(tauto) Hc). lia.
  - apply In_sim_pairs; simpl; lia.
Qed.

(* a masked target is left untouched, a target with no active datum within eps as well *)
Lemma copy_untouched nbsimu nvar icase eps2 data t_active c (r : row) :
  t_active = false \/ find_close eps2 c data 0 = None ->
  update_point_target nbsimu nvar icase eps2 data t_active c r = r.
Proof.
  intros [->|H]; unfold update_point_target; [reflexivity|]. destruct t_active; [rewrite H|]; reflexivity.
Qed.

Lemma map_eq_nth {A B} (f : A -> option B) d d' : forall l l' k,
  map f l = map Some l' -> (k < length l)%nat -> f (nth k l d) = Some (nth k l' d').
Proof.
  induction l as [|a l IH]; intros [|b l'] k E Hk; simpl in *; try lia; try discriminate.
  injection E as E1 E2. destruct k as [|k]; [exact E1| apply IH; [exact E2| lia]].
Qed.

(* C13_cond_exact for arbitrary masks: the neighbourhood is made of the ACTIVE samples; the datum is
   designated by its ABSOLUTE rank i; its weight sits at the rank of i among the active samples *)
Lemma cond_exact_masked nbsimu nvar icase (act : list bool) (rows : list row) (wgt : list (list Q)) (target : row)
      (df : Z -> Z -> list Q) (i : nat) (isimu ivar : Z) (zk snc : Q) :
  let all := combine act rows in
  let nb := map snd (filter fst all) in
  let k := rank_active fst i all in
  length act = length rows -> (i < length rows)%nat -> nth i act false = true ->
  (0 <= isimu < nbsimu)%Z -> (0 <= ivar < nvar)%Z -> (0 <= icase)%Z ->
  (forall s jv, (0 <= s < nbsimu)%Z -> (0 <= jv < nvar)%Z ->
     map (fun r => get_item r (sim_rank s jv icase nbsimu nvar)) nb = map Some (df s jv) /\
     length (df s jv) = length nb) ->
  (Z.to_nat nvar * length nb <= length wgt)%nat ->
  (forall lec, (lec < length wgt)%nat ->
     nth (Z.to_nat ivar) (nth lec wgt []) 0 == if Nat.eqb lec (Z.to_nat ivar * length nb + k) then 1 else 0) ->
  get_item (nth i rows []) (sim_rank isimu ivar icase nbsimu nvar) = Some (snc - zk) ->
  get_item target (sim_rank isimu ivar icase nbsimu nvar) = Some snc ->
  (nbsimu * nvar * (icase + 1) <= Z.of_nat (length target))%Z ->
  exists t' v, simulate_calcul nbsimu nvar icase nb wgt target = Some t' /\
               get_item t' (sim_rank isimu ivar icase nbsimu nvar) = Some v /\ v == zk.
Proof.
  intros all nb k Hl Hi Ha Hs Hv Hc Hdef Hw Hunit Hd Ht Hlen.
  assert (Hil : (i < length all)%nat) by (unfold all; rewrite combine_length, Hl, Nat.min_id; exact Hi).
  assert (Hnth : nth i all (false, []) = (true, nth i rows [])).
  { unfold all. rewrite combine_nth by exact Hl. rewrite Ha. reflexivity. }
  assert (Hk : nth k (filter fst all) (false, []) = (true, nth i rows [])).
  { unfold k. rewrite nth_rank_active; [exact Hnth| exact Hil| exact (f_equal fst Hnth)]. }
  assert (Hkl : (k < length nb)%nat).
  { unfold nb. rewrite map_length. unfold k. apply (rank_active_lt fst (false, [])); [exact Hil| exact (f_equal fst Hnth)]. }
  assert (Hrow : nth k nb [] = nth i rows []).
  { unfold nb. change (@nil (option Q)) with (snd (false, @nil (option Q))). rewrite map_nth, Hk. reflexivity. }
  apply (cond_exact nbsimu nvar icase nb wgt target df k isimu ivar zk snc); try assumption.
  destruct (Hdef isimu ivar Hs Hv) as [E L].
  pose proof (map_eq_nth (fun r => get_item r (sim_rank isimu ivar icase nbsimu nvar)) [] 0 nb (df isimu ivar) k E Hkl) as E'.
  rewrite Hrow, Hd in E'. injection E' as E'. rewrite <- E'. reflexivity.
Qed.

(* C13 proofs, part 5: the residual-kriging step of a conditional simulation, built on the kriging model of
   C01 and the exactness theorem of C02.
     sim_cond(x0) = sim_nc(x0) - sum_a lambda_a(x0) * (sim_nc(x_a) - z_a)
   One kriging case [k] per simulation: its data are the simulated errors (sim_nc - z) at the data, its
   neighbourhood the ACTIVE samples; an undefined value suppresses its equation (C01 [flag]/[active]). *)
From Coq Require Import List Arith ZArith QArith Bool Lqa Lia.
From Gst Require Import lib.QAux lib.LinAlgQ C01.Model C01.Proofs C02.Kriging C13.Model C13.Proofs_cond C13.Proofs_rule.
Import ListNotations.
Local Open Scope Q_scope.

(* kriging of the simulated errors with the weights of the system: exact where the kriging is *)
Lemma residual_kriging_exact k o v c :
  krige k = Some o -> (v < k_nvar k)%nat -> (c < nred k)%nat ->
  (forall a, (a < nred k)%nat -> r_of o v a == A_of o a c) ->
  fdot (nred k) (w_of o v) (vget (zext k)) == vget (zext k) c.
Proof.
  intros H Hv Hc Hr.
  pose proof (krige_estim_primal k o v H Hv) as P.
  destruct (krige_exact k o v c H Hv Hc Hr) as [E _]. unfold est in E. rewrite P in E.
  unfold w_of. lra.
Qed.

(* value written by the conditioning step at the target, for the variable v of the simulation described by k *)
Definition cond_value (k : kcase) (o : kout) (v : nat) (snc0 : Q) : Q :=
  snc0 - fdot (nred k) (w_of o v) (vget (zext k)).

(* equation (variable iv, sample ie) of the system and its rank among the active equations *)
Definition eq_index (k : kcase) (iv ie : nat) : nat := (iv * nech k + ie)%nat.
Definition eq_rank (k : kcase) (iv ie : nat) : nat := rank_active (flag k) (eq_index k iv ie) (seq 0 (neq k)).

Lemma eq_index_lt k iv ie : (iv < k_nvar k)%nat -> (ie < nech k)%nat -> (eq_index k iv ie < k_nvar k * nech k)%nat.
Proof. unfold eq_index. intros. nia. Qed.

Lemma eq_rank_spec k iv ie : (iv < k_nvar k)%nat -> (ie < nech k)%nat -> flag k (eq_index k iv ie) = true ->
  (eq_rank k iv ie < nred k)%nat /\ nth (eq_rank k iv ie) (active k) O = eq_index k iv ie.
Proof.
  intros Hv He Hf. pose proof (eq_index_lt k iv ie Hv He) as Hi.
  assert (Hn : (eq_index k iv ie < length (seq 0 (neq k)))%nat) by (rewrite seq_length; unfold neq; lia).
  assert (Hs : nth (eq_index k iv ie) (seq 0 (neq k)) O = eq_index k iv ie) by (rewrite seq_nth; [reflexivity| rewrite seq_length in Hn; exact Hn]).
  split.
  - unfold eq_rank, nred, active. apply (rank_active_lt (flag k) O); [exact Hn| rewrite Hs; exact Hf].
  - unfold eq_rank, active. rewrite (nth_rank_active (flag k) O); [exact Hs| exact Hn| rewrite Hs; exact Hf].
Qed.

Lemma nth_map_in {A B} (f : A -> B) d d' : forall l a, (a < length l)%nat -> nth a (map f l) d = f (nth a l d').
Proof. induction l as [|x l IH]; intros [|a] H; simpl in *; try lia; [reflexivity| apply IH; lia]. Qed.

Lemma zext_at k iv ie : (iv < k_nvar k)%nat -> (ie < nech k)%nat -> flag k (eq_index k iv ie) = true ->
  vget (zext k) (eq_rank k iv ie) == oval (nth iv (s_z (nth_s k ie)) None) - mean_of k iv.
Proof.
  intros Hv He Hf. destruct (eq_rank_spec k iv ie Hv He Hf) as [Hr Hn].
  unfold vget, zext. rewrite (nth_map_in _ 0 O) by exact Hr. rewrite Hn. cbv zeta.
  pose proof (eq_index_lt k iv ie Hv He) as Hi. apply Nat.ltb_lt in Hi. rewrite Hi.
  unfold eq_index.
  assert (D : ((iv * nech k + ie) / nech k = iv)%nat) by (rewrite Nat.div_add_l by lia; rewrite Nat.div_small by exact He; lia).
  assert (M : ((iv * nech k + ie) mod nech k = ie)%nat) by (rewrite Nat.add_comm, Nat.mod_add by lia; apply Nat.mod_small; exact He).
  rewrite D, M. reflexivity.
Qed.

(* The conditional simulation reproduces the datum: the target coincides with the active sample ie whose variable iv
   is defined (kriging exactness: the right-hand side of variable iv is the column of that equation), the simulated
   errors have no mean to add back, and the non conditional simulation takes the same value at target and datum. *)
Lemma cond_sim_exact k o iv ie snc z :
  krige k = Some o -> (iv < k_nvar k)%nat -> (ie < nech k)%nat -> flag k (eq_index k iv ie) = true ->
  (forall a, (a < nred k)%nat -> r_of o iv a == A_of o a (eq_rank k iv ie)) ->
  mean_of k iv == 0 ->
  nth iv (s_z (nth_s k ie)) None = Some (snc - z) ->
  cond_value k o iv snc == z.
Proof.
  intros H Hv He Hf Hr Hm Hz. destruct (eq_rank_spec k iv ie Hv He Hf) as [Hc _].
  unfold cond_value. rewrite (residual_kriging_exact k o iv (eq_rank k iv ie) H Hv Hc Hr).
  rewrite (zext_at k iv ie Hv He Hf), Hz, Hm. simpl. ring.
Qed.

(* an equation suppressed because its value is undefined is not in the system: its rank is that of the next one *)
Lemma undefined_not_active k iv ie : (iv < k_nvar k)%nat -> (ie < nech k)%nat ->
  nth iv (s_z (nth_s k ie)) None = None -> flag k (eq_index k iv ie) = false.
Proof.
  intros Hv He Hz. unfold flag. pose proof (eq_index_lt k iv ie Hv He) as Hi. apply Nat.ltb_lt in Hi. rewrite Hi.
  unfold eq_index.
  assert (D : ((iv * nech k + ie) / nech k = iv)%nat) by (rewrite Nat.div_add_l by lia; rewrite Nat.div_small by exact He; lia).
  assert (M : ((iv * nech k + ie) mod nech k = ie)%nat) by (rewrite Nat.add_comm, Nat.mod_add by lia; apply Nat.mod_small; exact He).
  rewrite D, M, Hz. simpl. apply andb_false_r.
Qed.

(* masks: the neighbourhood of k is made of the ACTIVE samples of the data base; the datum of absolute rank i
   is sample (rank_active i) of the neighbourhood *)
Lemma masked_sample {S : Type} (act : S -> bool) (all : list S) (d : S) i :
  (i < length all)%nat -> act (nth i all d) = true ->
  nth (rank_active act i all) (filter act all) d = nth i all d /\ (rank_active act i all < length (filter act all))%nat.
Proof. intros Hi Ha. split; [apply nth_rank_active; assumption| apply (rank_active_lt act d); assumption]. Qed.

(* ---- link with the list model of _simulateCalcul (C13.Model.krig_error) ------------------------------------
   [ds] = the defined simulated errors in the order of the loops (jvar, iech) of _simulateCalcul.  Layout hypothesis:
   the centred data vector of the system is [ds] followed by zeros (drift equations).  It is discharged by
   computation on every correspondence case (Run kind 13) and in the Example below; proving it from the definitions
   of C01 (filter over seq / div / mod) is what is missing for the full statement. *)
Lemma dotw_is_fdot ivar : forall (ds : list Q) (w : list (list Q)) (n : nat) (zx : list Q),
  (length ds <= n)%nat -> (n <= length w)%nat ->
  (forall a, (a < length ds)%nat -> nth a zx 0 == nth a ds 0) ->
  (forall a, (length ds <= a < n)%nat -> nth a zx 0 == 0) ->
  dotw ivar w ds == fdot n (fun a => nth ivar (nth a w []) 0) (fun a => nth a zx 0).
Proof.
  induction ds as [|d ds IH]; intros w n zx L1 L2 H1 H2.
  - simpl. unfold fdot. symmetry. apply sumn_zero. intros i Hi. rewrite (H2 i) by (simpl; lia). ring.
  - destruct w as [|wl w]; [simpl in L2; simpl in L1; lia|].
    destruct n as [|n]; [simpl in L1; lia|].
    simpl dotw.
    rewrite (IH w n (tl zx)).
    + unfold fdot.
      assert (E : sumn (S n) (fun l => nth ivar (nth l (wl :: w) []) 0 * nth l zx 0) ==
                  nth ivar wl 0 * nth 0 zx 0 + sumn n (fun l => nth ivar (nth l w []) 0 * nth l (tl zx) 0)).
      { clear. induction n as [|n IHn].
        - simpl. ring.
        - cbn [sumn] in *. rewrite IHn. destruct zx as [|z0 zx]; simpl; [destruct n; simpl; ring| ring]. }
      rewrite E. rewrite (H1 O) by (simpl; lia). simpl. ring.
    + simpl in L1. lia.
    + simpl in L2. lia.
    + intros a Ha. specialize (H1 (S a) ltac:(simpl; lia)). destruct zx; simpl in *; [destruct a; exact H1| exact H1].
    + intros a Ha. specialize (H2 (S a) ltac:(simpl in *; lia)). destruct zx; simpl in *; [destruct a; exact H2| exact H2].
Qed.

Lemma krig_error_is_fdot_partial nbsimu nvar icase (nb : list row) (wgt : list (list Q)) isimu ivar
      (df : Z -> list Q) (n : nat) (zx : list Q) :
  (forall jv, In jv (zrange nvar) ->
     map (fun r => get_item r (sim_rank isimu jv icase nbsimu nvar)) nb = map Some (df jv) /\ length (df jv) = length nb) ->
  (Z.to_nat nvar * length nb <= n)%nat -> (n <= length wgt)%nat ->
  let ds := flat_map df (zrange nvar) in
  (forall a, (a < length ds)%nat -> nth a zx 0 == nth a ds 0) ->
  (forall a, (length ds <= a < n)%nat -> nth a zx 0 == 0) ->
  exists s, krig_error nbsimu nvar icase nb wgt (isimu, ivar) = Some s /\
            s == 0 - fdot n (fun a => nth (Z.to_nat ivar) (nth a wgt []) 0) (fun a => nth a zx 0).
Proof.
  intros Hdef Hn Hw ds H1 H2.
  assert (Hlen : length ds = (Z.to_nat nvar * length nb)%nat).
  { unfold ds. assert (G : forall l, (forall x, In x l -> length (df x) = length nb) ->
                 length (flat_map df l) = (length l * length nb)%nat).
    { induction l as [|x l IH]; intro Hl; [reflexivity|]. simpl. rewrite app_length, IH, (Hl x); [reflexivity|left; reflexivity|].
      intros y Hy. apply Hl. right. exact Hy. }
    rewrite G, zrange_length; [reflexivity|]. intros x Hx. apply Hdef. exact Hx. }
  unfold krig_error. simpl fst; simpl snd.
  destruct (sc_vars_defined nb isimu icase nbsimu nvar (Z.to_nat ivar) df (zrange nvar) wgt 0) as [s [S1 S2]].
  - exact Hdef.
  - rewrite zrange_length. lia.
  - exists s. split; [exact S1|]. rewrite S2. fold ds.
    rewrite (dotw_is_fdot (Z.to_nat ivar) ds wgt n zx); [reflexivity| lia| exact Hw| exact H1| exact H2].
Qed.

(* ---- plurigaussian conditioning: facies at a conditioning point = observed facies --------------------------------
   The two gaussians attached by the Gibbs sampler to the active datum k (strictly inside the bounds of its observed
   facies f) are copied to the coinciding active target by _updateData2ToTarget; the rule maps them back to f.
   Holds for every (well-formed) rule tree, every simulation rank, every mask on the data. *)
Lemma pgs_facies_at_datum ext n f r nbsimu icase eps2 data c (t : row) k isimu y1 y2 :
  0 <= ext -> wf_node n (root_rect ext) = true -> facies_bounds ext n f = Some r ->
  (0 <= isimu < nbsimu)%Z -> (0 <= icase)%Z -> (nbsimu * 2 * (icase + 1) <= Z.of_nat (length t))%Z ->
  find_close eps2 c data 0 = Some k ->
  d_z (nth k data no_datum) = [Some y1; Some y2] ->
  strictly_inside r y1 y2 = true ->
  let t' := update_point_target nbsimu 2 icase eps2 data true c t in
  exists g1 g2, get_item t' (sim_rank isimu 0 icase nbsimu 2) = Some g1 /\
                get_item t' (sim_rank isimu 1 icase nbsimu 2) = Some g2 /\
                gaussian_to_facies ext n g1 g2 = f.
Proof.
  intros He Hwf Hb Hs Hc Hl Hf Hz Hin t'.
  exists y1, y2. split; [|split].
  - apply (copy_exact nbsimu 2 icase eps2 data c t k isimu 0 y1); try assumption; try lia. rewrite Hz. reflexivity.
  - apply (copy_exact nbsimu 2 icase eps2 data c t k isimu 1 y2); try assumption; try lia. rewrite Hz. reflexivity.
  - apply (facies_roundtrip ext n f r y1 y2 He Hwf Hb Hin).
Qed.

(* bi-plurigaussian: two independent rules, each with its own pair of gaussians *)
Lemma bipgs_roundtrip ext n1 n2 f1 f2 r1 r2 y1 y2 y3 y4 :
  0 <= ext -> wf_node n1 (root_rect ext) = true -> wf_node n2 (root_rect ext) = true ->
  facies_bounds ext n1 f1 = Some r1 -> facies_bounds ext n2 f2 = Some r2 ->
  strictly_inside r1 y1 y2 = true -> strictly_inside r2 y3 y4 = true ->
  (gaussian_to_facies ext n1 y1 y2, gaussian_to_facies ext n2 y3 y4) = (f1, f2).
Proof.
  intros He W1 W2 B1 B2 I1 I2.
  rewrite (facies_roundtrip ext n1 f1 r1 y1 y2 He W1 B1 I1), (facies_roundtrip ext n2 f2 r2 y3 y4 He W2 B2 I2). reflexivity.
Qed.

(* C13 proofs, part 2: law_gaussian_between_bounds over the reals.
   The abstract model of Model.v is instantiated with R, the true exp / ln / sqrt in the
   transform, and ARBITRARY functions [wexp] (weights) and [alog] (acceptance tests). *)
From Coq Require Import List ZArith QArith Qreals Reals Lra Lia Bool.
From Gst Require Import C13.Model.
Import ListNotations.
Local Open Scope R_scope.

Definition Rltb (x y : R) : bool := if Rlt_dec x y then true else false.
Definition Rleb (x y : R) : bool := if Rle_dec x y then true else false.

Lemma Rltb_true x y : Rltb x y = true <-> x < y.
Proof. unfold Rltb. destruct (Rlt_dec x y); split; intros; try assumption; try reflexivity; try discriminate; contradiction. Qed.
Lemma Rltb_false x y : Rltb x y = false <-> y <= x.
Proof. unfold Rltb. destruct (Rlt_dec x y); split; intros; try reflexivity; try discriminate; lra. Qed.
Lemma Rleb_true x y : Rleb x y = true <-> x <= y.
Proof. unfold Rleb. destruct (Rle_dec x y); split; intros; try assumption; try reflexivity; try discriminate; contradiction. Qed.
Lemma Rleb_false x y : Rleb x y = false <-> y < x.
Proof. unfold Rleb. destruct (Rle_dec x y); split; intros; try reflexivity; try discriminate; lra. Qed.

Lemma Q2R_0 : Q2R 0 = 0. Proof. unfold Q2R; simpl; lra. Qed.
Lemma Q2R_1 : Q2R 1 = 1. Proof. unfold Q2R; simpl; lra. Qed.
Lemma Q2R_2 : Q2R 2 = 2. Proof. unfold Q2R; simpl; lra. Qed.
Lemma Q2R_20 : Q2R 20 = 20. Proof. unfold Q2R; simpl; lra. Qed.
Lemma Q2R_inject_Z z : Q2R (inject_Z z) = IZR z.
Proof. unfold Q2R; simpl. lra. Qed.

Section GBB_R.
Variables wexp alog : R -> R.

Notation T0 := (t0 R Q2R).
Notation T1 := (t1 R Q2R).
Notation T2 := (t2 R Q2R).
Notation splitR := (gbb_split R Ropp Rltb Rleb Q2R).
Notation wgtR := (gbb_wgt R Rminus Rmult Rdiv Ropp Rltb Q2R wexp).
Notation cumulR := (cumul R Rplus Rminus Rmult Rdiv Ropp Rltb Q2R wexp).
Notation scanR := (gbb_scan R Rltb).
Notation transformR := (gbb_transform R Rplus Rminus Rmult Rdiv Ropp Q2R exp ln sqrt).
Notation acceptR := (gbb_accept R Rplus Rminus Rmult Rdiv Ropp Rleb Q2R alog).
Notation loopR := (gbb_loop R Rplus Rminus Rmult Rdiv Ropp Rltb Rleb Q2R alog exp ln sqrt).
Notation boundsR := (gbb_bounds R Rplus Rminus Ropp Rltb Q2R).
Notation coreR := (gbb_core R Rplus Rminus Rmult Rdiv Ropp Rltb Rleb Q2R Int_part wexp alog exp ln sqrt).
Notation gbbR := (gbb R Rplus Rminus Rmult Rdiv Ropp Rltb Rleb Q2R Int_part wexp alog exp ln sqrt).
Notation gibbsR := (gibbs_value R Rplus Rminus Rmult Rdiv Ropp Rltb Rleb Q2R Int_part wexp alog exp ln sqrt).

Lemma T0_eq : T0 = 0. Proof. exact Q2R_0. Qed.
Lemma T1_eq : T1 = 1. Proof. exact Q2R_1. Qed.
Lemma T2_eq : T2 = 2. Proof. exact Q2R_2. Qed.
Lemma seuil_eq : g_seuil R Q2R = 2. Proof. exact Q2R_2. Qed.
Lemma large_eq : g_large R Q2R = 20. Proof. exact Q2R_20. Qed.

(* what the split guarantees for every table entry *)
Definition entry_ok (a b : R) (e : tab_entry R) : Prop :=
  let '(aa, bb, ty) := e in
  a <= aa /\ aa <= bb /\ bb <= b /\ (1 <= ty <= 4)%Z /\ (ty = 1%Z -> bb < 0) /\ (ty = 4%Z -> 0 < aa).

Ltac case_cmp :=
  match goal with
  | |- context [Rltb ?x ?y] =>
      let E := fresh "E" in destruct (Rltb x y) eqn:E;
      [apply Rltb_true in E | apply Rltb_false in E]
  | |- context [Rleb ?x ?y] =>
      let E := fresh "E" in destruct (Rleb x y) eqn:E;
      [apply Rleb_true in E | apply Rleb_false in E]
  end.

Lemma split_ok a b : a <= b -> Forall (entry_ok a b) (splitR a b).
Proof.
  intro Hab. unfold gbb_split, tmin. rewrite seuil_eq, T0_eq.
  repeat (case_cmp; cbn [app]; try (exfalso; lra));
    repeat (apply Forall_cons || apply Forall_nil); unfold entry_ok;
    repeat split; try lra; try lia; try (intro; discriminate).
Qed.

Lemma split_nonempty a b : splitR a b <> [].
Proof.
  unfold gbb_split, tmin. rewrite seuil_eq, T0_eq.
  repeat (case_cmp; cbn [app]); discriminate.
Qed.

(* ---------------------------------------------------------------- the transform stays in [aa,bb] *)
Lemma ln_between x lo hi : 0 < lo -> lo <= x -> x <= hi -> ln lo <= ln x <= ln hi.
Proof.
  intros H0 H1 H2. split.
  - destruct (Req_dec lo x) as [->|N]; [lra|]. left. apply ln_increasing; lra.
  - destruct (Req_dec x hi) as [->|N]; [lra|]. left. apply ln_increasing; lra.
Qed.

Lemma exp_le_compat x y : x <= y -> exp x <= exp y.
Proof. intro H. destruct (Req_dec x y) as [->|N]; [lra|]. left. apply exp_increasing. lra. Qed.

Lemma convex_between p q u : p <= q -> 0 <= u <= 1 -> p <= p * (1 - u) + q * u <= q.
Proof. intros H Hu. split; nra. Qed.
Lemma convex_between' p q u : q <= p -> 0 <= u <= 1 -> q <= p * (1 - u) + q * u <= p.
Proof. intros H Hu. split; nra. Qed.

(* tail transform: s = sqrt(m2 - 2 ln(1 - u (1 - exp((m2 - M2)/2)))) lies between sqrt m2 and sqrt M2 *)
Lemma tail_between m2 M2 u : 0 <= m2 -> m2 <= M2 -> 0 <= u <= 1 ->
  m2 <= m2 - 2 * ln (1 - u * (1 - exp ((m2 - M2) / 2))) <= M2.
Proof.
  intros H0 H1 Hu.
  set (e := exp ((m2 - M2) / 2)).
  assert (He0 : 0 < e) by apply exp_pos.
  assert (He1 : e <= 1).
  { unfold e. rewrite <- exp_0. apply exp_le_compat. lra. }
  assert (Hb : e <= 1 - u * (1 - e) <= 1) by (split; nra).
  destruct (ln_between (1 - u * (1 - e)) e 1 He0 (proj1 Hb) (proj2 Hb)) as [L1 L2].
  unfold e in L1 at 1. rewrite ln_exp in L1. rewrite ln_1 in L2. lra.
Qed.

Lemma transform_in ty aa bb u :
  (1 <= ty <= 4)%Z -> aa <= bb -> (ty = 1%Z -> bb < 0) -> (ty = 4%Z -> 0 < aa) -> 0 <= u <= 1 ->
  aa <= transformR ty aa bb u <= bb.
Proof.
  intros Hty Hab H1 H4 Hu. unfold gbb_transform. rewrite T1_eq, T2_eq.
  destruct (ty =? 1)%Z eqn:E1; [apply Z.eqb_eq in E1|].
  { (* lower tail: aa <= bb < 0 *)
    specialize (H1 E1).
    assert (Hsq : bb * bb <= aa * aa) by nra.
    destruct (tail_between (bb * bb) (aa * aa) u ltac:(nra) Hsq Hu) as [L U].
    set (v := bb * bb - 2 * ln (1 - u * (1 - exp ((bb * bb - aa * aa) / 2)))) in *.
    assert (S1 : sqrt (bb * bb) <= sqrt v) by (apply sqrt_le_1_alt; lra).
    assert (S2 : sqrt v <= sqrt (aa * aa)) by (apply sqrt_le_1_alt; lra).
    replace (bb * bb) with ((- bb) * (- bb)) in S1 by ring.
    replace (aa * aa) with ((- aa) * (- aa)) in S2 by ring.
    rewrite sqrt_square in S1 by lra. rewrite sqrt_square in S2 by lra. lra. }
  destruct (ty =? 2)%Z eqn:E2.
  { assert (P : exp aa <= exp bb) by (apply exp_le_compat; exact Hab).
    destruct (convex_between (exp aa) (exp bb) u P Hu) as [C1 C2].
    destruct (ln_between _ _ _ (exp_pos aa) C1 C2) as [L1 L2].
    rewrite ln_exp in L1, L2. lra. }
  destruct (ty =? 3)%Z eqn:E3.
  { assert (P : exp (- bb) <= exp (- aa)) by (apply exp_le_compat; lra).
    destruct (convex_between' (exp (- aa)) (exp (- bb)) u P Hu) as [C1 C2].
    destruct (ln_between _ _ _ (exp_pos (- bb)) C1 C2) as [L1 L2].
    rewrite ln_exp in L1, L2. lra. }
  destruct (ty =? 4)%Z eqn:E4; [apply Z.eqb_eq in E4|].
  { specialize (H4 E4).
    assert (Hsq : aa * aa <= bb * bb) by nra.
    destruct (tail_between (aa * aa) (bb * bb) u ltac:(nra) Hsq Hu) as [L U].
    set (v := aa * aa - 2 * ln (1 - u * (1 - exp ((aa * aa - bb * bb) / 2)))) in *.
    assert (S1 : sqrt (aa * aa) <= sqrt v) by (apply sqrt_le_1_alt; lra).
    assert (S2 : sqrt v <= sqrt (bb * bb)) by (apply sqrt_le_1_alt; lra).
    rewrite sqrt_square in S1 by lra. rewrite sqrt_square in S2 by lra. lra. }
  apply Z.eqb_neq in E1, E2, E3, E4. lia.
Qed.

(* ---------------------------------------------------------------- the loop *)
Definition u_ok (u : R) : Prop := 0 <= u < 1.

Lemma loop_safe a b tab ptab : Forall (entry_ok a b) tab ->
  forall k us nd mg x n m, (length us < k)%nat -> Forall u_ok us ->
  loopR tab ptab us nd mg = GOk x n m -> a <= x <= b.
Proof.
  intros Htab. induction k as [|k IH]; intros us nd mg x n m Hlen Hus H; [lia|].
  destruct us as [|u1 [|u2 [|u3 rest]]]; try discriminate.
  cbn [gbb_loop] in H.
  destruct (scanR ptab u1 0) as [isim|]; [|discriminate].
  destruct (nth_error tab isim) as [[[aa bb] ty]|] eqn:En; [|discriminate].
  destruct (nth_error ptab isim) as [pk|]; [|discriminate].
  destruct (acceptR ty aa bb (transformR ty aa bb u2) u3) as [ok mm].
  destruct ok.
  - injection H as Hx _ _. subst x.
    apply nth_error_In in En. rewrite Forall_forall in Htab. specialize (Htab _ En).
    destruct Htab as (A1 & A2 & A3 & A4 & A5 & A6).
    assert (U2 : u_ok u2) by (inversion Hus as [|? ? _ Hr]; inversion Hr; assumption).
    destruct (transform_in ty aa bb u2 A4 A2 A5 A6) as [L U]; [unfold u_ok in U2; lra|]. lra.
  - eapply (IH rest); [simpl in Hlen; lia| | exact H].
    inversion Hus as [|? ? _ Hr]; inversion Hr as [|? ? _ Hr2]; inversion Hr2; assumption.
Qed.

(* the loop, for effective bounds a <= b *)
Lemma core_safe a b us x n m :
  a <= b -> Forall u_ok us -> coreR a b us = GOk x n m -> a <= x <= b.
Proof.
  intros Hab Hus H. unfold gbb_core in H.
  pose proof (split_ok a b Hab) as Htab.
  destruct (Rleb (last (cumulR T0 (splitR a b)) T0) T0).
  - destruct us as [|u rest]; [discriminate|].
    destruct (Int_part (Q2R (inject_Z (Z.of_nat (length (splitR a b)))) * u) <? 0)%Z; [discriminate|].
    destruct (nth_error (splitR a b) _) as [[[aa bb] ty]|] eqn:En; [|discriminate].
    injection H as Hx _ _. subst x.
    apply nth_error_In in En. rewrite Forall_forall in Htab. specialize (Htab _ En).
    destruct Htab as (A1 & A2 & A3 & _). lra.
  - refine (loop_safe a b _ _ Htab (S (length us)) us _ _ x n m _ Hus H). apply Nat.lt_succ_diag_r.
Qed.

(* the effective bounds: a defined bound is kept as it is, an undefined one is put at least 20 beyond *)
Definition ordered (binf bsup : option R) : Prop :=
  forall l h, binf = Some l -> bsup = Some h -> l <= h.

Lemma bounds_spec binf bsup : ordered binf bsup ->
  let (a, b) := boundsR binf bsup in
  a <= b /\ (forall l, binf = Some l -> a = l) /\ (forall h, bsup = Some h -> b = h).
Proof.
  intro Ho. unfold gbb_bounds. rewrite large_eq.
  destruct binf as [l|], bsup as [h|].
  - split; [apply (Ho l h); reflexivity|]. split; intros ? E; injection E as <-; reflexivity.
  - destruct (Rltb l (l + 20)) eqn:E; [apply Rltb_true in E| apply Rltb_false in E].
    + destruct (Rltb 20 (l + 20)) eqn:E2; [apply Rltb_true in E2| apply Rltb_false in E2];
        (split; [lra|]); (split; [intros ? E3; injection E3 as <-; reflexivity| intros ? E3; discriminate]).
    + exfalso; lra.
  - destruct (Rltb (h - 20) (- (20))) eqn:E; [apply Rltb_true in E| apply Rltb_false in E];
      (split; [lra|]); (split; [intros ? E3; discriminate| intros ? E3; injection E3 as <-; reflexivity]).
  - split; [lra|]. split; intros ? E; discriminate.
Qed.

Lemma bounded_draw binf bsup us x n m :
  ordered binf bsup -> Forall u_ok us ->
  gbbR binf bsup us = GOk x n m ->
  (forall l, binf = Some l -> l <= x) /\ (forall h, bsup = Some h -> x <= h).
Proof.
  intros Ho Hus H. unfold gbb in H.
  pose proof (bounds_spec binf bsup Ho) as B.
  destruct (boundsR binf bsup) as [a b]. destruct B as (Hab & Ha & Hb).
  destruct (core_safe a b us x n m Hab Hus H) as [L U].
  split; [intros l E; rewrite <- (Ha l E); exact L| intros h E; rewrite <- (Hb h E); exact U].
Qed.

(* ---------------------------------------------------------------- table indexing is safe *)
Lemma scan_bound ptab : forall u i, (exists pk, In pk ptab /\ ~ pk < u) ->
  exists j, scanR ptab u i = Some j /\ (j < i + length ptab)%nat.
Proof.
  induction ptab as [|p r IH]; intros u i [pk [Hin Hn]]; [contradiction|].
  cbn [gbb_scan]. destruct (Rltb p u) eqn:E.
  - apply Rltb_true in E. destruct Hin as [->|Hin]; [contradiction|].
    destruct (IH u (S i) (ex_intro _ pk (conj Hin Hn))) as [j [H1 H2]].
    exists j. split; [exact H1| simpl; lia].
  - exists i. split; [reflexivity| simpl; lia].
Qed.

Lemma last_map {A B} (f : A -> B) l d : l <> [] -> last (map f l) (f d) = f (last l d).
Proof.
  induction l as [|x r IH]; intro H; [contradiction|].
  destruct r as [|y r']; [reflexivity|].
  change (last (map f (y :: r')) (f d) = f (last (y :: r') d)). apply IH. discriminate.
Qed.

Lemma last_In {A} (l : list A) d : l <> [] -> In (last l d) l.
Proof.
  induction l as [|x r IH]; intro H; [contradiction|].
  destruct r as [|y r']; [left; reflexivity|]. right. apply IH. discriminate.
Qed.

Lemma cumul_length acc l : length (cumulR acc l) = length l.
Proof. revert acc. induction l; intro acc; simpl; [reflexivity| rewrite IHl; reflexivity]. Qed.

Lemma int_part_bound nn u : 0 <= u < 1 ->
  (0 <= Int_part (IZR (Z.of_nat nn) * u) /\ (nn <> 0%nat -> Int_part (IZR (Z.of_nat nn) * u) < Z.of_nat nn))%Z.
Proof.
  intros Hu. set (r := IZR (Z.of_nat nn) * u).
  destruct (base_Int_part r) as [B1 B2].
  assert (Hn : 0 <= IZR (Z.of_nat nn)) by (apply IZR_le; lia).
  assert (Hr : 0 <= r) by (unfold r; nra).
  split.
  - assert (IZR (-1) < IZR (Int_part r)) by (simpl; lra). apply lt_IZR in H. lia.
  - intro Hne. assert (Hpos : 0 < IZR (Z.of_nat nn)) by (apply IZR_lt; lia).
    assert (r < IZR (Z.of_nat nn)) by (unfold r; nra).
    apply lt_IZR. lra.
Qed.

(* no execution on admissible inputs indexes outside atab/btab/itab/ptab *)
Lemma core_no_overrun a b us :
  Forall u_ok us -> coreR a b us <> GOverrun.
Proof.
  intros Hus. unfold gbb_core.
  set (tab := splitR a b). set (cum := cumulR T0 tab). set (total := last cum T0).
  assert (Hlen : length cum = length tab) by apply cumul_length.
  assert (Hne : tab <> []) by apply split_nonempty.
  destruct (Rleb total T0) eqn:Et.
  - destruct us as [|u rest]; [discriminate|].
    assert (Hu : u_ok u) by (inversion Hus; assumption).
    rewrite Q2R_inject_Z.
    destruct (int_part_bound (length tab) u Hu) as [B1 B2].
    assert (length tab <> 0%nat) by (destruct tab; [contradiction| discriminate]).
    specialize (B2 H).
    destruct (Int_part (IZR (Z.of_nat (length tab)) * u) <? 0)%Z eqn:E0; [apply Z.ltb_lt in E0; lia|].
    destruct (nth_error tab (Z.to_nat (Int_part (IZR (Z.of_nat (length tab)) * u)))) as [[[aa bb] ty]|] eqn:En; [discriminate|].
    apply nth_error_None in En. lia.
  - apply Rleb_false in Et. rewrite T0_eq in Et.
    assert (Hcne : cum <> []) by (intro E; rewrite E in Hlen; destruct tab; [contradiction| discriminate]).
    set (ptab := map (fun c => c / total) cum).
    assert (Hp1 : In 1 ptab).
    { replace 1 with (total / total) by (field; lra).
      unfold ptab. apply (in_map (fun c => c / total) cum total). unfold total. apply last_In. exact Hcne. }
    assert (Hpl : length ptab = length tab) by (unfold ptab; rewrite map_length; exact Hlen).
    clearbody ptab.
    assert (G : forall k us nd mg, (length us < k)%nat -> Forall u_ok us -> loopR tab ptab us nd mg <> GOverrun).
    { induction k as [|k IH]; intros us' nd mg Hl Hu'; [lia|].
      destruct us' as [|u1 [|u2 [|u3 rest]]]; try discriminate.
      cbn [gbb_loop].
      assert (U1 : u_ok u1) by (inversion Hu'; assumption).
      destruct (scan_bound ptab u1 0%nat) as [j [Hj1 Hj2]].
      { exists 1. split; [exact Hp1| unfold u_ok in U1; lra]. }
      rewrite Hj1.
      destruct (nth_error tab j) as [[[aa bb] ty]|] eqn:En; [|apply nth_error_None in En; lia].
      destruct (nth_error ptab j) as [pk|] eqn:Ep; [|apply nth_error_None in Ep; lia].
      destruct (acceptR ty aa bb (transformR ty aa bb u2) u3) as [ok mm].
      destruct ok; [discriminate|].
      apply IH; [simpl in Hl; lia|].
      inversion Hu' as [|? ? _ Hr]; inversion Hr as [|? ? _ Hr2]; inversion Hr2; assumption. }
    apply (G (S (length us))); [lia| exact Hus].
Qed.

Lemma no_overrun binf bsup us :
  Forall u_ok us -> gbbR binf bsup us <> GOverrun.
Proof.
  intros Hus. unfold gbb. destruct (boundsR binf bsup) as [a b]. apply core_no_overrun. exact Hus.
Qed.

(* ---------------------------------------------------------------- Gibbs update *)
Lemma gibbs_in_bounds yk sk vmin vmax us v n m :
  0 < sk -> ordered vmin vmax -> Forall u_ok us ->
  gibbsR yk sk vmin vmax us = GOk v n m ->
  (forall l, vmin = Some l -> l <= v) /\ (forall h, vmax = Some h -> v <= h).
Proof.
  intros Hsk Hord Hus H. unfold gibbs_value, gibbs_bounds in H.
  destruct (gbbR (option_map (fun t => (t - yk) / sk) vmin) (option_map (fun t => (t - yk) / sk) vmax) us)
    as [x nn mm| |] eqn:E; try discriminate.
  injection H as Hv _ _. subst v.
  assert (Ho : ordered (option_map (fun t => (t - yk) / sk) vmin) (option_map (fun t => (t - yk) / sk) vmax)).
  { intros l h El Eh. destruct vmin as [l0|]; [|discriminate]. destruct vmax as [h0|]; [|discriminate].
    simpl in El, Eh. injection El as <-. injection Eh as <-.
    pose proof (Hord l0 h0 eq_refl eq_refl) as Hle.
    unfold Rdiv. apply Rmult_le_compat_r; [left; apply Rinv_0_lt_compat; exact Hsk| lra]. }
  destruct (bounded_draw _ _ us x nn mm Ho Hus E) as [L U].
  split.
  - intros l ->. specialize (L _ eq_refl).
    assert (l - yk <= sk * x).
    { apply Rmult_le_compat_l with (r := sk) in L; [|lra]. replace (sk * ((l - yk) / sk)) with (l - yk) in L by (field; lra). exact L. }
    lra.
  - intros h ->. specialize (U _ eq_refl).
    assert (sk * x <= h - yk).
    { apply Rmult_le_compat_l with (r := sk) in U; [|lra]. replace (sk * ((h - yk) / sk)) with (h - yk) in U by (field; lra). exact U. }
    lra.
Qed.

(* non-vacuity: the degenerate interval [1,1] (weights 0, one uniform) *)
Lemma split_11 : splitR 1 1 = [(1, 1, 3%Z)].
Proof.
  unfold gbb_split, tmin. rewrite seuil_eq.
  repeat (case_cmp; cbn [app]; try (exfalso; rewrite ?T0_eq in *; lra)). all: reflexivity.
Qed.
Lemma degenerate_interval_example :
  exists m, gbbR (Some 1) (Some 1) [/ 2] = GOk 1 1 m /\ u_ok (/ 2).
Proof.
  exists []. split; [| unfold u_ok; split; lra].
  unfold gbb, gbb_bounds, gbb_core. rewrite split_11.
  cbn [cumul last length]. unfold gbb_wgt, tabs. rewrite !T0_eq.
  replace (Rltb (1 - 1) 0) with false by (symmetry; apply Rltb_false; lra).
  replace (Rltb 0 (1 - 1)) with false by (symmetry; apply Rltb_false; lra).
  replace (Rleb (0 + 0) 0) with true by (symmetry; apply Rleb_true; lra).
  rewrite Q2R_inject_Z.
  destruct (int_part_bound 1 (/ 2)) as [B1 B2]; [split; lra|]. specialize (B2 ltac:(discriminate)).
  assert (E : Int_part (IZR (Z.of_nat 1) * / 2) = 0%Z) by lia.
  rewrite E. reflexivity.
Qed.
(* non-vacuity of the half-open case: bounds (undefined, -25) become [-45, -25] *)
Lemma bounds_open_example : boundsR None (Some (-25)) = (-25 - 20, -25) /\ ordered None (Some (-25)).
Proof.
  split; [| intros l h E; discriminate].
  unfold gbb_bounds. rewrite large_eq.
  replace (Rltb (-25 - 20) (- (20))) with true by (symmetry; apply Rltb_true; lra). reflexivity.
Qed.
(* ---------------------------------------------------------------- one site of the Gibbs sampler *)
Section SITE.
Variable tgauss : R -> R -> R.     (* law_gaussian as a function of its two uniforms: arbitrary *)
Notation tightR := (constraint_tight R Rminus Ropp Rltb Rleb Q2R).
Notation kindR := (bounds_kind R Rminus Ropp Rltb Rleb Q2R).
Notation simulateR := (get_simulate R Rplus Rminus Rmult Rdiv Ropp Rltb Rleb Q2R Int_part wexp alog exp ln sqrt tgauss).
Notation siteR := (gibbs_site R Rplus Rminus Rmult Rdiv Ropp Rltb Rleb Q2R Int_part wexp alog exp ln sqrt tgauss).

Lemma get_simulate_in_bounds yk sk vmin vmax us v n m :
  0 < sk -> ordered vmin vmax -> Forall u_ok us ->
  simulateR yk sk vmin vmax us = GOk v n m ->
  (forall l, vmin = Some l -> l <= v) /\ (forall h, vmax = Some h -> v <= h).
Proof.
  intros Hsk Ho Hus H. unfold get_simulate in H.
  destruct vmin as [l|], vmax as [h|];
    try (apply (gibbs_in_bounds yk sk _ _ us v n m Hsk Ho Hus H)).
  split; intros ? E; discriminate.
Qed.

(* the value given to a site lies in its interval: for every generator state (every list of uniforms in
   [0,1[), every law_gaussian, and each of the five kinds of bounds (free / lower / upper / two-sided / hard) *)
Lemma gibbs_site_in_interval yk sk vmin vmax us v n m :
  0 < sk -> ordered vmin vmax -> Forall u_ok us ->
  siteR yk sk vmin vmax us = GOk v n m ->
  (forall l, vmin = Some l -> l <= v) /\ (forall h, vmax = Some h -> v <= h).
Proof.
  intros Hsk Ho Hus H. unfold gibbs_site in H.
  destruct (tightR vmin vmax) as [t|] eqn:Et.
  - injection H as <- _ _. unfold constraint_tight in Et.
    destruct vmin as [a|]; [|discriminate]. destruct vmax as [b|]; [|discriminate].
    destruct (Rleb _ _); [|discriminate]. injection Et as <-.
    pose proof (Ho a b eq_refl eq_refl).
    split; intros ? E; injection E as <-; lra.
  - apply (get_simulate_in_bounds yk sk vmin vmax us v n m Hsk Ho Hus H).
Qed.

(* the kind decides how many uniforms are consumed: none for a hard datum, two for a free sample *)
Lemma gibbs_site_draws yk sk vmin vmax us v n m :
  siteR yk sk vmin vmax us = GOk v n m ->
  (kindR vmin vmax = KHard -> n = 0%nat /\ vmin = Some v) /\
  (kindR vmin vmax = KFree -> n = 2%nat).
Proof.
  intro H. unfold gibbs_site in H. unfold bounds_kind.
  destruct vmin as [a|], vmax as [b|]; cbn [constraint_tight] in *.
  - destruct (Rleb _ _).
    + injection H as <- <- _. split; [intros _; split; reflexivity| discriminate].
    + split; discriminate.
  - split; discriminate.
  - split; discriminate.
  - split; [discriminate|]. intros _. unfold get_simulate in H.
    destruct us as [|u1 [|u2 r]]; try discriminate. injection H as _ <- _. reflexivity.
Qed.
End SITE.
End GBB_R.

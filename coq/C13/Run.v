(* C13 runner: decodes a case, runs the model, encodes the result. Executable only. *)
From Coq Require Import List ZArith QArith Qabs Qround Bool.
From Gst Require Import lib.Sx lib.QAux lib.LinAlgQ C01.Model C13.Model.
Import ListNotations.
Local Open Scope Z_scope.

(* the std engine is not executed by the model: unit state, constant output *)
Definition G0 := unit.
Definition gseed0 (_ : Z) : G0 := tt.
Definition gstep0 (g : G0) : G0 * Q := (tt, 0%Q).
Definition st0 : rng G0 := mkRng rnd_init true tt.

(* ---- kind 0 : n old-style draws from seed; final state, checksum, all states in ]0,p[ ? ---- *)
Definition chk_mod : Z := 1000000007.
Definition lcg_acc (a : Z * Z * bool) : Z * Z * bool :=
  let '(v, c, ok) := a in
  let v' := lcg_next v in
  (v', (c * 31 + v') mod chk_mod, ok && (0 <? v') && (v' <? rnd_p)).
Definition lcg_run (seed n : Z) : Z * Z * bool :=
  let st := set_seed G0 gseed0 seed st0 in
  Z.iter n lcg_acc (rv st, 0, true).
Fixpoint lcg_first (n : nat) (v : Z) : list Z :=
  match n with O => [] | S k => let v' := lcg_next v in v' :: lcg_first k v' end.

(* ---- kind 6 : law_uniform(mini,maxi) and law_int_uniform(imin,imax) ---- *)
Fixpoint uniforms (n : nat) (mini maxi : Q) (st : rng G0) : list Q * rng G0 :=
  match n with
  | O => ([], st)
  | S k => let (st', u) := uniform G0 gstep0 mini maxi st in
           let (l, st'') := uniforms k mini maxi st' in (u :: l, st'')
  end.
Fixpoint int_uniforms (n : nat) (imin imax : Z) (st : rng G0) : list Z * rng G0 :=
  match n with
  | O => ([], st)
  | S k => let (st', u) := int_uniform G0 gstep0 imin imax st in
           let (l, st'') := int_uniforms k imin imax st' in (u :: l, st'')
  end.

(* ---- kind 1 : bounded draw on rationals with approximate exp/ln/sqrt ---- *)
Definition qltb' (a b : Q) : bool := qltb a b.
Definition gbbQ := gbb Q Qplus Qminus qmulr qdivr Qopp qltb qleb (fun q => q) Qfloor qexp qlog qexp qlog qsqrt.
Definition gibbsQ := gibbs_value Q Qplus Qminus qmulr qdivr Qopp qltb qleb (fun q => q) Qfloor qexp qlog qexp qlog qsqrt.
(* free samples: law_gaussian is not evaluated by the model (value 0): only the number of draws is compared *)
Definition siteQ := gibbs_site Q Qplus Qminus qmulr qdivr Qopp qltb qleb (fun q => q) Qfloor qexp qlog qexp qlog qsqrt (fun _ _ => 0%Q).
Definition ofKind (k : bkind) : sx := I (match k with KFree => 0 | KLower => 1 | KUpper => 2 | KTwo => 3 | KHard => 4 end).
Definition min_abs (l : list Q) : Q :=
  match l with
  | [] => 1%Q
  | x :: r => fold_left (fun m y => if qltb (Qabs y) m then Qabs y else m) r (Qabs x)
  end.
Definition of_gbb (r : gbb_result Q) : sx :=
  match r with
  | GOk x n m => L [I 0; ofQ x; ofNat n; ofQ (min_abs m)]
  | GExhausted => L [I 1]
  | GOverrun => L [I 2]
  end.

(* ---- kind 4 : rule ---- *)
Fixpoint asNode (fuel : nat) (s : sx) : option node :=
  match fuel with
  | O => None
  | S k =>
      match s with
      | L [I 0; I f] => Some (Leaf f)
      | L [I 1; o; t; a; b] =>
          match asB o, asQ t, asNode k a, asNode k b with
          | Some o', Some t', Some a', Some b' => Some (Split o' t' a' b')
          | _, _, _, _ => None
          end
      | _ => None
      end
  end.
Definition ofRect (r : rect) : sx := L [ofQ (t1min r); ofQ (t1max r); ofQ (t2min r); ofQ (t2max r)].
Definition asPair (s : sx) : option (Q * Q) :=
  match s with
  | L [a; b] => match asQ a, asQ b with Some x, Some y => Some (x, y) | _, _ => None end
  | _ => None
  end.
(* a query is a tie when a coordinate equals a bound of some leaf *)
Definition on_bound (lv : list (Z * rect)) (y : Q * Q) : bool :=
  existsb (fun fr => let r := snd fr in
                     qeqb (fst y) (t1min r) || qeqb (fst y) (t1max r) ||
                     qeqb (snd y) (t2min r) || qeqb (snd y) (t2max r)) lv.

(* ---- kind 5 : trace ---- *)
Definition asEvent (s : sx) : option event :=
  match s with
  | L [I 0; I v; _] => Some (ESet v)
  | L [I 1; _; _] => Some EDraw
  | L [I 2; I v; _] => Some (EGet v)
  | _ => None
  end.

Definition asRow (s : sx) : option row := asListOf asOQ s.
(* kind 13: layout of the centred data vector of the C01 kriging model (zext) against the order in which
   _simulateCalcul visits the defined simulated errors (variable by variable, sample by sample) *)
Definition layout_case (nvar : nat) (drift : bool) (zs : list (list (option Q))) : kcase :=
  {| k_nvar := nvar; k_monos := if drift then [[]] else []; k_nfex := 0;
     k_samples := map (fun z => {| s_coord := [Some 0%Q]; s_z := z; s_verr := []; s_fext := [] |}) zs;
     k_means := repeat 0%Q nvar; k_tcoord := [0%Q]; k_tfext := []; k_flag_verr := false;
     k_clhs := []; k_crhs := []; k_c00 := [] |}.
Fixpoint defined_values (l : list (option Q)) : list Q :=
  match l with [] => [] | Some q :: r => q :: defined_values r | None :: r => defined_values r end.
Fixpoint all_zero (l : list Q) : bool := match l with [] => true | q :: r => qeqb q 0 && all_zero r end.
Fixpoint eq_lists (a b : list Q) : bool :=
  match a, b with [] , [] => true | x :: r, y :: r' => qeqb x y && eq_lists r r' | _, _ => false end.
Definition layout_ok (nvar : nat) (drift : bool) (zs : list (list (option Q))) : bool * nat * nat :=
  let k := layout_case nvar drift zs in
  let zx := zext k in
  let ds := flat_map (fun jv => defined_values (map (fun z => nth jv z None) zs)) (seq 0 nvar) in
  (eq_lists (firstn (length ds) zx) ds && all_zero (skipn (length ds) zx) && Nat.eqb (length zx) (nred k), nred k, length ds).
(* datum: (active (x y) (z1 ..)) ; target: (active (x y) row) *)
Definition asDatum (s : sx) : option datum :=
  match s with
  | L [a; xy; z] => match asB a, asListOf asQ xy, asListOf asOQ z with
                    | Some a', Some xy', Some z' => Some (mkDatum a' xy' z')
                    | _, _, _ => None
                    end
  | _ => None
  end.
Definition asTarget (s : sx) : option (bool * list Q * row) :=
  match s with
  | L [a; xy; r] => match asB a, asListOf asQ xy, asRow r with
                    | Some a', Some xy', Some r' => Some (a', xy', r')
                    | _, _, _ => None
                    end
  | _ => None
  end.

Definition run (c : sx) : sx :=
  match c with
  | L [I 0; I seed; I n] =>
      let '(v, chk, ok) := lcg_run seed n in
      let st := set_seed G0 gseed0 seed st0 in
      L [I v; I chk; ofB ok; ofList I (lcg_first (Z.to_nat (Z.min n 8)) (rv st))]
  | L [I 6; I seed; mini; maxi; I imin; I imax; I n] =>
      match asQ mini, asQ maxi with
      | Some a, Some b =>
          let st := set_seed G0 gseed0 seed st0 in
          let (us, st1) := uniforms (Z.to_nat n) a b st in
          let (is_, st2) := int_uniforms (Z.to_nat n) imin imax st1 in
          L [ofList ofQ us; ofList I is_; I (rv st2)]
      | _, _ => sx_error 1
      end
  | L [I 1; I seed; binf; bsup; I fuel] =>
      match asOQ binf, asOQ bsup with
      | Some a, Some b =>
          let st := set_seed G0 gseed0 seed st0 in
          of_gbb (gbbQ a b (stream G0 gstep0 (Z.to_nat fuel) st))
      | _, _ => sx_error 1
      end
  | L [I 2; I seed; yk; sk; vmin; vmax; I fuel] =>
      match asQ yk, asQ sk, asOQ vmin, asOQ vmax with
      | Some yk', Some sk', Some a, Some b =>
          let st := set_seed G0 gseed0 seed st0 in
          of_gbb (gibbsQ yk' sk' a b (stream G0 gstep0 (Z.to_nat fuel) st))
      | _, _, _, _ => sx_error 1
      end
  | L [I 12; I seed; yk; sk; vmin; vmax; I fuel] =>
      match asQ yk, asQ sk, asOQ vmin, asOQ vmax with
      | Some yk', Some sk', Some a, Some b =>
          let st := set_seed G0 gseed0 seed st0 in
          L [of_gbb (siteQ yk' sk' a b (stream G0 gstep0 (Z.to_nat fuel) st));
             ofKind (bounds_kind Q Qminus Qopp qltb qleb (fun q => q) a b)]
      | _, _, _, _ => sx_error 1
      end
  | L [I 3; I nbsimu; I nvar; I icase; nb; w; t] =>
      match asListOf asRow nb, asListOf (asListOf asQ) w, asRow t with
      | Some nb', Some w', Some t' =>
          match simulate_calcul nbsimu nvar icase nb' w' t' with
          | Some r => L [I 0; ofList ofOQ r]
          | None => L [I 2]
          end
      | _, _, _ => sx_error 1
      end
  | L [I 7; I nbsimu; I nvar; I icase; z; r] =>
      match asRow z, asRow r with
      | Some z', Some r' => L [I 0; ofList ofOQ (difference_row nbsimu nvar icase z' r')]
      | _, _ => sx_error 1
      end
  | L [I 9; I nbsimu; I nvar; I icase; eps2; data; tgs] =>
      match asQ eps2, asListOf asDatum data, asListOf asTarget tgs with
      | Some e, Some d, Some t =>
          L [I 0; ofList (fun tg => let '(a, xy, r) := tg in
                                    ofList ofOQ (update_point_target nbsimu nvar icase e d a xy r)) t;
             ofList (fun tg => let '(a, xy, r) := tg in
                               match find_close e xy d 0 with Some k => I (Z.of_nat k) | None => I (-1) end) t]
      | _, _, _ => sx_error 1
      end
  | L [I 13; I nvar; drift; zs] =>
      match asB drift, asListOf (asListOf asOQ) zs with
      | Some d, Some z => let '(ok, n, nd) := layout_ok (Z.to_nat nvar) d z in L [ofB ok; ofNat n; ofNat nd]
      | _, _ => sx_error 1
      end
  | L [I 8; L l] =>
      match l with
      | [I isimu; I ivar; I icase; I nbsimu; I nvar] => L [I (sim_rank isimu ivar icase nbsimu nvar)]
      | _ => sx_error 1
      end
  | L [I 4; ext; tree; fs; qs] =>
      match asQ ext, asNode 64 tree, asListOf asZ fs, asListOf asPair qs with
      | Some e, Some n, Some fl, Some ql =>
          let lv := leaves n (root_rect e) in
          L [ofB (wf_node n (root_rect e));
             ofList (fun f => match facies_bounds e n f with Some r => ofRect r | None => L [] end) fl;
             ofList (fun y => L [I (gaussian_to_facies e n (fst y) (snd y)); ofB (on_bound lv y)]) ql]
      | _, _, _, _ => sx_error 1
      end
  | L [I 5; I seed; consts; evs] =>
      match asListOf asZ consts, asListOf asEvent evs with
      | Some cs, Some t => L [ofB (trace_ok seed t); ofB (trace_strict seed t); ofB (trace_derived seed cs t)]
      | _, _ => sx_error 1
      end
  | _ => sx_error 0
  end.

(* C13 - property theorems only. Each is closed by [exact] of a lemma of Proofs*.v. *)
From Coq Require Import List ZArith QArith Qround Qreals Reals Bool Znumtheory.
From Gst Require Import lib.QAux lib.LinAlgQ C01.Model C02.Kriging C13.Model C13.Proofs C13.Proofs_gbb C13.Proofs_cond C13.Proofs_rule C13.Proofs_krige.
Import ListNotations.
Local Open Scope Q_scope.

(* ================================ 1. generator and seed discipline ================================ *)
(* G / gseed / gstep : the std::mt19937 engine as a black box (state type, seeding, one draw). *)

(* After law_set_random_seed(s), s > 0, the stream of uniforms depends on s only (and on which of
   the two generators is selected) - not on anything drawn or seeded before. *)
Theorem C13_stream_of_seed : forall (G : Type) (gseed : Z -> G) (gstep : G -> G * Q) (s : Z) (a b : rng G) (n : nat),
  (0 < s)%Z -> old_style a = old_style b ->
  stream G gstep n (set_seed G gseed s a) = stream G gstep n (set_seed G gseed s b).
Proof. exact stream_of_seed. Qed.
Print Assumptions C13_stream_of_seed.

(* Any deterministic client of the generator that begins by seeding it with s > 0 returns the same
   result and produces the same trace of RNG events whatever happened before. *)
Theorem C13_reproducible : forall (G : Type) (gseed : Z -> G) (gstep : G -> G * Q) (A : Type) (pr : prog A)
  (s : Z) (a b : rng G), (0 < s)%Z -> old_style a = old_style b ->
  exec gseed gstep (SetS s pr) a = exec gseed gstep (SetS s pr) b.
Proof. exact reproducible. Qed.
Print Assumptions C13_reproducible.

(* Seed discipline as a trace language: if the recorded trace of an entry point starts with
   SetSeed(seed), seed > 0, then result and trace are independent of the generator's history. *)
Theorem C13_trace_language : forall (G : Type) (gseed : Z -> G) (gstep : G -> G * Q) (A : Type) (pr : prog A)
  (seed : Z) (st st' : rng G),
  trace_ok seed (snd (exec gseed gstep pr st)) = true -> old_style st' = old_style st ->
  exec gseed gstep pr st' = exec gseed gstep pr st.
Proof. exact trace_language. Qed.
Print Assumptions C13_trace_language.

Theorem C13_trace_strict_ok : forall seed t, trace_strict seed t = true -> trace_ok seed t = true.
Proof. exact trace_strict_ok. Qed.
Theorem C13_trace_derived_ok : forall seed c t, trace_derived seed c t = true -> trace_ok seed t = true.
Proof. exact trace_derived_ok. Qed.

(* every old-style draw lies strictly between 0 and 1 - for EVERY seed > 0 (the repaired step
   "if (Random_value == 0) Random_value = 1" keeps the state in [1,p) whatever it starts from) *)
Theorem C13_uniform_range : forall (G : Type) (gseed : Z -> G) (gstep : G -> G * Q) (st : rng G) (s : Z) (n : nat),
  old_style st = true -> (0 < s)%Z ->
  Forall in_open01 (stream G gstep n (set_seed G gseed s st)).
Proof. exact uniform_range. Qed.
Print Assumptions C13_uniform_range.

(* ... and also without any seeding, from whatever state the generator is in *)
Theorem C13_uniform_range_any_state : forall (G : Type) (gstep : G -> G * Q) (st : rng G) (n : nat),
  old_style st = true -> Forall in_open01 (stream G gstep n st).
Proof. exact uniform_range_any. Qed.
Print Assumptions C13_uniform_range_any_state.

(* state invariant of the repaired step *)
Theorem C13_state_invariant : forall v : Z, (0 < lcg_next v < rnd_p)%Z.
Proof. exact lcg_range. Qed.
Print Assumptions C13_state_invariant.

(* on [1,p) the repair never triggers: the step is x -> 105 x mod p, which is injective there *)
Theorem C13_step_injective : forall v w : Z,
  (0 < v < rnd_p)%Z -> (0 < w < rnd_p)%Z -> lcg_next v = lcg_next w -> v = w.
Proof. exact lcg_inj. Qed.
Print Assumptions C13_step_injective.

(* regression: the step as it was before the repair froze at 0, from multiples of the modulus and -
   through the 32-bit wrap of 105*seed - from other seeds as well *)
Example C13_prefix_step_froze :
  lcg_next_prefix 20000159 = 0%Z /\ lcg_next_prefix 40000318 = 0%Z /\ lcg_next_prefix 55380756 = 0%Z /\
  (55380756 mod rnd_p <> 0)%Z /\ lcg_next_prefix 0 = 0%Z /\
  lcg_next 20000159 = 1%Z /\ lcg_next 55380756 = 1%Z /\ lcg_next 0 = 1%Z /\ lcg_next 1 = 105%Z.
Proof. vm_compute. repeat split; try reflexivity; discriminate. Qed.
Theorem C13_prefix_frozen : forall n, lcg_iter_prefix n 0 = 0%Z.
Proof. exact lcg_prefix_frozen. Qed.

(* two different seeds in [1,p[ never produce the same k-th draw *)
Theorem C13_seeds_differ : forall (G : Type) (gseed : Z -> G) (gstep : G -> G * Q) (st : rng G) (s1 s2 : Z) (n : nat),
  old_style st = true -> (0 < s1 < rnd_p)%Z -> (0 < s2 < rnd_p)%Z -> s1 <> s2 ->
  ~ (nth n (stream G gstep (S n) (set_seed G gseed s1 st)) 0 == nth n (stream G gstep (S n) (set_seed G gseed s2 st)) 0).
Proof. exact seeds_differ. Qed.
Print Assumptions C13_seeds_differ.

Theorem C13_modulus_prime : prime rnd_p.
Proof. exact rnd_p_prime. Qed.
Print Assumptions C13_modulus_prime.

(* ================================ 2. bounded gaussian draws ================================ *)
(* reals; exp/ln/sqrt of the transform are the real functions; the exponential [wexp] used for the
   interval weights and the logarithm [alog] used in the acceptance tests are ARBITRARY *)
Definition gbbR (wexp alog : R -> R) :=
  gbb R Rplus Rminus Rmult Rdiv Ropp Rltb Rleb Q2R Int_part wexp alog exp ln sqrt.
Definition gibbsR (wexp alog : R -> R) :=
  gibbs_value R Rplus Rminus Rmult Rdiv Ropp Rltb Rleb Q2R Int_part wexp alog exp ln sqrt.

(* whenever law_gaussian_between_bounds returns, the value honours every bound that is defined -
   closed, half-open or unbounded interval; the only hypothesis is binf <= bsup when both are defined *)
Theorem C13_bounded_draw : forall (wexp alog : R -> R) (binf bsup : option R) (us : list R) (x : R) (n : nat) (m : list R),
  ordered binf bsup -> Forall u_ok us ->
  gbbR wexp alog binf bsup us = GOk x n m ->
  (forall l, binf = Some l -> (l <= x)%R) /\ (forall h, bsup = Some h -> (x <= h)%R).
Proof. exact bounded_draw. Qed.
Print Assumptions C13_bounded_draw.

(* the scan "while (ptab[isim] < u) isim++" and the rank "(int)(n*u)" never leave the tables *)
Theorem C13_bounded_draw_select : forall (wexp alog : R -> R) (binf bsup : option R) (us : list R),
  Forall u_ok us -> gbbR wexp alog binf bsup us <> GOverrun.
Proof. exact no_overrun. Qed.
Print Assumptions C13_bounded_draw_select.

(* Gibbs update: new value = yk + sk * bounded draw of the standardised bounds => within the bounds *)
Theorem C13_gibbs_in_bounds : forall (wexp alog : R -> R) (yk sk : R) (vmin vmax : option R) (us : list R) (v : R) (n : nat) (m : list R),
  (0 < sk)%R -> ordered vmin vmax -> Forall u_ok us ->
  gibbsR wexp alog yk sk vmin vmax us = GOk v n m ->
  (forall l, vmin = Some l -> (l <= v)%R) /\ (forall h, vmax = Some h -> (v <= h)%R).
Proof. exact gibbs_in_bounds. Qed.
Print Assumptions C13_gibbs_in_bounds.

(* one site of the Gibbs sampler (update of GibbsUMulti / GibbsMMulti / GibbsUMultiMono): hard datum kept,
   otherwise getSimulate (bound normalisation + choice between law_gaussian and the bounded draw).
   The value lies in the interval for every generator state (any uniforms in [0,1[), any law_gaussian
   [tgauss], for each of the five kinds of bounds: free, lower only, upper only, two-sided, hard. *)
Definition siteR (wexp alog : R -> R) (tgauss : R -> R -> R) :=
  gibbs_site R Rplus Rminus Rmult Rdiv Ropp Rltb Rleb Q2R Int_part wexp alog exp ln sqrt tgauss.
Theorem C13_gibbs_site_in_interval : forall (wexp alog : R -> R) (tgauss : R -> R -> R) (yk sk : R) (vmin vmax : option R)
  (us : list R) (v : R) (n : nat) (m : list R),
  (0 < sk)%R -> ordered vmin vmax -> Forall u_ok us ->
  siteR wexp alog tgauss yk sk vmin vmax us = GOk v n m ->
  (forall l, vmin = Some l -> (l <= v)%R) /\ (forall h, vmax = Some h -> (v <= h)%R).
Proof. exact gibbs_site_in_interval. Qed.
Print Assumptions C13_gibbs_site_in_interval.

Theorem C13_gibbs_site_draws : forall (wexp alog : R -> R) (tgauss : R -> R -> R) (yk sk : R) (vmin vmax : option R)
  (us : list R) (v : R) (n : nat) (m : list R),
  siteR wexp alog tgauss yk sk vmin vmax us = GOk v n m ->
  (bounds_kind R Rminus Ropp Rltb Rleb Q2R vmin vmax = KHard -> n = 0%nat /\ vmin = Some v) /\
  (bounds_kind R Rminus Ropp Rltb Rleb Q2R vmin vmax = KFree -> n = 2%nat).
Proof. exact gibbs_site_draws. Qed.

(* ================================ 3. conditioning ================================ *)
Theorem C13_simrank_injective : forall nbsimu nvar i v c i' v' c',
  (0 <= i < nbsimu)%Z -> (0 <= i' < nbsimu)%Z -> (0 <= v < nvar)%Z -> (0 <= v' < nvar)%Z ->
  sim_rank i v c nbsimu nvar = sim_rank i' v' c' nbsimu nvar -> i = i' /\ v = v' /\ c = c'.
Proof. exact sim_rank_inj. Qed.
Print Assumptions C13_simrank_injective.

(* _difference stores (simulation - datum) at the rank of (isimu, ivar, icase) *)
Theorem C13_difference_exact : forall nbsimu nvar icase z (r : row) isimu ivar sv zv,
  (0 <= isimu < nbsimu)%Z -> (0 <= ivar < nvar)%Z -> (0 <= icase)%Z ->
  (nbsimu * nvar * (icase + 1) <= Z.of_nat (length r))%Z ->
  get_item r (sim_rank isimu ivar icase nbsimu nvar) = Some sv ->
  nth (Z.to_nat ivar) z None = Some zv ->
  get_item (difference_row nbsimu nvar icase z r) (sim_rank isimu ivar icase nbsimu nvar) = Some (sv - zv).
Proof. exact difference_exact. Qed.
Print Assumptions C13_difference_exact.

(* _simulateCalcul: where the kriging weights of variable ivar are the unit vector on datum k
   (kriging exactness at a coinciding target) and the non conditional simulation takes the same
   value at the target and at datum k, the conditional simulation equals the datum - for every
   simulation rank, variable and PGS case. *)
Theorem C13_cond_exact : forall nbsimu nvar icase (nb : list row) (wgt : list (list Q)) (target : row)
      (df : Z -> Z -> list Q) (k : nat) (isimu ivar : Z) (zk snc : Q),
  (0 <= isimu < nbsimu)%Z -> (0 <= ivar < nvar)%Z -> (0 <= icase)%Z ->
  (forall i jv, (0 <= i < nbsimu)%Z -> (0 <= jv < nvar)%Z ->
     map (fun r => get_item r (sim_rank i jv icase nbsimu nvar)) nb = map Some (df i jv) /\
     length (df i jv) = length nb) ->
  (Z.to_nat nvar * length nb <= length wgt)%nat ->
  (k < length nb)%nat ->
  (forall lec, (lec < length wgt)%nat ->
     nth (Z.to_nat ivar) (nth lec wgt []) 0 == if Nat.eqb lec (Z.to_nat ivar * length nb + k) then 1 else 0) ->
  nth k (df isimu ivar) 0 == snc - zk ->
  get_item target (sim_rank isimu ivar icase nbsimu nvar) = Some snc ->
  (nbsimu * nvar * (icase + 1) <= Z.of_nat (length target))%Z ->
  exists t' v, simulate_calcul nbsimu nvar icase nb wgt target = Some t' /\
               get_item t' (sim_rank isimu ivar icase nbsimu nvar) = Some v /\ v == zk.
Proof. exact cond_exact. Qed.
Print Assumptions C13_cond_exact.

(* --- masks: absolute sample rank vs rank among the active samples --- *)
(* index map: the active sample of absolute rank i is element (rank_active i) of a vector compressed by the selection *)
Theorem C13_index_map : forall (A : Type) (active : A -> bool) (d : A) (l : list A) (i : nat),
  (i < length l)%nat -> active (nth i l d) = true ->
  nth (rank_active active i l) (filter active l) d = nth i l d.
Proof. exact (@nth_rank_active). Qed.
Print Assumptions C13_index_map.

(* the two numberings agree exactly when no sample before i is masked *)
Theorem C13_rank_agree_iff : forall (A : Type) (active : A -> bool) (l : list A) (i : nat), (i <= length l)%nat ->
  (rank_active active i l = i <-> forallb active (firstn i l) = true).
Proof. exact (@rank_active_id). Qed.
Print Assumptions C13_rank_agree_iff.

(* a search over the compressed coordinates returns the rank among active samples of the datum found
   by _updateData2ToTarget's search over absolute ranks *)
Theorem C13_find_close_compressed : forall eps2 c data,
  find_close eps2 c (filter d_active data) 0 =
  match find_close eps2 c data 0 with
  | Some k => Some (rank_active d_active k data)
  | None => None
  end.
Proof. exact find_close_compressed0. Qed.
Print Assumptions C13_find_close_compressed.

(* _updateData2ToTarget (point output): the active target receives the value of the first ACTIVE datum
   within eps (designated by its absolute rank), for every simulation - whatever the masks *)
Theorem C13_copy_exact : forall nbsimu nvar icase eps2 data c (r : row) k isimu ivar v,
  (0 <= isimu < nbsimu)%Z -> (0 <= ivar < nvar)%Z -> (0 <= icase)%Z ->
  (nbsimu * nvar * (icase + 1) <= Z.of_nat (length r))%Z ->
  find_close eps2 c data 0 = Some k ->
  nth (Z.to_nat ivar) (d_z (nth k data no_datum)) None = Some v ->
  get_item (update_point_target nbsimu nvar icase eps2 data true c r) (sim_rank isimu ivar icase nbsimu nvar) = Some v.
Proof. exact copy_exact. Qed.
Print Assumptions C13_copy_exact.

Theorem C13_find_close_spec : forall eps2 c data k,
  find_close eps2 c data 0 = Some k <->
  (0 <= k < 0 + length data)%nat /\ is_close eps2 c (nth (k - 0) data no_datum) = true /\
  (forall j, (j < k - 0)%nat -> is_close eps2 c (nth j data no_datum) = false).
Proof. exact find_close_spec0. Qed.

Theorem C13_copy_untouched : forall nbsimu nvar icase eps2 data t_active c (r : row),
  t_active = false \/ find_close eps2 c data 0 = None ->
  update_point_target nbsimu nvar icase eps2 data t_active c r = r.
Proof. exact copy_untouched. Qed.

(* C13_cond_exact over arbitrary masks: the neighbourhood is the list of ACTIVE samples, the coinciding datum
   is designated by its absolute rank i and its unit weight sits at rank_active i *)
Theorem C13_cond_exact_masked : forall nbsimu nvar icase (act : list bool) (rows : list row) (wgt : list (list Q)) (target : row)
      (df : Z -> Z -> list Q) (i : nat) (isimu ivar : Z) (zk snc : Q),
  let all := combine act rows in
  let nb := map snd (filter fst all) in
  let k := rank_active fst i all in
  length act = length rows -> (i < length rows)%nat -> nth i act false = true ->
  (0 <= isimu < nbsimu)%Z -> (0 <= ivar < nvar)%Z -> (0 <= icase)%Z ->
  (forall s jv, (0 <= s < nbsimu)%Z -> (0 <= jv < nvar)%Z ->
     map (fun r => get_item r (sim_rank s jv icase nbsimu nvar)) nb = map Some (df s jv) /\
     length (df s jv) = length nb) ->
  (Z.to_nat nvar * length nb <= length wgt)%nat ->
  (forall lec, (lec < length wgt)%nat ->
     nth (Z.to_nat ivar) (nth lec wgt []) 0 == if Nat.eqb lec (Z.to_nat ivar * length nb + k) then 1 else 0) ->
  get_item (nth i rows []) (sim_rank isimu ivar icase nbsimu nvar) = Some (snc - zk) ->
  get_item target (sim_rank isimu ivar icase nbsimu nvar) = Some snc ->
  (nbsimu * nvar * (icase + 1) <= Z.of_nat (length target))%Z ->
  exists t' v, simulate_calcul nbsimu nvar icase nb wgt target = Some t' /\
               get_item t' (sim_rank isimu ivar icase nbsimu nvar) = Some v /\ v == zk.
Proof. exact cond_exact_masked. Qed.
Print Assumptions C13_cond_exact_masked.

(* --- the residual-kriging step on the kriging model of C01, with the exactness theorem of C02 --- *)
(* kriging the simulated errors with the weights of the system returns the error of the coinciding datum *)
Theorem C13_residual_kriging_exact : forall k o v c,
  krige k = Some o -> (v < k_nvar k)%nat -> (c < nred k)%nat ->
  (forall a, (a < nred k)%nat -> r_of o v a == A_of o a c) ->
  fdot (nred k) (w_of o v) (vget (zext k)) == vget (zext k) c.
Proof. exact residual_kriging_exact. Qed.
Print Assumptions C13_residual_kriging_exact.

(* sim_cond(x0) = sim_nc(x0) - sum_a lambda_a (sim_nc(x_a) - z_a) = z at a datum location.  One case k per simulation
   (its data: the simulated errors of that simulation), any number of variables, any drift; the datum is sample ie
   of the neighbourhood (= the ACTIVE samples), variable iv, with a defined value; undefined values of other
   samples / variables suppress their equations and shift the rank [eq_rank] of this one. *)
Theorem C13_cond_sim_exact : forall k o iv ie snc z,
  krige k = Some o -> (iv < k_nvar k)%nat -> (ie < nech k)%nat -> flag k (eq_index k iv ie) = true ->
  (forall a, (a < nred k)%nat -> r_of o iv a == A_of o a (eq_rank k iv ie)) ->
  mean_of k iv == 0 ->
  nth iv (s_z (nth_s k ie)) None = Some (snc - z) ->
  cond_value k o iv snc == z.
Proof. exact cond_sim_exact. Qed.
Print Assumptions C13_cond_sim_exact.

Theorem C13_undefined_not_active : forall k iv ie, (iv < k_nvar k)%nat -> (ie < nech k)%nat ->
  nth iv (s_z (nth_s k ie)) None = None -> flag k (eq_index k iv ie) = false.
Proof. exact undefined_not_active. Qed.

(* a masked sample is not part of the neighbourhood; the datum of absolute rank i is sample (rank_active i) of it *)
Theorem C13_masked_sample : forall (S : Type) (act : S -> bool) (all : list S) (d : S) (i : nat),
  (i < length all)%nat -> act (nth i all d) = true ->
  nth (rank_active act i all) (filter act all) d = nth i all d /\ (rank_active act i all < length (filter act all))%nat.
Proof. exact @masked_sample. Qed.

(* link between the list model of _simulateCalcul and the formula above.  PARTIAL: the layout of the centred data
   vector (defined errors in loop order, then zeros) is a hypothesis, discharged by computation on every
   correspondence case (runner kind 13) and in C13_nonvacuous_krige. *)
Theorem C13_krig_error_is_fdot_partial : forall nbsimu nvar icase (nb : list row) (wgt : list (list Q)) isimu ivar
      (df : Z -> list Q) (n : nat) (zx : list Q),
  (forall jv, In jv (zrange nvar) ->
     map (fun r => get_item r (sim_rank isimu jv icase nbsimu nvar)) nb = map Some (df jv) /\ length (df jv) = length nb) ->
  (Z.to_nat nvar * length nb <= n)%nat -> (n <= length wgt)%nat ->
  let ds := flat_map df (zrange nvar) in
  (forall a, (a < length ds)%nat -> nth a zx 0 == nth a ds 0) ->
  (forall a, (length ds <= a < n)%nat -> nth a zx 0 == 0) ->
  exists s, krig_error nbsimu nvar icase nb wgt (isimu, ivar) = Some s /\
            s == 0 - fdot n (fun a => nth (Z.to_nat ivar) (nth a wgt []) 0) (fun a => nth a zx 0).
Proof. exact krig_error_is_fdot_partial. Qed.
Print Assumptions C13_krig_error_is_fdot_partial.

(* ================================ 4. facies <-> gaussians ================================ *)
Theorem C13_facies_roundtrip : forall ext n f r y1 y2, 0 <= ext ->
  wf_node n (root_rect ext) = true -> facies_bounds ext n f = Some r ->
  strictly_inside r y1 y2 = true -> gaussian_to_facies ext n y1 y2 = f.
Proof. exact facies_roundtrip. Qed.
Print Assumptions C13_facies_roundtrip.

(* plurigaussian conditioning: the gaussians given by the Gibbs sampler to the active datum k (strictly inside the bounds
   of its observed facies f) are copied to the coinciding active target and the rule maps them back to f -
   for every well-formed rule tree, every simulation rank, every selection on the data *)
Theorem C13_pgs_facies_at_datum : forall ext n f r nbsimu icase eps2 data c (t : row) k isimu y1 y2,
  0 <= ext -> wf_node n (root_rect ext) = true -> facies_bounds ext n f = Some r ->
  (0 <= isimu < nbsimu)%Z -> (0 <= icase)%Z -> (nbsimu * 2 * (icase + 1) <= Z.of_nat (length t))%Z ->
  find_close eps2 c data 0 = Some k ->
  d_z (nth k data no_datum) = [Some y1; Some y2] ->
  strictly_inside r y1 y2 = true ->
  let t' := update_point_target nbsimu 2 icase eps2 data true c t in
  exists g1 g2, get_item t' (sim_rank isimu 0 icase nbsimu 2) = Some g1 /\
                get_item t' (sim_rank isimu 1 icase nbsimu 2) = Some g2 /\
                gaussian_to_facies ext n g1 g2 = f.
Proof. exact pgs_facies_at_datum. Qed.
Print Assumptions C13_pgs_facies_at_datum.

(* bi-plurigaussian: two rules, two pairs of gaussians (RuleShift uses the same tree on (Y1(x), Y1(x+shift)); RuleShadow is not modelled) *)
Theorem C13_bipgs_roundtrip : forall ext n1 n2 f1 f2 r1 r2 y1 y2 y3 y4,
  0 <= ext -> wf_node n1 (root_rect ext) = true -> wf_node n2 (root_rect ext) = true ->
  facies_bounds ext n1 f1 = Some r1 -> facies_bounds ext n2 f2 = Some r2 ->
  strictly_inside r1 y1 y2 = true -> strictly_inside r2 y3 y4 = true ->
  (gaussian_to_facies ext n1 y1 y2, gaussian_to_facies ext n2 y3 y4) = (f1, f2).
Proof. exact bipgs_roundtrip. Qed.

(* on a threshold the closed bounds of two facies overlap: the first visited facies wins *)
Theorem C13_facies_roundtrip_closed_refuted : exists ext n f r y1 y2,
  wf_node n (root_rect ext) = true /\ facies_bounds ext n f = Some r /\
  (t1min r <= y1 /\ y1 <= t1max r /\ t2min r <= y2 /\ y2 <= t2max r) /\
  gaussian_to_facies ext n y1 y2 <> f.
Proof.
  exists 10, (Split true 0 (Leaf 1) (Leaf 2)), 2%Z, (mkRect 0 10 (-(10)) 10), 0, 0.
  vm_compute. repeat split; try discriminate; reflexivity.
Qed.

(* ================================ non-vacuity ================================ *)
Definition ex_st : rng unit := mkRng 43241421 true tt.
Definition ex_gseed (_ : Z) := tt.
Definition ex_gstep (_ : unit) := (tt, 1 # 2).

(* stream_of_seed / reproducible: two different histories, same seed, same 5 draws; and a client that
   draws before seeding is history dependent *)
Example C13_nonvacuous_rng :
  let a := ex_st in
  let b := fst (uniform01 unit ex_gstep (set_seed unit ex_gseed 77 ex_st)) in
  rv a <> rv b /\
  stream unit ex_gstep 5 (set_seed unit ex_gseed 1234 a) = stream unit ex_gstep 5 (set_seed unit ex_gseed 1234 b) /\
  stream unit ex_gstep 5 (set_seed unit ex_gseed 1234 a) =
    [129570 # 20000159; 13604850 # 20000159; 8497961 # 20000159; 12278909 # 20000159; 9275269 # 20000159] /\
  fst (exec ex_gseed ex_gstep (Draw (fun u => Ret u)) a) <> fst (exec ex_gseed ex_gstep (Draw (fun u => Ret u)) b) /\
  trace_ok 1234 (snd (exec ex_gseed ex_gstep (SetS 1234 (Draw (fun u => GetS (fun v => SetS v (Ret u))))) a)) = true /\
  trace_derived 1234 [] (snd (exec ex_gseed ex_gstep (SetS 1234 (Draw (fun u => GetS (fun v => SetS v (Ret u))))) a)) = true /\
  trace_ok 1234 (snd (exec ex_gseed ex_gstep (Draw (fun u => SetS 1234 (Ret u))) a)) = false.
Proof. vm_compute. repeat split; try reflexivity; discriminate. Qed.

Example C13_nonvacuous_range :
  (1234 mod rnd_p <> 0)%Z /\ lcg_next 1234 = 129570%Z /\
  lcg_next 2147483647 = 7466530%Z /\ (105 * 2147483647 >= two32)%Z /\
  lcg_next 1 <> lcg_next 1234 /\ lcg_next 20000158 <> lcg_next 1234.
Proof. vm_compute. repeat split; try discriminate; try reflexivity. Qed.

(* bounded draw, real instance: the degenerate interval [1,1] (weights 0, one uniform) *)
Example C13_nonvacuous_bounded : forall wexp alog : R -> R,
  exists m, gbbR wexp alog (Some 1%R) (Some 1%R) [(/ 2)%R] = GOk 1%R 1 m /\ u_ok (/ 2)%R.
Proof. exact degenerate_interval_example. Qed.
(* half-open bounds: (undefined, -25) is drawn in [-45, -25] *)
Example C13_nonvacuous_half_open :
  gbb_bounds R Rplus Rminus Ropp Rltb Q2R None (Some (-25)%R) = ((-25 - 20)%R, (-25)%R) /\ ordered None (Some (-25)%R).
Proof. exact bounds_open_example. Qed.

(* conditioning: 2 simulations, 2 variables, 2 data, target on datum 1 for variable 1 *)
Example C13_nonvacuous_cond :
  let nb : list row := [[Some (1#2); Some 3; Some (-(1)); Some 0]; [Some 2; Some (5#2); Some 7; Some (-(3))]] in
  let wgt : list (list Q) := [[1#3; 0]; [2#3; 0]; [1#5; 0]; [-(1#5); 1]] in
  let target : row := [Some 10; Some 20; Some 30; Some 40] in
  (* variable 1 (second column of wgt) has unit weight on lec = 1*2 + 1 = 3, i.e. (jvar 1, datum 1) *)
  match simulate_calcul 2 2 0 nb wgt target with
  | Some t => option_map Qred (get_item t (sim_rank 0 1 0 2 2)) = Some 23 /\ option_map Qred (get_item t (sim_rank 1 1 0 2 2)) = Some 43
  | None => False
  end /\
  sim_rank 1 1 0 2 2 = 3%Z /\ sim_rank 0 1 0 2 2 = 2%Z /\
  map (option_map Qred) (difference_row 2 1 0 [Some 4] [Some 10; Some 6]) = [Some 6; Some 2].
Proof. vm_compute. repeat split; reflexivity. Qed.

(* rule S(T(F1,F2),F3) with thresholds -1/2 (Y1) and 1/4 (Y2) *)
Example C13_nonvacuous_rule :
  let n := Split true (-(1#2)) (Split false (1#4) (Leaf 1) (Leaf 2)) (Leaf 3) in
  wf_node n (root_rect 10) = true /\
  facies_bounds 10 n 2 = Some (mkRect (-(10)) (-(1#2)) (1#4) 10) /\
  strictly_inside (mkRect (-(10)) (-(1#2)) (1#4) 10) (-(2)) 1 = true /\
  gaussian_to_facies 10 n (-(2)) 1 = 2%Z /\ gaussian_to_facies 10 n 0 0 = 3%Z /\
  gaussian_to_facies 10 n (-(1#2)) 0 = 1%Z.
Proof. vm_compute. repeat split; reflexivity. Qed.

(* masks: first datum masked, target on the third datum.  Absolute rank 2, rank among active samples 1:
   reading the data with the compressed rank would copy the value of datum 1 (7) instead of datum 2 (9) *)
Example C13_nonvacuous_masks :
  let data := [mkDatum false [0; 0] [Some 5]; mkDatum true [1; 0] [Some 7]; mkDatum true [2; 0] [Some 9]] in
  find_close (1 # 1000) [2; 0] data 0 = Some 2%nat /\
  find_close (1 # 1000) [2; 0] (filter d_active data) 0 = Some 1%nat /\
  rank_active d_active 2 data = 1%nat /\
  update_point_target 2 1 0 (1 # 1000) data true [2; 0] [Some 100; Some 200] = [Some 9; Some 9] /\
  update_point_target 2 1 0 (1 # 1000) data true [0; 0] [Some 100; Some 200] = [Some 100; Some 200] /\
  update_point_target 2 1 0 (1 # 1000) data false [2; 0] [Some 100; Some 200] = [Some 100; Some 200].
Proof. vm_compute. repeat split; reflexivity. Qed.

(* the five kinds of bounds, on the rational instance *)
Example C13_nonvacuous_kinds :
  let kind := bounds_kind Q Qminus Qopp qltb qleb (fun q => q) in
  kind None None = KFree /\ kind (Some (1#2)) None = KLower /\ kind None (Some (-(3))) = KUpper /\
  kind (Some (-(1))) (Some 2) = KTwo /\ kind (Some (7#4)) (Some (7#4)) = KHard /\
  gibbs_site Q Qplus Qminus Qmult Qdiv Qopp qltb qleb (fun q => q) Qfloor (fun x => x) (fun x => x) (fun x => x) (fun x => x) (fun x => x)
             (fun a b => a + b) (1#3) 2 (Some (7#4)) (Some (7#4)) [] = GOk (7#4) 0 [] /\
  gibbs_site Q Qplus Qminus Qmult Qdiv Qopp qltb qleb (fun q => q) Qfloor (fun x => x) (fun x => x) (fun x => x) (fun x => x) (fun x => x)
             (fun a b => a + b) 1 2 None None [1#4; 1#2] = GOk (1 + 2 * ((1#4) + (1#2))) 2 [].
Proof. vm_compute. repeat split; reflexivity. Qed.

(* residual kriging on a concrete ordinary-kriging case: three samples, the second one undefined (its equation is
   suppressed: the datum of sample 2 has rank 1 in the system), target on sample 2.  Simulated errors 10-7 and 6-5. *)
Definition ex_krige : kcase :=
  let m (a : Q) : mat := [[a]] in
  {| k_nvar := 1; k_monos := [[]]; k_nfex := 0;
     k_samples := [ {| s_coord := [Some 0]; s_z := [Some (10 - 7)]; s_verr := []; s_fext := [] |};
                    {| s_coord := [Some 1]; s_z := [None]; s_verr := []; s_fext := [] |};
                    {| s_coord := [Some 3]; s_z := [Some (6 - 5)]; s_verr := []; s_fext := [] |} ];
     k_means := [0]; k_tcoord := [3]; k_tfext := []; k_flag_verr := false;
     k_clhs := [ [m 4]; [m 2; m 4]; [m (1#2); m 1; m 4] ];
     k_crhs := [ [m (1#2)]; [m 1]; [m 4] ];
     k_c00 := m 4 |}.
Example C13_nonvacuous_krige :
  match krige ex_krige with
  | Some o => flag ex_krige (eq_index ex_krige 0%nat 1%nat) = false /\ flag ex_krige (eq_index ex_krige 0%nat 2%nat) = true /\
              eq_rank ex_krige 0%nat 2%nat = 1%nat /\ nred ex_krige = 3%nat /\
              forallb (fun a => qeqb (r_of o O a) (A_of o a 1%nat)) (seq 0 3) = true /\
              qeqb (mean_of ex_krige 0%nat) 0 = true /\
              qeqb (cond_value ex_krige o 0%nat 6) 5 = true /\
              map Qred (zext ex_krige) = [3; 1; 0]
  | None => False
  end.
Proof. vm_compute. repeat split; reflexivity. Qed.

(* PGS conditioning: first datum masked, target on the third datum whose gaussians (-2, 1) lie in facies 2 of S(T(F1,F2),F3) *)
Example C13_nonvacuous_pgs :
  let n := Split true (-(1#2)) (Split false (1#4) (Leaf 1) (Leaf 2)) (Leaf 3) in
  let data := [mkDatum false [0; 0] [Some 5; Some 5]; mkDatum true [1; 0] [Some 3; Some 0]; mkDatum true [2; 0] [Some (-(2)); Some 1]] in
  let t' := update_point_target 2 2 0 (1 # 1000) data true [2; 0] [Some 9; Some 9; Some 9; Some 9] in
  find_close (1 # 1000) [2; 0] data 0 = Some 2%nat /\
  t' = [Some (-(2)); Some (-(2)); Some 1; Some 1] /\
  gaussian_to_facies 10 n (-(2)) 1 = 2%Z /\ gaussian_to_facies 10 n 3 0 = 3%Z.
Proof. vm_compute. repeat split; reflexivity. Qed.

(* C13 model: executable mirror of
     law_set_random_seed / law_get_random_seed / law_uniform / law_int_uniform   /repo/src/Basic/Law.cpp:50-123
     law_gaussian_between_bounds                                                 Law.cpp:568-718
     GibbsMulti::getSimulate / GibbsMultiMono::getSimulate (final affine step)   src/Gibbs/GibbsMulti.cpp:118, GibbsMultiMono.cpp:118
     Db::getSimRank                                                              src/Db/Db.cpp:4522
     CalcSimuTurningBands::_difference (standard case)                           src/Simulation/CalcSimuTurningBands.cpp:1621
     KrigingSystem::_simulateCalcul (status = 0, no Bayes)                       src/Estimation/KrigingSystem.cpp:1210
     Node::proportionToThresh (propagation of rectangles) / getThresh / gaussianToFacies   src/LithoRule/Node.cpp:514,565,729
   Integers as Z, reals as Q (or an abstract number type for the bounded draw). No proofs here. *)
From Coq Require Import List ZArith QArith Qabs Qminmax Qround Bool.
From Gst Require Import lib.QAux.
Import ListNotations.
Local Open Scope Z_scope.

(* ------------------------------------------------------------------------------------------ *)
(* 1. Random number generator                                                                  *)
(* ------------------------------------------------------------------------------------------ *)

Definition rnd_factor : Z := 105.           (* Law.cpp:20 static int Random_factor    *)
Definition rnd_p      : Z := 20000159.      (* Law.cpp:21 static int Random_congruent *)
Definition rnd_init   : Z := 43241421.      (* Law.cpp:22 static int Random_value     *)
Definition two32 : Z := 4294967296.
Definition two31 : Z := 2147483648.

(* int * int evaluated in 32-bit two's complement (what gcc emits; formally UB on overflow) *)
Definition wrap_int (z : Z) : Z := (z + two31) mod two32 - two31.
(* conversion int -> unsigned int *)
Definition to_unsigned (z : Z) : Z := z mod two32.

(* One old-style step of law_uniform, Law.cpp:
     unsigned int random_product = Random_factor * Random_value;
     Random_value = random_product % Random_congruent;
     if (Random_value == 0) Random_value = 1;     (a state 0 would freeze the generator)      *)
Definition lcg_raw (v : Z) : Z := to_unsigned (wrap_int (rnd_factor * v)) mod rnd_p.
Definition lcg_next (v : Z) : Z := let r := lcg_raw v in if r =? 0 then 1 else r.
(* the step as it was before the repair (kept for the regression examples only) *)
Definition lcg_next_prefix (v : Z) : Z := lcg_raw v.

(* A client of the generator: a deterministic program whose only inputs are the values it reads
   from the generator (draws, law_get_random_seed) - the interaction of a simulator with Law.cpp *)
Inductive prog (A : Type) : Type :=
| Ret (a : A)
| Draw (k : Q -> prog A)
| GetS (k : Z -> prog A)
| SetS (s : Z) (k : prog A).
Arguments Ret {A} _. Arguments Draw {A} _. Arguments GetS {A} _. Arguments SetS {A} _ _.

Inductive event := ESet (s : Z) | EDraw | EGet (v : Z).

(* The std::mt19937 engine used when Random_Old_Style is false is a black box: a state type with
   a seeding function and a step that returns the number drawn.  Only "the engine state is a
   function of the seed" is used. *)
Section RNG.
Variable G : Type.
Variable gseed : Z -> G.              (* Random_gen.seed((unsigned) seed) *)
Variable gstep : G -> G * Q.          (* one draw of uniform_real_distribution(0,1) *)

Record rng := mkRng { rv : Z; old_style : bool; gen : G }.

(* law_set_random_seed, Law.cpp:63 : nothing happens for seed <= 0 *)
Definition set_seed (seed : Z) (st : rng) : rng :=
  if 0 <? seed then
    mkRng seed (old_style st) (if old_style st then gen st else gseed (to_unsigned seed))
  else st.

(* law_get_random_seed, Law.cpp:50 *)
Definition get_seed (st : rng) : Z := rv st.

(* law_uniform(0,1), Law.cpp:83 : returns the new state and the value in [0,1] *)
Definition uniform01 (st : rng) : rng * Q :=
  if old_style st then
    let v := lcg_next (rv st) in
    (mkRng v true (gen st), Qmake v (Z.to_pos rnd_p))
  else
    let (g, u) := gstep (gen st) in (mkRng (rv st) false g, u).

(* law_uniform(mini, maxi) : value = mini + value * (maxi - mini) *)
Definition uniform (mini maxi : Q) (st : rng) : rng * Q :=
  let (st', u) := uniform01 st in (st', (mini + u * (maxi - mini))%Q).

(* law_int_uniform, Law.cpp:114 : rank = floor(law_uniform(0, number)) + mini *)
Definition int_uniform (mini maxi : Z) (st : rng) : rng * Z :=
  let number := maxi - mini + 1 in
  let (st', r) := uniform 0 (inject_Z number) st in
  (st', Qfloor r + mini).

(* n successive values of law_uniform(0,1) *)
Fixpoint stream (n : nat) (st : rng) : list Q :=
  match n with
  | O => []
  | S k => let (st', u) := uniform01 st in u :: stream k st'
  end.

(* result and trace of events of a program started in state st *)
Fixpoint exec {A} (pr : prog A) (st : rng) : A * list event :=
  match pr with
  | Ret a => (a, [])
  | Draw k => let (st', u) := uniform01 st in
              let (a, t) := exec (k u) st' in (a, EDraw :: t)
  | GetS k => let (a, t) := exec (k (get_seed st)) st in (a, EGet (get_seed st) :: t)
  | SetS s k => let (a, t) := exec k (set_seed s st) in (a, ESet s :: t)
  end.
End RNG.
Arguments exec {G} gseed gstep {A} pr st.
Arguments rv {G} r. Arguments old_style {G} r. Arguments gen {G} r. Arguments mkRng {G} _ _ _.
Arguments get_seed {G} st.

(* Seed discipline as a trace language (decided on the traces recorded by the hook):
   the first event is SetSeed(seed) with the seed argument of the entry point, seed > 0;
   what follows is free (draws, reads of the state, re-seeding from values read or constants). *)
Definition trace_ok (seed : Z) (t : list event) : bool :=
  match t with
  | ESet s :: _ => (0 <? seed) && (s =? seed)
  | _ => false
  end.
(* strict form for entry points that are specified to seed once: SetSeed(seed) . Draw^* *)
Fixpoint all_draws (t : list event) : bool :=
  match t with [] => true | EDraw :: r => all_draws r | _ => false end.
Definition trace_strict (seed : Z) (t : list event) : bool :=
  match t with
  | ESet s :: r => (0 <? seed) && (s =? seed) && all_draws r
  | _ => false
  end.
(* every later SetSeed re-installs the entry seed, a positive value read earlier from the generator
   in the same trace (save/restore, per-band seeds), or is a no-op (value <= 0) *)
Fixpoint derived_ok (known : list Z) (t : list event) : bool :=
  match t with
  | [] => true
  | ESet s :: r => ((s <=? 0) || existsb (Z.eqb s) known) && derived_ok known r
  | EGet v :: r => derived_ok (v :: known) r
  | EDraw :: r => derived_ok known r
  end.
Definition trace_derived (seed : Z) (consts : list Z) (t : list event) : bool :=
  match t with
  | ESet s :: r => (0 <? seed) && (s =? seed) && derived_ok (seed :: consts) r
  | _ => false
  end.

(* ------------------------------------------------------------------------------------------ *)
(* 2. law_gaussian_between_bounds over an abstract number type                                 *)
(* ------------------------------------------------------------------------------------------ *)
(* One definition, two instances: reals (Proofs: true exp/ln/sqrt) and rationals with ~120-bit
   approximations of exp/ln/sqrt (Run.v, compared with the C++ on every run).
   [wexp] is the exponential used for the weights, [alog] the logarithm used in the acceptance
   tests; they are separate parameters because the safety theorem holds for ANY such functions. *)
Section GBB.
Variable T : Type.
Variables (tadd tsub tmul tdiv : T -> T -> T) (topp : T -> T).
Variables (tltb tleb : T -> T -> bool).
Variable tofQ : Q -> T.
Variable tfloor : T -> Z.
Variables (wexp alog texp tlog tsqrt : T -> T).

Local Notation "x +! y" := (tadd x y) (at level 50, left associativity).
Local Notation "x -! y" := (tsub x y) (at level 50, left associativity).
Local Notation "x *! y" := (tmul x y) (at level 40, left associativity).
Local Notation "x /! y" := (tdiv x y) (at level 40, left associativity).

Definition t0 : T := tofQ 0.
Definition t1 : T := tofQ 1.
Definition t2 : T := tofQ 2.
Definition g_seuil : T := tofQ 2.                        (* Law.cpp:573 *)
Definition g_large : T := tofQ 20.                       (* Law.cpp:574 *)
Definition g_sqe   : T := tofQ (16487212707 # 10000000000).   (* Law.cpp:575 *)

Definition tmin (x y : T) : T := if tltb x y then x else y.          (* MIN macro, geoslib_define.h:71 *)
Definition tabs (x : T) : T := if tltb x t0 then topp x else x.      (* ABS macro, geoslib_define.h:73 *)

Definition tab_entry := (T * T * Z)%type.   (* atab[k], btab[k], itab[k] *)

(* Law.cpp:581-613 : split [a,b] at -seuil, 0, +seuil *)
Definition gbb_split (a b : T) : list tab_entry :=
  let ms := topp g_seuil in
  let '(l1, aa1, stop1) :=
    if tltb a ms then ([(a, tmin b ms, 1)], ms, tleb b ms) else ([], a, false) in
  if stop1 then l1 else
  let '(l2, aa2, stop2) :=
    if tltb aa1 t0 then (l1 ++ [(aa1, tmin b t0, 2)], t0, tleb b t0) else (l1, aa1, false) in
  if stop2 then l2 else
  let '(l3, aa3, stop3) :=
    if tltb aa2 g_seuil then (l2 ++ [(aa2, tmin b g_seuil, 3)], g_seuil, tleb b g_seuil) else (l2, aa2, false) in
  if stop3 then l3 else l3 ++ [(aa3, b, 4)].

(* Law.cpp:618-641 : weight of one interval *)
Definition gbb_wgt (e : tab_entry) : T :=
  let '(aa, bb, ty) := e in
  if tltb t0 (tabs (aa -! bb)) then
    if ty =? 1 then (wexp (topp aa *! aa /! t2) -! wexp (topp bb *! bb /! t2)) /! bb
    else if ty =? 2 then g_sqe *! (wexp bb -! wexp aa)
    else if ty =? 3 then g_sqe *! (wexp (topp aa) -! wexp (topp bb))
    else if ty =? 4 then (wexp (topp aa *! aa /! t2) -! wexp (topp bb *! bb /! t2)) /! aa
    else t0
  else t0.

(* cumulated weights ptab[k] (before normalisation) *)
Fixpoint cumul (acc : T) (l : list tab_entry) : list T :=
  match l with
  | [] => []
  | e :: r => let acc' := acc +! gbb_wgt e in acc' :: cumul acc' r
  end.

(* Law.cpp:662 : while (ptab[isim] < u) isim++;   None = the scan leaves the table *)
Fixpoint gbb_scan (ptab : list T) (u : T) (i : nat) : option nat :=
  match ptab with
  | [] => None
  | pk :: r => if tltb pk u then gbb_scan r u (S i) else Some i
  end.

(* Law.cpp:673-693 : value simulated in the interval *)
Definition gbb_transform (ty : Z) (aa bb u : T) : T :=
  let a2 := aa *! aa in
  let b2 := bb *! bb in
  if ty =? 1 then
    let c2 := t1 -! texp ((b2 -! a2) /! t2) in
    topp (tsqrt (b2 -! t2 *! tlog (t1 -! u *! c2)))
  else if ty =? 2 then tlog (texp aa *! (t1 -! u) +! texp bb *! u)
  else if ty =? 3 then topp (tlog (texp (topp aa) *! (t1 -! u) +! texp (topp bb) *! u))
  else if ty =? 4 then
    let c2 := t1 -! texp ((a2 -! b2) /! t2) in
    tsqrt (a2 -! t2 *! tlog (t1 -! u *! c2))
  else t0.

(* Law.cpp:697-715 : acceptance test; returns the decision and its margin (lhs - rhs) *)
Definition gbb_accept (ty : Z) (aa bb x u : T) : bool * T :=
  if ty =? 1 then (tleb bb (x *! u), x *! u -! bb)
  else if ty =? 2 then
    let r := topp (x +! t1) *! (x +! t1) /! t2 in (tleb (alog u) r, alog u -! r)
  else if ty =? 3 then
    let r := topp (x -! t1) *! (x -! t1) /! t2 in (tleb (alog u) r, alog u -! r)
  else if ty =? 4 then (tleb (x *! u) aa, x *! u -! aa)
  else (false, t0).

Inductive gbb_result :=
| GOk (x : T) (ndraw : nat) (margins : list T)   (* value returned, number of uniforms consumed *)
| GExhausted                                     (* the given stream of uniforms is too short *)
| GOverrun.                                      (* the C code would index outside a table *)

(* Law.cpp:657-716 : acceptance / rejection loop; three uniforms per iteration *)
Fixpoint gbb_loop (tab : list tab_entry) (ptab : list T) (us : list T) (nd : nat) (mg : list T) : gbb_result :=
  match us with
  | u1 :: u2 :: u3 :: rest =>
      match gbb_scan ptab u1 0 with
      | None => GOverrun
      | Some isim =>
          match nth_error tab isim, nth_error ptab isim with
          | Some (aa, bb, ty), Some pk =>
              let x := gbb_transform ty aa bb u2 in
              let (ok, m) := gbb_accept ty aa bb x u3 in
              let mg' := m :: (pk -! u1) :: mg in
              if ok then GOk x (nd + 3) mg' else gbb_loop tab ptab rest (nd + 3) mg'
          | _, _ => GOverrun
          end
      end
  | _ => GExhausted
  end.

(* Law.cpp: effective bounds. An undefined bound (None = TEST) is replaced by -large / +large, kept at
   least [large] beyond the defined one:
     a = FFFF(binf) ? -large : binf;  b = FFFF(bsup) ? large : bsup;
     if (FFFF(binf) && !FFFF(bsup) && a > b - large) a = b - large;
     if (FFFF(bsup) && !FFFF(binf) && b < a + large) b = a + large;                          *)
Definition gbb_bounds (binf bsup : option T) : T * T :=
  let a0 := match binf with None => topp g_large | Some v => v end in
  let b0 := match bsup with None => g_large | Some v => v end in
  let a := match binf, bsup with
           | None, Some _ => if tltb (b0 -! g_large) a0 then b0 -! g_large else a0
           | _, _ => a0
           end in
  let b := match bsup, binf with
           | None, Some _ => if tltb b0 (a +! g_large) then a +! g_large else b0
           | _, _ => b0
           end in
  (a, b).

(* law_gaussian_between_bounds once the effective bounds a, b are known *)
Definition gbb_core (a b : T) (us : list T) : gbb_result :=
  let tab := gbb_split a b in
  let cum := cumul t0 tab in
  let total := last cum t0 in
  if tleb total t0 then
    (* rank = (int) (n * law_uniform(0,1)); x = atab[rank] *)
    match us with
    | [] => GExhausted
    | u :: _ =>
        let rank := tfloor (tofQ (inject_Z (Z.of_nat (length tab))) *! u) in
        if rank <? 0 then GOverrun else
        match nth_error tab (Z.to_nat rank) with
        | Some (aa, _, _) => GOk aa 1 []
        | None => GOverrun
        end
    end
  else
    let ptab := map (fun c => c /! total) cum in
    gbb_loop tab ptab us 0 [].

(* law_gaussian_between_bounds(binf, bsup) *)
Definition gbb (binf bsup : option T) (us : list T) : gbb_result :=
  let (a, b) := gbb_bounds binf bsup in gbb_core a b us.

(* Final step of GibbsMulti::getSimulate (GibbsMulti.cpp:147-155): the bounds are standardised,
   the bounded draw is scaled back.  (The case "both bounds undefined" draws law_gaussian and is
   not constrained; it is not modelled.) *)
Definition gibbs_bounds (yk sk : T) (vmin vmax : option T) : option T * option T :=
  (option_map (fun v => (v -! yk) /! sk) vmin, option_map (fun v => (v -! yk) /! sk) vmax).
Definition gibbs_value (yk sk : T) (vmin vmax : option T) (us : list T) : gbb_result :=
  let (lo, hi) := gibbs_bounds yk sk vmin vmax in
  match gbb lo hi us with
  | GOk x n m => GOk (yk +! sk *! x) n m
  | r => r
  end.
End GBB.
Arguments GOk {T} _ _ _. Arguments GExhausted {T}. Arguments GOverrun {T}.

(* One site of the Gibbs sampler (GibbsUMulti::update / GibbsMMulti::update / GibbsUMultiMono::update):
     if (!_isConstraintTight(icase, iact, &valsim)) valsim = getSimulate(y, yk, sqrt(vk), ...);
   with the five kinds of bounds of a sample: free, lower only, upper only, two-sided, hard datum (L = U). *)
Inductive bkind := KFree | KLower | KUpper | KTwo | KHard.
Section GIBBS.
Variable T : Type.
Variables (tadd tsub tmul tdiv : T -> T -> T) (topp : T -> T).
Variables (tltb tleb : T -> T -> bool).
Variable tofQ : Q -> T.
Variable tfloor : T -> Z.
Variables (wexp alog texp tlog tsqrt : T -> T).
Variable tgauss : T -> T -> T.     (* old-style law_gaussian(0,1) as a function of its two uniforms (Law.cpp:142-145) *)

(* AGibbs::_isConstraintTight (AGibbs.cpp:456): both bounds defined and isEqual(vmin, vmax), i.e. |vmin - vmax| <= 1e-10 *)
Definition constraint_tight (vmin vmax : option T) : option T :=
  match vmin, vmax with
  | Some a, Some b => if tleb (tabs T topp tltb tofQ (tsub a b)) (tofQ (1 # 10000000000)) then Some a else None
  | _, _ => None
  end.

Definition bounds_kind (vmin vmax : option T) : bkind :=
  match vmin, vmax with
  | None, None => KFree
  | Some _, None => KLower
  | None, Some _ => KUpper
  | Some _, Some _ => match constraint_tight vmin vmax with Some _ => KHard | None => KTwo end
  end.

(* GibbsMulti::getSimulate (GibbsMulti.cpp:118-156), GibbsMultiMono::getSimulate for the first variable:
     if (!FFFF(vmin)) vmin = (vmin - yk) / sk;   if (!FFFF(vmax)) vmax = (vmax - yk) / sk;
     if (FFFF(vmin) && FFFF(vmax)) value = yk + sk * law_gaussian();
     else                          value = yk + sk * law_gaussian_between_bounds(vmin, vmax);           *)
Definition get_simulate (yk sk : T) (vmin vmax : option T) (us : list T) : gbb_result T :=
  match vmin, vmax with
  | None, None =>
      match us with
      | u1 :: u2 :: _ => GOk (tadd yk (tmul sk (tgauss u1 u2))) 2 []
      | _ => GExhausted
      end
  | _, _ => gibbs_value T tadd tsub tmul tdiv topp tltb tleb tofQ tfloor wexp alog texp tlog tsqrt yk sk vmin vmax us
  end.

Definition gibbs_site (yk sk : T) (vmin vmax : option T) (us : list T) : gbb_result T :=
  match constraint_tight vmin vmax with
  | Some v => GOk v 0 []
  | None => get_simulate yk sk vmin vmax us
  end.
End GIBBS.

(* Rational approximations of exp, ln, sqrt (about 120 significant bits) for the executable
   instance.  Their accuracy is not part of any theorem: the theorems are about the real instance;
   these only have to be as good as libm for the correspondence run. *)
Definition q_prec : Z := 120.
Definition qrnd (x : Q) : Q :=
  let n := Qnum x in let d := Zpos (Qden x) in
  if n =? 0 then 0%Q else
  let e := Z.log2 (Z.abs n) - Z.log2 d in
  let s := q_prec - e in
  if 0 <=? s then Qmake ((n * 2 ^ s) / d) (Z.to_pos (2 ^ s))
  else inject_Z (((n / d) / 2 ^ (- s)) * 2 ^ (- s)).
Definition qmulr (x y : Q) : Q := qrnd (x * y)%Q.
Definition qaddr (x y : Q) : Q := qrnd (x + y)%Q.
Definition qdivr (x y : Q) : Q := qrnd (x / y)%Q.

Fixpoint exp_taylor (n : nat) (i : Z) (r term acc : Q) : Q :=
  match n with
  | O => acc
  | S k => let term' := qrnd (term * r / inject_Z i)%Q in exp_taylor k (i + 1) r term' (qaddr acc term')
  end.
Fixpoint sq_times (n : nat) (x : Q) : Q :=
  match n with O => x | S k => sq_times k (qmulr x x) end.
Definition qexp (x : Q) : Q :=
  if Qle_bool x (-(100000#1))%Q then 0%Q else
  let ax := Qabs x in
  let k := Z.to_nat (Z.max 0 (Z.log2_up (Qceiling ax + 1) + 1)) in
  let r := qrnd (x / inject_Z (2 ^ Z.of_nat k))%Q in
  sq_times k (exp_taylor 34 1 r 1%Q 1%Q).

Fixpoint atanh_series (n : nat) (i : Z) (t2 pw acc : Q) : Q :=
  match n with
  | O => acc
  | S k => let pw' := qmulr pw t2 in atanh_series k (i + 2) t2 pw' (qaddr acc (qrnd (pw' / inject_Z (i + 2))%Q))
  end.
(* ln z for z in [1/2, 2] : 2 atanh((z-1)/(z+1)) *)
Definition qlog_core (z : Q) : Q :=
  let t := qrnd ((z - 1) / (z + 1))%Q in
  qrnd (2 * atanh_series 45 1 (qmulr t t) t t)%Q.
Definition q_ln2 : Q := qlog_core 2%Q.
Definition qlog (y : Q) : Q :=
  if Qle_bool y 0%Q then 0%Q else
  let m := Z.log2 (Qnum y) - Z.log2 (Zpos (Qden y)) in
  let z := if 0 <=? m then (y / inject_Z (2 ^ m))%Q else (y * inject_Z (2 ^ (- m)))%Q in
  qaddr (qrnd (inject_Z m * q_ln2)%Q) (qlog_core z).
Definition qsqrt (y : Q) : Q :=
  if Qle_bool y 0%Q then 0%Q else
  let n := Qnum y in let d := Zpos (Qden y) in
  qrnd (Qmake (Z.sqrt (n * d * 4 ^ q_prec)) (Z.to_pos (d * 2 ^ q_prec))).

(* ------------------------------------------------------------------------------------------ *)
(* 3. Conditioning by kriging of the simulated error                                           *)
(* ------------------------------------------------------------------------------------------ *)
(* Db::getSimRank, Db.cpp:4522 *)
Definition sim_rank (isimu ivar icase nbsimu nvar : Z) : Z := isimu + nbsimu * (ivar + nvar * icase).

(* the values of one sample for the items of a locator (ELoc::SIMU): None = TEST *)
Definition row := list (option Q).
Definition get_item (r : row) (item : Z) : option Q :=
  if item <? 0 then None else nth (Z.to_nat item) r None.
Fixpoint set_nth {A} (n : nat) (v : A) (l : list A) : list A :=
  match n, l with
  | _, [] => []
  | O, _ :: r => v :: r
  | S k, x :: r => x :: set_nth k v r
  end.
Definition set_item (r : row) (item : Z) (v : option Q) : row :=
  if item <? 0 then r else set_nth (Z.to_nat item) v r.

Definition zrange (n : Z) : list Z := map Z.of_nat (seq 0 (Z.to_nat n)).

(* the (isimu, ivar) pairs in the order of the loops "for isimu / for ivar" (ecr = ivar + nvar*isimu) *)
Definition sim_pairs (nbsimu nvar : Z) : list (Z * Z) :=
  map (fun e => (e / nvar, e mod nvar)) (zrange (nbsimu * nvar)).
(* the (ivar, isimu) pairs in the order of the loops "for ivar / for isimu" *)
Definition var_pairs (nbsimu nvar : Z) : list (Z * Z) :=
  map (fun e => (e mod nbsimu, e / nbsimu)) (zrange (nbsimu * nvar)).

(* successive in-place updates row[item p] := g p (row[item p]) *)
Definition pw_update {P} (item : P -> Z) (g : P -> option Q -> option Q) (ps : list P) (t : row) : row :=
  fold_left (fun t p => set_item t (item p) (g p (get_item t (item p)))) ps t.

(* CalcSimuTurningBands::_difference, standard case (CalcSimuTurningBands.cpp:1643-1678), one
   active sample: the non conditional simulation at the datum becomes (simulation - datum). *)
Definition difference_row (nbsimu nvar icase : Z) (z : list (option Q)) (r : row) : row :=
  pw_update (fun p => sim_rank (fst p) (snd p) icase nbsimu nvar)
            (fun p simval => match nth (Z.to_nat (snd p)) z None, simval with
                             | Some zv, Some sv => Some (sv - zv)%Q
                             | _, _ => None
                             end)
            (var_pairs nbsimu nvar) r.

(* KrigingSystem::_simulateCalcul (KrigingSystem.cpp:1210-1251), status = 0, no Bayes.
   [nb] : SIMU rows of the neighbouring data in the order of _nbgh; [wgt] : _wgt as rows (lec) of
   columns (ivar).  lec advances only on defined differences.  None = _wgt indexed out of range. *)
Fixpoint sc_scan (nb : list row) (item : Z) (ivar : nat) (w : list (list Q)) (simu : Q)
  : option (Q * list (list Q)) :=
  match nb with
  | [] => Some (simu, w)
  | r :: nb' =>
      match get_item r item with
      | None => sc_scan nb' item ivar w simu
      | Some diff =>
          match w with
          | [] => None
          | wl :: w' => sc_scan nb' item ivar w' (simu - nth ivar wl 0 * diff)%Q
          end
      end
  end.
Fixpoint sc_vars (jvars : list Z) (nb : list row) (isimu icase nbsimu nvar : Z) (ivar : nat)
         (w : list (list Q)) (simu : Q) : option Q :=
  match jvars with
  | [] => Some simu
  | jvar :: rest =>
      match sc_scan nb (sim_rank isimu jvar icase nbsimu nvar) ivar w simu with
      | None => None
      | Some (simu', w') => sc_vars rest nb isimu icase nbsimu nvar ivar w' simu'
      end
  end.
(* modifyOperator(EOperator::ADD, old, value), Utilities.cpp:1053 *)
Definition op_add (old v : option Q) : option Q :=
  match old, v with Some a, Some b => Some (b + a)%Q | _, _ => None end.

(* the kriged correction "simu" of one (isimu, ivar) *)
Definition krig_error (nbsimu nvar icase : Z) (nb : list row) (wgt : list (list Q)) (p : Z * Z) : option Q :=
  sc_vars (zrange nvar) nb (fst p) icase nbsimu nvar (Z.to_nat (snd p)) wgt 0.

Fixpoint all_some {A} (l : list (option A)) : option (list A) :=
  match l with
  | [] => Some []
  | Some x :: r => match all_some r with Some xs => Some (x :: xs) | None => None end
  | None :: _ => None
  end.

Definition simulate_calcul (nbsimu nvar icase : Z) (nb : list row) (wgt : list (list Q)) (target : row)
  : option row :=
  let ps := sim_pairs nbsimu nvar in
  match all_some (map (krig_error nbsimu nvar icase nb wgt) ps) with
  | None => None
  | Some simus =>
      Some (pw_update (fun ps => sim_rank (fst (fst ps)) (snd (fst ps)) icase nbsimu nvar)
                      (fun ps old => op_add old (Some (snd ps)))
                      (combine ps simus) target)
  end.

(* CalcSimuTurningBands::_updateData2ToTarget, output Db = point file (CalcSimuTurningBands.cpp:1840-1888).
   Samples are addressed by their ABSOLUTE rank in the data Db; a masked sample (selection) is skipped
   but keeps its rank.  [ip_close] = absolute rank of the first active datum within eps of the target. *)
Record datum := mkDatum { d_active : bool; d_xy : list Q; d_z : list (option Q) }.
Definition dist2 (a b : list Q) : Q :=
  fold_left Qplus (map (fun p => (fst p - snd p) * (fst p - snd p))%Q (combine a b)) 0%Q.
Definition is_close (eps2 : Q) (c : list Q) (d : datum) : bool := d_active d && qleb (dist2 c (d_xy d)) eps2.
Fixpoint find_close (eps2 : Q) (c : list Q) (data : list datum) (ip : nat) : option nat :=
  match data with
  | [] => None
  | d :: r => if is_close eps2 c d then Some ip else find_close eps2 c r (S ip)
  end.
Definition no_datum : datum := mkDatum false [] [].
(* valdat = dbin->getZVariable(ip_close, ivar); if (FFFF(valdat)) continue; dbout->setSimvar(SIMU, ik, isimu, ivar, ...) *)
Definition update_point_target (nbsimu nvar icase : Z) (eps2 : Q) (data : list datum)
           (t_active : bool) (c : list Q) (r : row) : row :=
  if negb t_active then r else
  match find_close eps2 c data 0 with
  | None => r
  | Some ip =>
      let z := d_z (nth ip data no_datum) in
      pw_update (fun p => sim_rank (fst p) (snd p) icase nbsimu nvar)
                (fun p old => match nth (Z.to_nat (snd p)) z None with Some v => Some v | None => old end)
                (sim_pairs nbsimu nvar) r
  end.
(* rank of absolute sample i among the active samples (the numbering of vectors compressed by the selection) *)
Definition rank_active {A} (active : A -> bool) (i : nat) (l : list A) : nat := length (filter active (firstn i l)).
(* the rows of the neighbouring (= active) data, in the order of _nbgh *)
Definition active_rows {A} (active : A -> bool) (l : list A) : list A := filter active l.

(* ------------------------------------------------------------------------------------------ *)
(* 4. Lithotype rule: thresholds, facies -> bounds, gaussians -> facies                        *)
(* ------------------------------------------------------------------------------------------ *)
(* Node of a standard Rule: a facies leaf (THRESH_IDLE) or a threshold along Y1 / Y2 with the two
   sub-rules _r1 (below the threshold) and _r2 (above).  [thresh] is Node::_thresh as computed by
   proportionToThresh from the proportions (read from the implementation). *)
Inductive node := Leaf (facies : Z) | Split (along_y1 : bool) (thresh : Q) (r1 r2 : node).
Record rect := mkRect { t1min : Q; t1max : Q; t2min : Q; t2max : Q }.

(* Node::proportionToThresh (Node.cpp:565): rectangles handed down to the sub-rules; result =
   the facies leaves with their rectangles, in the order visited by getThresh/gaussianToFacies
   (first _r1, then _r2, then the node itself). *)
Fixpoint leaves (n : node) (r : rect) : list (Z * rect) :=
  match n with
  | Leaf f => [(f, r)]
  | Split true t a b =>
      leaves a (mkRect (t1min r) t (t2min r) (t2max r)) ++ leaves b (mkRect t (t1max r) (t2min r) (t2max r))
  | Split false t a b =>
      leaves a (mkRect (t1min r) (t1max r) (t2min r) t) ++ leaves b (mkRect (t1min r) (t1max r) t (t2max r))
  end.

(* Node::gaussianToFacies leaf test (Node.cpp:745-750); ext = get_rule_extreme(+1) = -get_rule_extreme(-1) *)
Definition leaf_accepts (ext : Q) (r : rect) (y1 y2 : Q) : bool :=
  negb (qltb (- ext) (t1min r) && qltb y1 (t1min r)) &&
  negb (qltb (t1max r) ext && qltb (t1max r) y1) &&
  negb (qltb (- ext) (t2min r) && qltb y2 (t2min r)) &&
  negb (qltb (t2max r) ext && qltb (t2max r) y2).

Fixpoint first_accepting (ext : Q) (l : list (Z * rect)) (y1 y2 : Q) : option Z :=
  match l with
  | [] => None
  | (f, r) :: rest => if leaf_accepts ext r y1 y2 then Some f else first_accepting ext rest y1 y2
  end.
Fixpoint first_facies (l : list (Z * rect)) (f : Z) : option rect :=
  match l with
  | [] => None
  | (g, r) :: rest => if g =? f then Some r else first_facies rest f
  end.

Definition root_rect (ext : Q) : rect := mkRect (- ext) ext (- ext) ext.
(* Rule::getFaciesFromGaussian (Rule.cpp:600): 0 when no facies is found *)
Definition gaussian_to_facies (ext : Q) (n : node) (y1 y2 : Q) : Z :=
  match first_accepting ext (leaves n (root_rect ext)) y1 y2 with Some f => f | None => 0 end.
(* Rule::getThresh(facies) (Rule.cpp:555): bounds handed to the Gibbs sampler by evaluateBounds *)
Definition facies_bounds (ext : Q) (n : node) (f : Z) : option rect :=
  first_facies (leaves n (root_rect ext)) f.

(* every threshold lies inside the interval it splits *)
Fixpoint wf_node (n : node) (r : rect) : bool :=
  match n with
  | Leaf _ => true
  | Split true t a b =>
      qleb (t1min r) t && qleb t (t1max r) &&
      wf_node a (mkRect (t1min r) t (t2min r) (t2max r)) && wf_node b (mkRect t (t1max r) (t2min r) (t2max r))
  | Split false t a b =>
      qleb (t2min r) t && qleb t (t2max r) &&
      wf_node a (mkRect (t1min r) (t1max r) (t2min r) t) && wf_node b (mkRect (t1min r) (t1max r) t (t2max r))
  end.
(* strictly inside a rectangle *)
Definition strictly_inside (r : rect) (y1 y2 : Q) : bool :=
  qltb (t1min r) y1 && qltb y1 (t1max r) && qltb (t2min r) y2 && qltb y2 (t2max r).

(* C13 proofs, part 1: the random number generator and the seed discipline. *)
From Coq Require Import List ZArith QArith Qabs Qround Bool Lia Znumtheory.
From Gst Require Import lib.QAux C13.Model.
Import ListNotations.
Local Open Scope Z_scope.

(* ---------------------------------------------------------------- arithmetic of one LCG step *)
Lemma to_unsigned_wrap z : to_unsigned (wrap_int z) = z mod two32.
Proof.
  unfold to_unsigned, wrap_int.
  rewrite Zminus_mod, Zmod_mod, <- Zminus_mod.
  f_equal. lia.
Qed.

Lemma lcg_raw_eq v : lcg_raw v = ((rnd_factor * v) mod two32) mod rnd_p.
Proof. unfold lcg_raw. now rewrite to_unsigned_wrap. Qed.

Lemma lcg_raw_range v : 0 <= lcg_raw v < rnd_p.
Proof. rewrite lcg_raw_eq. apply Z.mod_pos_bound. reflexivity. Qed.

(* the repaired step never leaves [1,p) - whatever the state it starts from *)
Lemma lcg_range v : 0 < lcg_next v < rnd_p.
Proof.
  unfold lcg_next. pose proof (lcg_raw_range v) as R.
  destruct (lcg_raw v =? 0) eqn:E; [unfold rnd_p; lia|]. apply Z.eqb_neq in E. lia.
Qed.

(* below 2^32/105 the product does not wrap *)
Lemma lcg_nowrap v : 0 <= v <= 40904450 -> lcg_raw v = (rnd_factor * v) mod rnd_p.
Proof.
  intros H. rewrite lcg_raw_eq. f_equal. apply Z.mod_small.
  unfold rnd_factor, two32. lia.
Qed.

Lemma rel_prime_p_factor : rel_prime rnd_p rnd_factor.
Proof. apply Zgcd_1_rel_prime. vm_compute. reflexivity. Qed.

Lemma p_divides_factor_mul x : (rnd_p | rnd_factor * x) -> (rnd_p | x).
Proof. intro H. apply Gauss with rnd_factor; [exact H | exact rel_prime_p_factor]. Qed.

Lemma small_multiple_zero x : (rnd_p | x) -> - rnd_p < x < rnd_p -> x = 0.
Proof.
  intros [k Hk] H. unfold rnd_p in *. subst x.
  assert (k = 0) by lia. subst k. reflexivity.
Qed.

Lemma lcg_nowrap_zero v : 0 <= v <= 40904450 -> (lcg_raw v = 0 <-> v mod rnd_p = 0).
Proof.
  intros H. rewrite (lcg_nowrap v H). split; intro E.
  - apply Z.mod_divide in E; [|discriminate]. apply p_divides_factor_mul in E.
    apply Z.mod_divide; [discriminate| exact E].
  - apply Z.mod_divide; [discriminate|]. apply Z.mod_divide in E; [|discriminate].
    apply Z.divide_mul_r. exact E.
Qed.

(* on [1,p) the repair is never triggered: the step is the plain multiplication by 105 modulo p *)
Lemma lcg_next_plain v : 0 < v < rnd_p -> lcg_next v = (rnd_factor * v) mod rnd_p /\ lcg_raw v <> 0.
Proof.
  intros H. assert (B : 0 <= v <= 40904450) by (unfold rnd_p in H; lia).
  assert (N : lcg_raw v <> 0).
  { intro E. apply (lcg_nowrap_zero v B) in E. rewrite Z.mod_small in E; lia. }
  split; [|exact N]. unfold lcg_next. apply Z.eqb_neq in N. rewrite N. apply lcg_nowrap. exact B.
Qed.

Lemma lcg_inj v w : 0 < v < rnd_p -> 0 < w < rnd_p -> lcg_next v = lcg_next w -> v = w.
Proof.
  intros Hv Hw E.
  rewrite (proj1 (lcg_next_plain v Hv)), (proj1 (lcg_next_plain w Hw)) in E.
  assert (D : (rnd_p | rnd_factor * (v - w))).
  { apply Z.mod_divide; [discriminate|].
    replace (rnd_factor * (v - w)) with (rnd_factor * v - rnd_factor * w) by ring.
    rewrite Zminus_mod, E, Z.sub_diag. reflexivity. }
  apply p_divides_factor_mul in D.
  apply small_multiple_zero in D; lia.
Qed.

Fixpoint lcg_iter (n : nat) (v : Z) : Z :=
  match n with O => v | S k => lcg_iter k (lcg_next v) end.

Lemma lcg_iter_S n v : lcg_iter (S n) v = lcg_next (lcg_iter n v).
Proof. revert v. induction n; intro v; simpl; [reflexivity|]. rewrite <- IHn. reflexivity. Qed.

(* after at least one step the state is in [1,p), from ANY starting value *)
Lemma lcg_iter_range n v : 0 < lcg_iter (S n) v < rnd_p.
Proof. rewrite lcg_iter_S. apply lcg_range. Qed.

Lemma lcg_iter_range0 n v : 0 < v < rnd_p -> 0 < lcg_iter n v < rnd_p.
Proof. destruct n; [trivial| intros _; apply lcg_iter_range]. Qed.

Lemma lcg_iter_inj n v w : 0 < v < rnd_p -> 0 < w < rnd_p -> lcg_iter n v = lcg_iter n w -> v = w.
Proof.
  revert v w. induction n; intros v w Hv Hw E; simpl in E; [exact E|].
  apply IHn in E; try apply lcg_range. apply lcg_inj; assumption.
Qed.

(* the step as it was before the repair: 0 is a fixed point *)
Fixpoint lcg_iter_prefix (n : nat) (v : Z) : Z :=
  match n with O => v | S k => lcg_iter_prefix k (lcg_next_prefix v) end.
Lemma lcg_prefix_frozen n : lcg_iter_prefix n 0 = 0.
Proof. induction n; simpl; [reflexivity|]. exact IHn. Qed.

(* ---------------------------------------------------------------- generator state machine *)
Section RNG.
Variable G : Type.
Variable gseed : Z -> G.
Variable gstep : G -> G * Q.
Notation rng := (rng G).
Notation set_seed := (set_seed G gseed).
Notation uniform01 := (uniform01 G gstep).
Notation stream := (stream G gstep).
Notation exec := (fun A => @exec G gseed gstep A).

(* two states that no client can tell apart *)
Definition sim (a b : rng) : Prop :=
  rv a = rv b /\ old_style a = old_style b /\ (old_style a = false -> gen a = gen b).

Lemma sim_refl a : sim a a.
Proof. repeat split. Qed.

Lemma set_seed_sim s a b : sim a b -> sim (set_seed s a) (set_seed s b).
Proof.
  intros (H1 & H2 & H3). unfold Model.set_seed.
  destruct (0 <? s); [|repeat split; assumption].
  rewrite <- H2. destruct (old_style a) eqn:E; repeat split; simpl; try reflexivity.
  intro; discriminate.
Qed.

Lemma set_seed_forget s a b : 0 < s -> old_style a = old_style b -> sim (set_seed s a) (set_seed s b).
Proof.
  intros Hs H2. unfold Model.set_seed.
  apply Z.ltb_lt in Hs. rewrite Hs. rewrite <- H2.
  destruct (old_style a); repeat split; simpl; try reflexivity. intro; discriminate.
Qed.

Lemma uniform01_sim a b : sim a b ->
  sim (fst (uniform01 a)) (fst (uniform01 b)) /\ snd (uniform01 a) = snd (uniform01 b).
Proof.
  intros (H1 & H2 & H3). unfold Model.uniform01. rewrite <- H2.
  destruct (old_style a) eqn:E.
  - rewrite <- H1. simpl. repeat split. intro; discriminate.
  - rewrite <- (H3 eq_refl). rewrite <- H1. destruct (gstep (gen a)) as [g u]. simpl. repeat split.
Qed.

Lemma stream_sim n : forall a b, sim a b -> stream n a = stream n b.
Proof.
  induction n; intros a b H; simpl; [reflexivity|].
  destruct (uniform01_sim a b H) as [Hs Hu].
  destruct (uniform01 a) as [a' u], (uniform01 b) as [b' v]. simpl in *.
  subst v. f_equal. apply IHn. exact Hs.
Qed.

Lemma stream_of_seed s a b n : 0 < s -> old_style a = old_style b ->
  stream n (set_seed s a) = stream n (set_seed s b).
Proof. intros Hs H. apply stream_sim. apply set_seed_forget; assumption. Qed.

Lemma exec_sim A (pr : prog A) : forall a b, sim a b -> exec A pr a = exec A pr b.
Proof.
  induction pr as [x | k IH | k IH | s k IH]; intros a b H; simpl.
  - reflexivity.
  - destruct (uniform01_sim a b H) as [Hs Hu].
    destruct (uniform01 a) as [a' u], (uniform01 b) as [b' v]. simpl in *. subst v.
    rewrite (IH u a' b' Hs). reflexivity.
  - destruct H as (H1 & H2 & H3). unfold get_seed. rewrite <- H1.
    rewrite (IH (rv a) a b); [reflexivity|]. repeat split; assumption.
  - rewrite (IH _ _ (set_seed_sim s a b H)). reflexivity.
Qed.

Lemma reproducible A (pr : prog A) s a b : 0 < s -> old_style a = old_style b ->
  exec A (SetS s pr) a = exec A (SetS s pr) b.
Proof.
  intros Hs H. simpl. rewrite (exec_sim A pr _ _ (set_seed_forget s a b Hs H)). reflexivity.
Qed.

(* the first event of the trace is decided by the program alone *)
Lemma trace_ok_first A (pr : prog A) seed st :
  trace_ok seed (snd (exec A pr st)) = true -> 0 < seed /\ exists k, pr = SetS seed k.
Proof.
  destruct pr as [x | k | k | s k]; simpl.
  - discriminate.
  - destruct (uniform01 st) as [st' u]. destruct (exec A (k u) st'). simpl. discriminate.
  - destruct (exec A (k (get_seed st)) st). simpl. discriminate.
  - destruct (exec A k (set_seed s st)). simpl. intro H.
    apply andb_true_iff in H. destruct H as [H1 H2].
    apply Z.ltb_lt in H1. apply Z.eqb_eq in H2. subst s. split; [exact H1| eexists; reflexivity].
Qed.

Lemma trace_language A (pr : prog A) seed st st' :
  trace_ok seed (snd (exec A pr st)) = true -> old_style st' = old_style st ->
  exec A pr st' = exec A pr st.
Proof.
  intros H E. destruct (trace_ok_first A pr seed st H) as [Hs [k Hk]]. subst pr.
  apply reproducible; assumption.
Qed.

(* ---------------------------------------------------------------- old-style stream = LCG orbit *)
Definition q_of_state (v : Z) : Q := Qmake v (Z.to_pos rnd_p).

Lemma stream_old n : forall st, old_style st = true ->
  stream n st = map (fun k => q_of_state (lcg_iter (S k) (rv st))) (seq 0 n).
Proof.
  induction n; intros st H; [reflexivity|].
  cbn [Model.stream]. unfold Model.uniform01. rewrite H.
  rewrite (IHn (mkRng (lcg_next (rv st)) true (gen st)) eq_refl).
  cbn [seq map]. f_equal. rewrite <- seq_shift, map_map. reflexivity.
Qed.

Lemma set_seed_rv s st : 0 < s -> rv (set_seed s st) = s /\ old_style (set_seed s st) = old_style st.
Proof. intro H. unfold Model.set_seed. apply Z.ltb_lt in H. rewrite H. simpl. split; reflexivity. Qed.

Definition in_open01 (u : Q) : Prop := (0 < u /\ u < 1)%Q.

Lemma q_of_state_open v : 0 < v < rnd_p -> in_open01 (q_of_state v).
Proof.
  intros H. unfold in_open01, q_of_state, Qlt. simpl. unfold rnd_p in *. lia.
Qed.

Lemma uniform_range st s n : old_style st = true -> 0 < s ->
  Forall in_open01 (stream n (set_seed s st)).
Proof.
  intros Ho Hs. destruct (set_seed_rv s st Hs) as [E1 E2].
  rewrite stream_old by (rewrite E2; exact Ho). rewrite E1.
  apply Forall_forall. intros u Hu. apply in_map_iff in Hu. destruct Hu as [k [Hk _]]. subst u.
  apply q_of_state_open. apply lcg_iter_range.
Qed.

(* without any seeding: from whatever state the generator is in *)
Lemma uniform_range_any st n : old_style st = true -> Forall in_open01 (stream n st).
Proof.
  intros Ho. rewrite stream_old by exact Ho.
  apply Forall_forall. intros u Hu. apply in_map_iff in Hu. destruct Hu as [k [Hk _]]. subst u.
  apply q_of_state_open. apply lcg_iter_range.
Qed.

Lemma seeds_differ st s1 s2 n : old_style st = true ->
  0 < s1 < rnd_p -> 0 < s2 < rnd_p -> s1 <> s2 ->
  ~ (nth n (stream (S n) (set_seed s1 st)) 0 == nth n (stream (S n) (set_seed s2 st)) 0)%Q.
Proof.
  intros Ho H1 H2 Hne.
  destruct (set_seed_rv s1 st) as [E1 E1']; [lia|]. destruct (set_seed_rv s2 st) as [E2 E2']; [lia|].
  rewrite !stream_old by congruence. rewrite E1, E2.
  set (f1 := fun k => q_of_state (lcg_iter (S k) s1)). set (f2 := fun k => q_of_state (lcg_iter (S k) s2)).
  rewrite (nth_indep _ 0%Q (f1 O)) by (rewrite map_length, seq_length; lia).
  rewrite (nth_indep (map f2 _) 0%Q (f2 O)) by (rewrite map_length, seq_length; lia).
  rewrite !map_nth. rewrite !seq_nth by lia. simpl. unfold f1, f2, q_of_state, Qeq. simpl.
  intro E. assert (E' : lcg_iter (S n) s1 = lcg_iter (S n) s2) by (unfold rnd_p in *; simpl in *; lia).
  apply lcg_iter_inj in E'; lia.
Qed.
End RNG.

Lemma trace_strict_ok seed t : trace_strict seed t = true -> trace_ok seed t = true.
Proof.
  destruct t as [|[s| |v] r]; simpl; try discriminate.
  intro H. apply andb_true_iff in H. tauto.
Qed.
Lemma trace_derived_ok seed c t : trace_derived seed c t = true -> trace_ok seed t = true.
Proof.
  destruct t as [|[s| |v] r]; simpl; try discriminate.
  intro H. apply andb_true_iff in H. tauto.
Qed.


(* ---------------------------------------------------------------- primality of the modulus *)
(* trial division up to the square root, checked by computation *)
Fixpoint no_divisor (n : nat) (d p : Z) : bool :=
  match n with
  | O => true
  | S k => negb (p mod d =? 0) && no_divisor k (d + 1) p
  end.

Lemma no_divisor_spec n : forall d p, 0 < d -> no_divisor n d p = true ->
  forall x, d <= x < d + Z.of_nat n -> ~ (x | p).
Proof.
  induction n; intros d p Hd H x Hx; [lia|].
  cbn [no_divisor] in H. apply andb_true_iff in H. destruct H as [H1 H2].
  destruct (Z.eq_dec x d) as [->|Hne].
  - intro D. apply Z.mod_divide in D; [|lia]. rewrite D in H1. discriminate.
  - apply (IHn (d + 1) p); [lia|exact H2|lia].
Qed.

Lemma trial_division_prime p r : 1 < p -> 0 <= r -> p < (r + 1) * (r + 1) ->
  no_divisor (Z.to_nat (r - 1)) 2 p = true -> prime p.
Proof.
  intros Hp Hr Hsq H. apply prime_alt. split; [exact Hp|].
  intros n Hn D.
  pose proof (no_divisor_spec _ 2 p ltac:(lia) H) as ND.
  destruct D as [q Hq].
  assert (Hqpos : 0 < q) by nia.
  destruct (Z_le_gt_dec n r) as [Hle|Hgt].
  - apply (ND n); [rewrite Z2Nat.id; lia| exists q; exact Hq].
  - assert (q <= r) by nia.
    assert (1 < q) by nia.
    apply (ND q); [rewrite Z2Nat.id; lia| exists n; lia].
Qed.

Lemma rnd_p_prime : prime rnd_p.
Proof.
  apply (trial_division_prime rnd_p 4472); [reflexivity|discriminate|reflexivity|].
  vm_compute. reflexivity.
Qed.

(* C13 proofs, part 4: lithotype rule - a gaussian vector strictly inside the bounds of a facies
   is mapped back to that facies. *)
From Coq Require Import List ZArith QArith Lqa Lia Bool.
From Gst Require Import lib.QAux C13.Model.
Import ListNotations.
Local Open Scope Q_scope.

Definition bounded (ext : Q) (r : rect) : Prop :=
  - ext <= t1min r /\ t1max r <= ext /\ - ext <= t2min r /\ t2max r <= ext.
Definition sub (r' r : rect) : Prop :=
  t1min r <= t1min r' /\ t1max r' <= t1max r /\ t2min r <= t2min r' /\ t2max r' <= t2max r.

Lemma sub_refl r : sub r r.
Proof. unfold sub. repeat split; lra. Qed.
Lemma sub_trans a b c : sub a b -> sub b c -> sub a c.
Proof. unfold sub. intros (A1 & A2 & A3 & A4) (B1 & B2 & B3 & B4). repeat split; lra. Qed.
Lemma sub_bounded ext a b : sub a b -> bounded ext b -> bounded ext a.
Proof. unfold sub, bounded. intros (A1 & A2 & A3 & A4) (B1 & B2 & B3 & B4). repeat split; lra. Qed.

(* a point strictly inside r1 is refused by r2 *)
Definition sep (ext : Q) (r1 r2 : rect) : Prop :=
  forall y1 y2, strictly_inside r1 y1 y2 = true -> leaf_accepts ext r2 y1 y2 = false.
Definition sep2 (ext : Q) (r1 r2 : rect) : Prop := sep ext r1 r2 /\ sep ext r2 r1.

Lemma inside_spec r y1 y2 : strictly_inside r y1 y2 = true ->
  t1min r < y1 /\ y1 < t1max r /\ t2min r < y2 /\ y2 < t2max r.
Proof.
  unfold strictly_inside. intro H.
  apply andb_true_iff in H. destruct H as [H H4]. apply andb_true_iff in H. destruct H as [H H3].
  apply andb_true_iff in H. destruct H as [H1 H2].
  apply qltb_true in H1, H2, H3, H4. tauto.
Qed.

Lemma inside_accepts ext r y1 y2 : strictly_inside r y1 y2 = true -> leaf_accepts ext r y1 y2 = true.
Proof.
  intro H. apply inside_spec in H. destruct H as (H1 & H2 & H3 & H4). unfold leaf_accepts.
  rewrite (proj2 (qltb_false y1 (t1min r))) by lra.
  rewrite (proj2 (qltb_false (t1max r) y1)) by lra.
  rewrite (proj2 (qltb_false y2 (t2min r))) by lra.
  rewrite (proj2 (qltb_false (t2max r) y2)) by lra.
  rewrite !andb_false_r. reflexivity.
Qed.

Lemma reject_low1 ext r y1 y2 : - ext < t1min r -> y1 < t1min r -> leaf_accepts ext r y1 y2 = false.
Proof. intros A B. unfold leaf_accepts. rewrite (proj2 (qltb_true _ _) A), (proj2 (qltb_true _ _) B). reflexivity. Qed.
Lemma reject_high1 ext r y1 y2 : t1max r < ext -> t1max r < y1 -> leaf_accepts ext r y1 y2 = false.
Proof.
  intros A B. unfold leaf_accepts. rewrite (proj2 (qltb_true _ _) A), (proj2 (qltb_true _ _) B).
  simpl. rewrite andb_false_r. reflexivity.
Qed.
Lemma reject_low2 ext r y1 y2 : - ext < t2min r -> y2 < t2min r -> leaf_accepts ext r y1 y2 = false.
Proof.
  intros A B. unfold leaf_accepts. rewrite (proj2 (qltb_true _ _) A), (proj2 (qltb_true _ _) B).
  simpl. rewrite andb_false_r. reflexivity.
Qed.
Lemma reject_high2 ext r y1 y2 : t2max r < ext -> t2max r < y2 -> leaf_accepts ext r y1 y2 = false.
Proof.
  intros A B. unfold leaf_accepts. rewrite (proj2 (qltb_true _ _) A), (proj2 (qltb_true _ _) B).
  simpl. rewrite andb_false_r. reflexivity.
Qed.

(* rectangles on either side of a threshold along Y1 / Y2 *)
Lemma sep2_y1 ext t ra rb : bounded ext ra -> bounded ext rb -> t1max ra <= t -> t <= t1min rb -> sep2 ext ra rb.
Proof.
  intros (A1 & A2 & A3 & A4) (B1 & B2 & B3 & B4) Ha Hb. split; intros y1 y2 H; apply inside_spec in H;
    destruct H as (H1 & H2 & H3 & H4).
  - apply reject_low1; lra.
  - apply reject_high1; lra.
Qed.
Lemma sep2_y2 ext t ra rb : bounded ext ra -> bounded ext rb -> t2max ra <= t -> t <= t2min rb -> sep2 ext ra rb.
Proof.
  intros (A1 & A2 & A3 & A4) (B1 & B2 & B3 & B4) Ha Hb. split; intros y1 y2 H; apply inside_spec in H;
    destruct H as (H1 & H2 & H3 & H4).
  - apply reject_low2; lra.
  - apply reject_high2; lra.
Qed.

Lemma FOP_app {A} (R : A -> A -> Prop) l1 : forall l2,
  ForallOrdPairs R l1 -> ForallOrdPairs R l2 -> (forall x y, In x l1 -> In y l2 -> R x y) ->
  ForallOrdPairs R (l1 ++ l2).
Proof.
  induction l1 as [|a l1 IH]; intros l2 H1 H2 Hc; [exact H2|].
  inversion H1 as [|? ? Ha H1']; subst. simpl. constructor.
  - apply Forall_app. split; [exact Ha|]. apply Forall_forall. intros y Hy. apply Hc; [left; reflexivity| exact Hy].
  - apply IH; [exact H1'| exact H2|]. intros x y Hx Hy. apply Hc; [right; exact Hx| exact Hy].
Qed.

Lemma leaves_sep ext n : forall r, wf_node n r = true -> bounded ext r ->
  ForallOrdPairs (sep2 ext) (map snd (leaves n r)) /\ Forall (fun r' => sub r' r) (map snd (leaves n r)).
Proof.
  induction n as [f | o t a IHa b IHb]; intros r Hwf Hb.
  - simpl. split; [repeat constructor| constructor; [apply sub_refl| constructor]].
  - destruct Hb as (B1 & B2 & B3 & B4).
    destruct o; cbn [wf_node leaves] in *;
      apply andb_true_iff in Hwf; destruct Hwf as [Hwf Wb];
      apply andb_true_iff in Hwf; destruct Hwf as [Hwf Wa];
      apply andb_true_iff in Hwf; destruct Hwf as [T1 T2];
      apply qleb_true in T1, T2.
    + set (ra := mkRect (t1min r) t (t2min r) (t2max r)) in *.
      set (rb := mkRect t (t1max r) (t2min r) (t2max r)) in *.
      assert (Ba : bounded ext ra) by (unfold bounded, ra; simpl; repeat split; lra).
      assert (Bb : bounded ext rb) by (unfold bounded, rb; simpl; repeat split; lra).
      destruct (IHa ra Wa Ba) as [Fa Sa]. destruct (IHb rb Wb Bb) as [Fb Sb].
      rewrite map_app. split.
      * apply FOP_app; [exact Fa| exact Fb|]. intros x y Hx Hy.
        rewrite Forall_forall in Sa, Sb. specialize (Sa x Hx). specialize (Sb y Hy).
        apply (sep2_y1 ext t); [exact (sub_bounded ext _ _ Sa Ba)| exact (sub_bounded ext _ _ Sb Bb)| |].
        -- destruct Sa as (_ & S & _). exact S.
        -- destruct Sb as (S & _). exact S.
      * apply Forall_app. split; eapply Forall_impl; try eassumption; intros x Hx;
          (eapply sub_trans; [exact Hx|]); unfold sub, ra, rb; simpl; repeat split; lra.
    + set (ra := mkRect (t1min r) (t1max r) (t2min r) t) in *.
      set (rb := mkRect (t1min r) (t1max r) t (t2max r)) in *.
      assert (Ba : bounded ext ra) by (unfold bounded, ra; simpl; repeat split; lra).
      assert (Bb : bounded ext rb) by (unfold bounded, rb; simpl; repeat split; lra).
      destruct (IHa ra Wa Ba) as [Fa Sa]. destruct (IHb rb Wb Bb) as [Fb Sb].
      rewrite map_app. split.
      * apply FOP_app; [exact Fa| exact Fb|]. intros x y Hx Hy.
        rewrite Forall_forall in Sa, Sb. specialize (Sa x Hx). specialize (Sb y Hy).
        apply (sep2_y2 ext t); [exact (sub_bounded ext _ _ Sa Ba)| exact (sub_bounded ext _ _ Sb Bb)| |].
        -- destruct Sa as (_ & _ & _ & S). exact S.
        -- destruct Sb as (_ & _ & S & _). exact S.
      * apply Forall_app. split; eapply Forall_impl; try eassumption; intros x Hx;
          (eapply sub_trans; [exact Hx|]); unfold sub, ra, rb; simpl; repeat split; lra.
Qed.

Lemma first_facies_In l f r : first_facies l f = Some r -> In r (map snd l).
Proof.
  induction l as [|[g rg] rest IH]; simpl; [discriminate|].
  destruct (g =? f)%Z; [intro E; injection E as ->; left; reflexivity| intro E; right; apply IH; exact E].
Qed.

Lemma first_accepting_sep ext y1 y2 : forall l f r,
  ForallOrdPairs (sep2 ext) (map snd l) -> first_facies l f = Some r ->
  strictly_inside r y1 y2 = true -> first_accepting ext l y1 y2 = Some f.
Proof.
  induction l as [|[g rg] rest IH]; intros f r FOP Hf Hin; [discriminate|].
  simpl in FOP. inversion FOP as [|? ? Hg FOP']; subst.
  simpl in Hf |- *. destruct (g =? f)%Z eqn:E.
  - injection Hf as ->. apply Z.eqb_eq in E. subst g.
    rewrite (inside_accepts ext r y1 y2 Hin). reflexivity.
  - apply first_facies_In in Hf as Hr. rewrite Forall_forall in Hg. destruct (Hg r Hr) as [_ S].
    rewrite (S y1 y2 Hin). apply (IH f r FOP' Hf Hin).
Qed.

Lemma facies_roundtrip ext n f r y1 y2 : 0 <= ext ->
  wf_node n (root_rect ext) = true -> facies_bounds ext n f = Some r ->
  strictly_inside r y1 y2 = true -> gaussian_to_facies ext n y1 y2 = f.
Proof.
  intros He Hwf Hf Hin. unfold gaussian_to_facies, facies_bounds in *.
  assert (Hb : bounded ext (root_rect ext)) by (unfold bounded, root_rect; simpl; repeat split; lra).
  destruct (leaves_sep ext n _ Hwf Hb) as [FOP _].
  rewrite (first_accepting_sep ext y1 y2 _ f r FOP Hf Hin). reflexivity.
Qed.

(* C01 model: exact-arithmetic mirror of the (co)kriging system of
     /repo/src/Estimation/KrigingSystem.cpp
       _flagDefine (468)  _isAuthorized (538)  _lhsCalcul (627)  _lhsIsoToHetero (699)
       _rhsCalculPoint (833) / _rhsCalculBlock (853, average over discretisation points)
       _rhsCalcul drift part (934)  _rhsIsoToHetero (1001)  _lhsInvert (788)  _wgtCalcul (1077)
       _dualCalcul (1642)  _estimateEstim (1513)  _estimateStdv (1539)  _estimateVarZ (1577)  _getMean (430)
     /repo/src/Drifts/DriftList.cpp evalDriftValue (568, not linked / not combined), DriftM::eval, DriftF::eval
   Covariance values are oracles (lists harvested from the implementation's covariance function);
   the matrix inverse is LinAlgQ.inv_checked (elimination + exact check of both products).
   Executable definitions only. *)
From Coq Require Import List Arith ZArith QArith Bool.
From Gst Require Import lib.QAux lib.LinAlgQ.
Import ListNotations.
Local Open Scope Q_scope.

Definition oq := option Q.
Definition defined (o : oq) : bool := match o with Some _ => true | None => false end.
Definition oval (o : oq) : Q := match o with Some q => q | None => 0 end.

Record sample := {
  s_coord : list oq;          (* coordinates (undefined allowed) *)
  s_z     : list oq;          (* one value per variable *)
  s_verr  : list oq;          (* measurement-error variance per variable ([] when no such column) *)
  s_fext  : list oq           (* external drift values *)
}.

Record kcase := {
  k_nvar  : nat;
  k_monos : list (list nat);  (* exponent vectors of the monomial drift functions (incl. the constant) *)
  k_nfex  : nat;              (* number of external-drift functions *)
  k_samples : list sample;    (* neighbourhood samples, in neighbourhood order *)
  k_means : list Q;           (* known means (used only when there is no drift equation) *)
  k_tcoord : list Q;          (* target coordinates *)
  k_tfext  : list oq;         (* external drifts at target *)
  k_flag_verr : bool;
  k_clhs : list (list mat);   (* clhs[i][j], j <= i : nvar x nvar covariance between samples i and j (LHS mode) *)
  k_crhs : list (list mat);   (* crhs[i] : list over discretisation points of nvar x nvar covariances sample i / target *)
  k_c00  : mat                (* nvar x nvar target/target term *)
}.

Definition nbfl (k : kcase) : nat := length (k_monos k) + k_nfex k.
Definition nech (k : kcase) : nat := length (k_samples k).
Definition nfeq (k : kcase) : nat := (k_nvar k * nbfl k)%nat.       (* not linked: one set per variable *)
Definition neq  (k : kcase) : nat := (k_nvar k * nech k + nfeq k)%nat.

Definition nth_s (k : kcase) (i : nat) : sample :=
  nth i (k_samples k) {| s_coord := []; s_z := []; s_verr := []; s_fext := [] |}.

(* --- drift functions --- *)
Fixpoint qpow (x : Q) (p : nat) : Q := match p with O => 1 | S p' => x * qpow x p' end.
Fixpoint mono_eval (coords : list Q) (pw : list nat) : Q :=
  match coords, pw with
  | x :: cr, p :: pr => qpow x p * mono_eval cr pr
  | _, _ => 1
  end.
(* value of drift function il at a sample; None when undefined (undefined external drift / coordinate) *)
Definition drift_at (k : kcase) (coords : list oq) (fext : list oq) (il : nat) : oq :=
  if Nat.ltb il (length (k_monos k)) then
    if forallb defined coords then Some (mono_eval (map oval coords) (nth il (k_monos k) []))
    else None
  else nth (il - length (k_monos k)) fext None.
(* DriftList::evalDriftValue for equation ib and variable ivar (il = ib - ivar*nbfl) *)
Definition drift_value (k : kcase) (coords : list oq) (fext : list oq) (ivar ib : nat) : oq :=
  let nb := nbfl k in
  if (Nat.leb (ivar * nb) ib && Nat.ltb ib (ivar * nb + nb))%bool
  then drift_at k coords fext (ib - ivar * nb) else Some 0.

(* --- _flagDefine : equation i = iech + ivar*nech for data, nvar*nech + ib for drift --- *)
Definition sample_ok (k : kcase) (s : sample) : bool :=
  forallb defined (s_coord s) && forallb defined (firstn (k_nfex k) (s_fext s)).
Definition any_data_defined (k : kcase) : bool :=
  existsb (fun s => existsb defined (s_z s)) (k_samples k).
Definition flag (k : kcase) (i : nat) : bool :=
  let n := nech k in
  if Nat.ltb i (k_nvar k * n) then
    let iech := (i mod n)%nat in let ivar := (i / n)%nat in
    let s := nth_s k iech in
    sample_ok k s && defined (nth ivar (s_z s) None)
  else
    (* a drift equation is suppressed only when no data value at all is defined *)
    any_data_defined k.
Definition active (k : kcase) : list nat := filter (flag k) (seq 0 (neq k)).
Definition nred (k : kcase) : nat := length (active k).

(* _isAuthorized *)
Definition count_true (l : list bool) : nat := length (filter (fun b => b) l).
Definition authorized (k : kcase) : bool :=
  let ndata := (k_nvar k * nech k)%nat in
  let n_cov := count_true (map (flag k) (seq 0 ndata)) in
  let n_drf := count_true (map (flag k) (seq ndata (nfeq k))) in
  Nat.leb (nfeq k) ndata && Nat.ltb 0 n_cov && Nat.leb n_drf n_cov.

(* --- full (isotopic layout) LHS, entry (i,j) --- *)
Definition mget (M : mat) (a b : nat) : Q := get M a b.
Definition clhs_at (k : kcase) (i j : nat) : mat := nth j (nth i (k_clhs k) []) [].
Definition lhs_full (k : kcase) (i j : nat) : Q :=
  let n := nech k in let nd := (k_nvar k * n)%nat in
  if (Nat.ltb i nd && Nat.ltb j nd)%bool then
    let ie := (i mod n)%nat in let iv := (i / n)%nat in
    let je := (j mod n)%nat in let jv := (j / n)%nat in
    let c :=
      if Nat.ltb je ie then mget (clhs_at k ie je) iv jv          (* written at (iech, jech<iech) *)
      else if Nat.ltb ie je then mget (clhs_at k je ie) jv iv     (* mirrored by the symmetric store *)
      else (* same sample: the later of the two writes (ivar,jvar) / (jvar,ivar) wins *)
        mget (clhs_at k ie ie) (Nat.max iv jv) (Nat.min iv jv) in
    let verr :=
      if (k_flag_verr k && Nat.eqb ie je && Nat.eqb iv jv)%bool then
        match nth iv (s_verr (nth_s k ie)) None with
        | Some v => if qltb 0 v then v else 0
        | None => 0
        end
      else 0 in
    c + verr
  else if (Nat.ltb i nd && negb (Nat.ltb j nd))%bool then
    oval (drift_value k (s_coord (nth_s k (i mod n))) (s_fext (nth_s k (i mod n))) (i / n) (j - nd))
  else if (negb (Nat.ltb i nd) && Nat.ltb j nd)%bool then
    oval (drift_value k (s_coord (nth_s k (j mod n))) (s_fext (nth_s k (j mod n))) (j / n) (i - nd))
  else 0.

(* --- RHS: covariance part (mean over discretisation points) and drift part --- *)
Definition crhs_mean (k : kcase) (ie iv jv : nat) : Q :=
  let l := nth ie (k_crhs k) [] in
  let s := fold_right (fun M acc => mget M iv jv + acc) 0 l in
  match l with
  | [] => 0
  | [_] => s
  | _ => s * (1 # Pos.of_nat (length l))
  end.
Definition tdrift (k : kcase) (ivar ib : nat) : oq :=
  drift_value k (map Some (k_tcoord k)) (k_tfext k) ivar ib.
Definition rhs_full (k : kcase) (i jv : nat) : Q :=
  let n := nech k in let nd := (k_nvar k * n)%nat in
  if Nat.ltb i nd then crhs_mean k (i mod n) (i / n) jv
  else oval (tdrift k jv (i - nd)).
(* the target drift must be defined for every (variable, equation) *)
Definition tdrift_ok (k : kcase) : bool :=
  forallb (fun jv => forallb (fun ib => defined (tdrift k jv ib)) (seq 0 (nfeq k))) (seq 0 (k_nvar k)).

(* --- compression (iso -> hetero) --- *)
Definition lhs_c (k : kcase) : mat :=
  map (fun i => map (fun j => lhs_full k i j) (active k)) (active k).
Definition rhs_c (k : kcase) : mat :=
  map (fun i => map (fun jv => rhs_full k i jv) (seq 0 (k_nvar k))) (active k).

(* --- means and centred data --- *)
Definition mean_of (k : kcase) (iv : nat) : Q := if Nat.ltb 0 (nfeq k) then 0 else nth iv (k_means k) 0.
Definition zext (k : kcase) : list Q :=
  map (fun i =>
    let n := nech k in
    if Nat.ltb i (k_nvar k * n) then oval (nth (i / n) (s_z (nth_s k (i mod n))) None) - mean_of k (i / n)
    else 0) (active k).

Record kout := {
  o_nred : nat;
  o_active : list nat;
  o_lhs : mat; o_rhs : mat;
  o_wgt : mat;                (* nred x nvar *)
  o_zam : list Q;
  o_estim : list Q; o_var : list Q; o_varz : list Q
}.

Definition col (M : mat) (n : nat) (j : nat) : list Q := vk n (fun i => get M i j).

(* right-hand sides solved together: the nvar columns of the RHS and the centred data vector *)
Definition rhs_and_data (k : kcase) : mat :=
  map (fun p => fst p ++ [snd p]) (combine (rhs_c k) (zext k)).

Definition krige (k : kcase) : option kout :=
  if negb (authorized k) then None
  else
    let n := nred k in
    let A := lhs_c k in
    let nv := k_nvar k in
    if negb (tdrift_ok k) then None else
    match solve_checked n (S nv) A (rhs_and_data k) with
    | None => None
    | Some WZ =>
        let R := rhs_c k in
        let W := mk n nv (get WZ) in
        let zam := col WZ n nv in
        let cum := (n - count_true (map (flag k) (seq (nv * nech k) (nfeq k))))%nat in
        Some {| o_nred := n; o_active := active k; o_lhs := A; o_rhs := R; o_wgt := W; o_zam := zam;
                o_estim := map (fun v => vdot n (col R n v) zam + mean_of k v) (seq 0 nv);
                o_var := map (fun v => get (k_c00 k) v v - vdot n (col R n v) (col W n v)) (seq 0 nv);
                o_varz := map (fun v =>
                   sumnr cum (fun i => get R i v * get W i v)
                   - sumnr (n - cum) (fun i => get R (cum + i) v * get W (cum + i) v)) (seq 0 nv) |}
    end.

(* C01 — property theorems only (model: coq/C01/Model.v, mirror of KrigingSystem.cpp). *)
From Coq Require Import List Arith ZArith QArith Bool.
From Gst Require Import lib.QAux lib.LinAlgQ C01.Model C01.Proofs.
Import ListNotations.
Local Open Scope Q_scope.

(* The equations of the system are exactly the (sample, variable) pairs whose coordinates, external drifts
   and value are defined, in the order variable-major then sample, followed by the drift equations. *)
Theorem C01_active_equations : forall k i, In i (active k) <-> (i < neq k)%nat /\ flag k i = true.
Proof. exact active_spec. Qed.
Print Assumptions C01_active_equations.

(* ... and the compression keeps them in their original order, each once: reduced index a < b maps to full index i_a < i_b *)
Theorem C01_active_order : forall k a b, (a < b)%nat -> (b < nred k)%nat ->
  (nth a (active k) O < nth b (active k) O)%nat.
Proof. exact active_increasing. Qed.
Print Assumptions C01_active_order.

Theorem C01_data_equation_flag : forall k iech ivar,
  (iech < nech k)%nat -> (ivar < k_nvar k)%nat ->
  flag k (iech + ivar * nech k) =
  sample_ok k (nth_s k iech) && defined (nth ivar (s_z (nth_s k iech)) None).
Proof. exact flag_data. Qed.
Print Assumptions C01_data_equation_flag.

(* heterotopic compression = sub-matrix / sub-vector of the full system on the active equations *)
Theorem C01_compression_lhs : forall k a b, (a < nred k)%nat -> (b < nred k)%nat ->
  get (lhs_c k) a b = lhs_full k (nth a (active k) O) (nth b (active k) O).
Proof. exact get_lhs_c. Qed.
Print Assumptions C01_compression_lhs.
Theorem C01_compression_rhs : forall k a v, (a < nred k)%nat -> (v < k_nvar k)%nat ->
  get (rhs_c k) a v = rhs_full k (nth a (active k) O) v.
Proof. exact get_rhs_c. Qed.
Print Assumptions C01_compression_rhs.

Theorem C01_lhs_symmetric : forall k, fsym (nred k) (get (lhs_c k)).
Proof. exact lhs_c_sym. Qed.
Print Assumptions C01_lhs_symmetric.

(* the weights returned solve [Sigma X; Xt 0] . W = [Sigma0; X0t], column by column *)
Theorem C01_weights_solve_system : forall k o, krige k = Some o ->
  forall a v, (a < nred k)%nat -> (v < k_nvar k)%nat ->
    fmul (nred k) (get (o_lhs o)) (get (o_wgt o)) a v == get (o_rhs o) a v.
Proof. exact krige_weights_solve. Qed.
Print Assumptions C01_weights_solve_system.

(* the dual vector solves the same system for the centred data *)
Theorem C01_dual_solves_system : forall k o, krige k = Some o ->
  forall a, (a < nred k)%nat -> fmv (nred k) (get (o_lhs o)) (vget (o_zam o)) a == vget (zext k) a.
Proof. exact krige_dual_solves. Qed.
Print Assumptions C01_dual_solves_system.

(* whenever the system matrix is invertible, every solution of the documented system equals the returned weights *)
Theorem C01_weights_unique : forall k o B w v,
  krige k = Some o -> (v < k_nvar k)%nat ->
  finv (nred k) (get (o_lhs o)) B ->
  (forall a, (a < nred k)%nat -> fmv (nred k) (get (o_lhs o)) w a == get (o_rhs o) a v) ->
  forall a, (a < nred k)%nat -> w a == get (o_wgt o) a v.
Proof. exact krige_weights_unique. Qed.
Print Assumptions C01_weights_unique.

(* estimate = mean + lambda . (z - mean)  (the code computes it in dual form: rhs . zam) *)
Theorem C01_estimate_formula : forall k o v, krige k = Some o -> (v < k_nvar k)%nat ->
  nth v (o_estim o) 0 ==
  fdot (nred k) (fun a => get (o_wgt o) a v) (vget (zext k)) + mean_of k v.
Proof. exact krige_estim_primal. Qed.
Print Assumptions C01_estimate_formula.

(* estimation variance = C00 - (lambda, -mu) . (Sigma0, X0) *)
Theorem C01_variance_formula : forall k o v, krige k = Some o -> (v < k_nvar k)%nat ->
  nth v (o_var o) 0 ==
  get (k_c00 k) v v - fdot (nred k) (fun a => get (o_rhs o) a v) (fun a => get (o_wgt o) a v).
Proof. exact krige_var. Qed.
Print Assumptions C01_variance_formula.

(* the only ways to get no result: too few data for the drift, undefined drift at the target, no certified solution *)
Theorem C01_failure_cases : forall k,
  krige k = None <->
  authorized k = false \/ tdrift_ok k = false \/
  solve_checked (nred k) (S (k_nvar k)) (lhs_c k) (rhs_and_data k) = None.
Proof. exact krige_none_cases. Qed.
Print Assumptions C01_failure_cases.

Theorem C01_solve_certificate : forall n m A R W,
  solve_checked n m A R = Some W ->
  forall i j, (i < n)%nat -> (j < m)%nat -> fmul n (get A) (get W) i j == get R i j.
Proof. exact solve_checked_correct. Qed.
Print Assumptions C01_solve_certificate.

(* Non-vacuity: heterotopic 2-variable ordinary cokriging of 3 samples in 1-D (exponential-like numbers) *)
Definition ex_case : kcase :=
  let m (a b c d : Q) : mat := [[a; b]; [c; d]] in
  {| k_nvar := 2; k_monos := [[]]; k_nfex := 0;
     k_samples := [ {| s_coord := [Some 0]; s_z := [Some 1; Some 2]; s_verr := []; s_fext := [] |};
                    {| s_coord := [Some 1]; s_z := [Some 3; None];   s_verr := []; s_fext := [] |};
                    {| s_coord := [Some 3]; s_z := [None; Some 5];   s_verr := []; s_fext := [] |} ];
     k_means := [0; 0]; k_tcoord := [2]; k_tfext := []; k_flag_verr := false;
     k_clhs := [ [m 4 1 1 2]; [m 2 (1#2) (1#2) 1; m 4 1 1 2]; [m (1#2) (1#8) (1#8) (1#4); m 1 (1#4) (1#4) (1#2); m 4 1 1 2] ];
     k_crhs := [ [m 1 (1#4) (1#4) (1#2)]; [m 2 (1#2) (1#2) 1]; [m 2 (1#2) (1#2) 1] ];
     k_c00 := m 4 1 1 2 |}.
Example C01_nonvacuous :
  match krige ex_case with
  | Some o => o_nred o = 6%nat /\ o_active o = [0; 1; 3; 5; 6; 7]%nat /\
              qeqb (get (o_wgt o) 0 0 + get (o_wgt o) 1 0) 1 = true   (* weights of variable 1 sum to one *)
  | None => False
  end.
Proof. vm_compute. repeat split; reflexivity. Qed.

(* the reported variance is the error variance as a quadratic form in the returned weights:
   C00 - 2 w.r + w.(A w)  (holds because A w = r; a variance computed from weights that do not
   solve the system would break this identity) *)
Theorem C01_variance_quadratic_form : forall k o v, krige k = Some o -> (v < k_nvar k)%nat ->
  nth v (o_var o) 0 ==
  get (k_c00 k) v v
  - (2#1) * fdot (nred k) (fun a => get (o_wgt o) a v) (fun a => get (o_rhs o) a v)
  + fdot (nred k) (fun a => get (o_wgt o) a v)
         (fmv (nred k) (get (o_lhs o)) (fun a => get (o_wgt o) a v)).
Proof. exact krige_var_quadratic. Qed.
Print Assumptions C01_variance_quadratic_form.

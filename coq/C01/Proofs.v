(* C01 proofs *)
From Coq Require Import List Arith ZArith QArith Bool Lqa Lia Sorted.
From Gst Require Import lib.QAux lib.LinAlgQ C01.Model.
Import ListNotations.
Local Open Scope Q_scope.

(* ---------- which equations are active ---------- *)
Lemma active_spec k i : In i (active k) <-> (i < neq k)%nat /\ flag k i = true.
Proof.
  unfold active. rewrite filter_In, in_seq. split; intros [H1 H2]; split; try assumption; lia.
Qed.

Lemma flag_data k iech ivar :
  (iech < nech k)%nat -> (ivar < k_nvar k)%nat ->
  flag k (iech + ivar * nech k) =
  sample_ok k (nth_s k iech) && defined (nth ivar (s_z (nth_s k iech)) None).
Proof.
  intros Hi Hv. unfold flag.
  assert (Hlt : (iech + ivar * nech k < k_nvar k * nech k)%nat) by nia.
  apply Nat.ltb_lt in Hlt. rewrite Hlt.
  assert (Hn : nech k <> O) by lia.
  rewrite Nat.mod_add by exact Hn. rewrite Nat.mod_small by exact Hi.
  rewrite Nat.div_add by exact Hn. rewrite Nat.div_small by exact Hi. reflexivity.
Qed.

(* ---------- the full left-hand side is symmetric by construction ---------- *)
Lemma lhs_full_sym k i j : lhs_full k i j = lhs_full k j i.
Proof.
  unfold lhs_full.
  set (n := nech k). set (nd := (k_nvar k * n)%nat).
  destruct (Nat.ltb i nd) eqn:Hi; destruct (Nat.ltb j nd) eqn:Hj; cbn [andb negb]; try reflexivity.
  destruct (Nat.ltb (j mod n) (i mod n)) eqn:H1; destruct (Nat.ltb (i mod n) (j mod n)) eqn:H2.
  - apply Nat.ltb_lt in H1, H2. lia.
  - assert (Nat.eqb (i mod n) (j mod n) = false) by (apply Nat.eqb_neq; apply Nat.ltb_lt in H1; lia).
    assert (Nat.eqb (j mod n) (i mod n) = false) by (apply Nat.eqb_neq; apply Nat.ltb_lt in H1; lia).
    rewrite H, H0. rewrite !andb_false_r. cbn [andb]. reflexivity.
  - assert (Nat.eqb (i mod n) (j mod n) = false) by (apply Nat.eqb_neq; apply Nat.ltb_lt in H2; lia).
    assert (Nat.eqb (j mod n) (i mod n) = false) by (apply Nat.eqb_neq; apply Nat.ltb_lt in H2; lia).
    rewrite H, H0. rewrite !andb_false_r. cbn [andb]. reflexivity.
  - apply Nat.ltb_ge in H1, H2. assert (E : (i mod n = j mod n)%nat) by lia.
    rewrite E. rewrite Nat.max_comm, Nat.min_comm. rewrite Nat.eqb_refl.
    rewrite (Nat.eqb_sym (j / n) (i / n)).
    destruct (Nat.eqb_spec (i / n) (j / n)) as [E2|E2]; [rewrite E2; reflexivity|].
    rewrite !andb_false_r. reflexivity.
Qed.

(* ---------- shapes ---------- *)
Lemma length_lhs_c k : length (lhs_c k) = nred k.
Proof. unfold lhs_c, nred. apply map_length. Qed.
Lemma length_rhs_c k : length (rhs_c k) = nred k.
Proof. unfold rhs_c, nred. apply map_length. Qed.
Lemma length_zext k : length (zext k) = nred k.
Proof. unfold zext, nred. apply map_length. Qed.

Lemma nth_map_default {A B} (f : A -> B) l i da db :
  (i < length l)%nat -> nth i (map f l) db = f (nth i l da).
Proof.
  intro H. rewrite (nth_indep _ db (f da)) by (rewrite map_length; exact H). apply map_nth.
Qed.

Lemma get_lhs_c k a b :
  (a < nred k)%nat -> (b < nred k)%nat ->
  get (lhs_c k) a b = lhs_full k (nth a (active k) O) (nth b (active k) O).
Proof.
  intros Ha Hb. unfold get, lhs_c.
  rewrite (nth_map_default _ (active k) a O []) by exact Ha.
  apply (nth_map_default _ (active k) b O 0). exact Hb.
Qed.

Lemma get_rhs_c k a v :
  (a < nred k)%nat -> (v < k_nvar k)%nat ->
  get (rhs_c k) a v = rhs_full k (nth a (active k) O) v.
Proof.
  intros Ha Hv. unfold get, rhs_c.
  rewrite (nth_map_default _ (active k) a O []) by exact Ha.
  rewrite (nth_map_default _ (seq 0 (k_nvar k)) v O 0) by (rewrite seq_length; exact Hv).
  rewrite seq_nth by exact Hv. reflexivity.
Qed.

Lemma lhs_c_sym k : fsym (nred k) (get (lhs_c k)).
Proof. intros a b Ha Hb. rewrite !get_lhs_c by assumption. rewrite lhs_full_sym. reflexivity. Qed.

(* rows of [rhs_and_data]: the nvar RHS entries followed by the centred datum *)
Lemma row_length_rhs_c k a : (a < nred k)%nat -> length (nth a (rhs_c k) []) = k_nvar k.
Proof.
  intro Ha. unfold rhs_c. rewrite (nth_map_default _ (active k) a O []) by exact Ha.
  rewrite map_length, seq_length. reflexivity.
Qed.

Lemma nth_rhs_and_data k a :
  (a < nred k)%nat -> nth a (rhs_and_data k) [] = nth a (rhs_c k) [] ++ [nth a (zext k) 0].
Proof.
  intro Ha. unfold rhs_and_data.
  rewrite (nth_map_default _ (combine (rhs_c k) (zext k)) a ([], 0) []).
  - rewrite combine_nth by (rewrite length_rhs_c, length_zext; reflexivity). reflexivity.
  - rewrite combine_length, length_rhs_c, length_zext. lia.
Qed.

Lemma get_rhs_and_data_l k a v :
  (a < nred k)%nat -> (v < k_nvar k)%nat -> get (rhs_and_data k) a v = get (rhs_c k) a v.
Proof.
  intros Ha Hv. unfold get. rewrite nth_rhs_and_data by exact Ha.
  apply app_nth1. rewrite row_length_rhs_c by exact Ha. exact Hv.
Qed.
Lemma get_rhs_and_data_r k a :
  (a < nred k)%nat -> get (rhs_and_data k) a (k_nvar k) = vget (zext k) a.
Proof.
  intro Ha. unfold get. rewrite nth_rhs_and_data by exact Ha.
  rewrite app_nth2 by (rewrite row_length_rhs_c by exact Ha; lia).
  rewrite row_length_rhs_c by exact Ha. rewrite Nat.sub_diag. reflexivity.
Qed.

(* ---------- the returned weights and dual vector solve the system ---------- *)
Lemma krige_fields k o :
  krige k = Some o ->
  exists WZ, solve_checked (nred k) (S (k_nvar k)) (lhs_c k) (rhs_and_data k) = Some WZ /\
    o_nred o = nred k /\ o_active o = active k /\ o_lhs o = lhs_c k /\ o_rhs o = rhs_c k /\
    o_wgt o = mk (nred k) (k_nvar k) (get WZ) /\ o_zam o = col WZ (nred k) (k_nvar k) /\
    authorized k = true /\ tdrift_ok k = true.
Proof.
  unfold krige. destruct (authorized k) eqn:Ha; cbn [negb]; [|discriminate].
  destruct (tdrift_ok k) eqn:Ht; cbn [negb]; [|discriminate].
  destruct (solve_checked (nred k) (S (k_nvar k)) (lhs_c k) (rhs_and_data k)) as [WZ|] eqn:Hs; [|discriminate].
  intro H. injection H as H. subst o. cbn. exists WZ. repeat split; reflexivity.
Qed.

Lemma krige_weights_solve k o :
  krige k = Some o ->
  forall a v, (a < nred k)%nat -> (v < k_nvar k)%nat ->
    fmul (nred k) (get (o_lhs o)) (get (o_wgt o)) a v == get (o_rhs o) a v.
Proof.
  intros H a v Ha Hv. destruct (krige_fields k o H) as [WZ [Hs [_ [_ [Hl [Hr [Hw _]]]]]]].
  rewrite Hl, Hr, Hw.
  pose proof (solve_checked_correct _ _ _ _ _ Hs a v Ha (Nat.lt_lt_succ_r _ _ Hv)) as H1.
  rewrite get_rhs_and_data_l in H1 by assumption. rewrite <- H1.
  apply fmul_ext; intros l Hl'; [reflexivity|]. rewrite get_mk by assumption. reflexivity.
Qed.

Lemma krige_dual_solves k o :
  krige k = Some o ->
  forall a, (a < nred k)%nat ->
    fmv (nred k) (get (o_lhs o)) (vget (o_zam o)) a == vget (zext k) a.
Proof.
  intros H a Ha. destruct (krige_fields k o H) as [WZ [Hs [_ [_ [Hl [_ [_ [Hz _]]]]]]]].
  rewrite Hl, Hz.
  pose proof (solve_checked_correct _ _ _ _ _ Hs a (k_nvar k) Ha (Nat.lt_succ_diag_r _)) as H1.
  rewrite get_rhs_and_data_r in H1 by exact Ha. rewrite <- H1.
  unfold fmv, fmul. apply sumn_ext. intros l Hl'. unfold col. rewrite vget_vk by exact Hl'. reflexivity.
Qed.

(* ---------- uniqueness: any solution of an invertible system is the returned one ---------- *)
Lemma krige_weights_unique k o B w v :
  krige k = Some o -> (v < k_nvar k)%nat ->
  finv (nred k) (get (o_lhs o)) B ->
  (forall a, (a < nred k)%nat -> fmv (nred k) (get (o_lhs o)) w a == get (o_rhs o) a v) ->
  forall a, (a < nred k)%nat -> w a == get (o_wgt o) a v.
Proof.
  intros H Hv HB Hw a Ha.
  rewrite (finv_unique_solution _ _ B (fun i => get (o_rhs o) i v) w HB Hw a Ha).
  symmetry.
  apply (finv_unique_solution _ _ B (fun i => get (o_rhs o) i v) (fun i => get (o_wgt o) i v) HB); [|exact Ha].
  intros a' Ha'. apply (krige_weights_solve k o H a' v Ha' Hv).
Qed.

(* ---------- dual form = primal form (uses only the symmetry of the LHS) ---------- *)
Lemma sym_solve_swap n A w r y z :
  fsym n A ->
  (forall a, (a < n)%nat -> fmv n A w a == r a) ->
  (forall a, (a < n)%nat -> fmv n A y a == z a) ->
  fdot n r y == fdot n w z.
Proof.
  intros S Hw Hy.
  rewrite (fdot_ext n r (fmv n A w) y y) by (intros; try reflexivity; symmetry; apply Hw; assumption).
  rewrite (fdot_ext n w w z (fmv n A y)) by (intros; try reflexivity; symmetry; apply Hy; assumption).
  rewrite (fdot_comm n (fmv n A w) y). rewrite fdot_fmv. rewrite fdot_comm.
  apply fdot_ext; [intros; reflexivity|].
  intros l Hl. unfold fmv, ftr. apply sumn_ext. intros m Hm. rewrite (S m l Hm Hl). reflexivity.
Qed.

Lemma krige_dual_eq_primal k o v :
  krige k = Some o -> (v < k_nvar k)%nat ->
  fdot (nred k) (fun a => get (o_rhs o) a v) (vget (o_zam o)) ==
  fdot (nred k) (fun a => get (o_wgt o) a v) (vget (zext k)).
Proof.
  intros H Hv.
  apply (sym_solve_swap (nred k) (get (o_lhs o))).
  - destruct (krige_fields k o H) as [WZ [_ [_ [_ [Hl _]]]]]. rewrite Hl. apply lhs_c_sym.
  - intros a Ha. apply (krige_weights_solve k o H a v Ha Hv).
  - intros a Ha. apply (krige_dual_solves k o H a Ha).
Qed.

(* ---------- output formulas ---------- *)
Lemma krige_estim k o v :
  krige k = Some o -> (v < k_nvar k)%nat ->
  nth v (o_estim o) 0 ==
  fdot (nred k) (fun a => get (o_rhs o) a v) (vget (o_zam o)) + mean_of k v.
Proof.
  intros H Hv. unfold krige in H.
  destruct (authorized k); cbn [negb] in H; [|discriminate].
  destruct (tdrift_ok k); cbn [negb] in H; [|discriminate].
  destruct (solve_checked (nred k) (S (k_nvar k)) (lhs_c k) (rhs_and_data k)) as [WZ|]; [|discriminate].
  injection H as H. subst o. cbn [o_estim o_rhs o_zam].
  rewrite (nth_map_default _ (seq 0 (k_nvar k)) v O 0) by (rewrite seq_length; exact Hv).
  rewrite seq_nth by exact Hv. cbn [Nat.add]. rewrite vdot_fdot.
  apply Qplus_comp; [|reflexivity]. apply fdot_ext; intros l Hl; [|reflexivity].
  unfold col. rewrite vget_vk by exact Hl. reflexivity.
Qed.

Lemma krige_var k o v :
  krige k = Some o -> (v < k_nvar k)%nat ->
  nth v (o_var o) 0 ==
  get (k_c00 k) v v - fdot (nred k) (fun a => get (o_rhs o) a v) (fun a => get (o_wgt o) a v).
Proof.
  intros H Hv. unfold krige in H.
  destruct (authorized k); cbn [negb] in H; [|discriminate].
  destruct (tdrift_ok k); cbn [negb] in H; [|discriminate].
  destruct (solve_checked (nred k) (S (k_nvar k)) (lhs_c k) (rhs_and_data k)) as [WZ|]; [|discriminate].
  injection H as H. subst o. cbn [o_var o_rhs o_wgt].
  rewrite (nth_map_default _ (seq 0 (k_nvar k)) v O 0) by (rewrite seq_length; exact Hv).
  rewrite seq_nth by exact Hv. cbn [Nat.add]. rewrite vdot_fdot.
  apply Qplus_comp; [reflexivity|]. apply Qopp_comp. apply fdot_ext; intros l Hl; unfold col; rewrite vget_vk by exact Hl; reflexivity.
Qed.

(* estimate in primal form: mean + weights . (data - mean) *)
Lemma krige_estim_primal k o v :
  krige k = Some o -> (v < k_nvar k)%nat ->
  nth v (o_estim o) 0 ==
  fdot (nred k) (fun a => get (o_wgt o) a v) (vget (zext k)) + mean_of k v.
Proof.
  intros H Hv. rewrite (krige_estim k o v H Hv). rewrite (krige_dual_eq_primal k o v H Hv). reflexivity.
Qed.

(* failure cases *)
Lemma krige_none_cases k :
  krige k = None <->
  authorized k = false \/ tdrift_ok k = false \/
  solve_checked (nred k) (S (k_nvar k)) (lhs_c k) (rhs_and_data k) = None.
Proof.
  unfold krige. destruct (authorized k); cbn [negb].
  - destruct (tdrift_ok k); cbn [negb].
    + destruct (solve_checked (nred k) (S (k_nvar k)) (lhs_c k) (rhs_and_data k)); split; intro H.
      * discriminate.
      * destruct H as [H|[H|H]]; discriminate.
      * right; right; reflexivity.
      * reflexivity.
    + split; intro H; [right; left; reflexivity|reflexivity].
  - split; intro H; [left; reflexivity|reflexivity].
Qed.

(* The reported variance is the variance of the estimation error written as a quadratic form:
   C00 - 2 w.r + w.(A w), because the returned weights solve A w = r. *)
Lemma krige_var_quadratic k o v :
  krige k = Some o -> (v < k_nvar k)%nat ->
  nth v (o_var o) 0 ==
  get (k_c00 k) v v
  - (2#1) * fdot (nred k) (fun a => get (o_wgt o) a v) (fun a => get (o_rhs o) a v)
  + fdot (nred k) (fun a => get (o_wgt o) a v)
         (fmv (nred k) (get (o_lhs o)) (fun a => get (o_wgt o) a v)).
Proof.
  intros H Hv. rewrite (krige_var k o v H Hv).
  assert (Hq : fdot (nred k) (fun a => get (o_wgt o) a v)
                 (fmv (nred k) (get (o_lhs o)) (fun a => get (o_wgt o) a v))
               == fdot (nred k) (fun a => get (o_wgt o) a v) (fun a => get (o_rhs o) a v)).
  { apply fdot_ext; intros l Hl; [reflexivity|].
    exact (krige_weights_solve k o H l v Hl Hv). }
  rewrite Hq. rewrite (fdot_comm (nred k) (fun a => get (o_rhs o) a v)). ring.
Qed.

(* the compressed system keeps the equations in their original order (variable-major, then sample, then drift) without repetition *)
Lemma filter_seq_sorted (f : nat -> bool) s n : StronglySorted lt (filter f (seq s n)).
Proof.
  revert s; induction n as [|n IH]; intros s; [constructor|].
  cbn [seq filter]. destruct (f s).
  - constructor; [apply IH|].
    apply Forall_forall. intros x Hx. apply filter_In in Hx. destruct Hx as [Hx _].
    apply in_seq in Hx. lia.
  - apply IH.
Qed.

Lemma sorted_nth_lt (l : list nat) : StronglySorted lt l ->
  forall a b, (a < b)%nat -> (b < length l)%nat -> (nth a l O < nth b l O)%nat.
Proof.
  intro H. induction H as [|x l Hs IH Hf]; intros a b Hab Hb; [cbn in Hb; lia|].
  destruct b as [|b]; [lia|]. cbn [length] in Hb.
  destruct a as [|a]; cbn [nth].
  - rewrite Forall_forall in Hf. apply Hf. apply nth_In. lia.
  - apply IH; lia.
Qed.

Lemma active_increasing k a b : (a < b)%nat -> (b < nred k)%nat ->
  (nth a (active k) O < nth b (active k) O)%nat.
Proof. intros Hab Hb. apply sorted_nth_lt; [apply filter_seq_sorted|exact Hab|exact Hb]. Qed.

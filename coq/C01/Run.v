(* C01/C02 runner *)
From Coq Require Import List Arith ZArith QArith Bool.
From Gst Require Import lib.Sx lib.QAux lib.LinAlgQ C01.Model.
Import ListNotations.

Definition asMat (s : sx) : option mat := asListOf (asListOf asQ) s.
Definition asSample (s : sx) : option sample :=
  match s with
  | L [c; z; v; f] =>
      match asListOf asOQ c, asListOf asOQ z, asListOf asOQ v, asListOf asOQ f with
      | Some c', Some z', Some v', Some f' => Some {| s_coord := c'; s_z := z'; s_verr := v'; s_fext := f' |}
      | _, _, _, _ => None
      end
  | _ => None
  end.
Definition asCase (c : sx) : option kcase :=
  match c with
  | L [nv; monos; nfex; samples; means; tc; tf; fv; clhs; crhs; c00] =>
      match asNat nv, asListOf (asListOf asNat) monos, asNat nfex, asListOf asSample samples,
            asListOf asQ means, asListOf asQ tc, asListOf asOQ tf, asB fv,
            asListOf (asListOf asMat) clhs, asListOf (asListOf asMat) crhs, asMat c00 with
      | Some nv', Some monos', Some nfex', Some samples', Some means', Some tc', Some tf', Some fv',
        Some clhs', Some crhs', Some c00' =>
          Some {| k_nvar := nv'; k_monos := monos'; k_nfex := nfex'; k_samples := samples'; k_means := means';
                  k_tcoord := tc'; k_tfext := tf'; k_flag_verr := fv'; k_clhs := clhs'; k_crhs := crhs'; k_c00 := c00' |}
      | _, _, _, _, _, _, _, _, _, _, _ => None
      end
  | _ => None
  end.

Definition ofMat (M : mat) : sx := ofList (ofList ofQ) M.

Definition run (c : sx) : sx :=
  match asCase c with
  | None => sx_error 1
  | Some k =>
      match krige k with
      | None => L [I 0%Z; ofNat (nred k); ofList ofNat (active k);
                   I (if negb (authorized k) then 1 else if negb (tdrift_ok k) then 2 else 3)%Z]
      | Some o =>
          L [I 1%Z; ofNat (o_nred o); ofList ofNat (o_active o); ofMat (o_lhs o); ofMat (o_rhs o); ofMat (o_wgt o);
             ofList ofQ (o_zam o); ofList ofQ (o_estim o); ofList ofQ (o_var o); ofList ofQ (o_varz o)]
      end
  end.

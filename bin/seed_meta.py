#!/usr/bin/env python3
"""Merge the coordinator's own verification (seeded/<id>/verify.log, written by bin/verify_seed.sh) into seeded/<id>/meta.json."""
import json, os, re, sys, glob
root = os.path.join(os.path.dirname(os.path.abspath(__file__)), '..', 'seeded')
rows = []
for d in sorted(glob.glob(os.path.join(root, '*'))):
    mj = os.path.join(d, 'meta.json'); vl = os.path.join(d, 'verify.log')
    if not os.path.exists(mj): continue
    try: meta = json.load(open(mj))
    except Exception: meta = {'raw': open(mj).read()}
    ver = {'ran': 'bin/verify_seed.sh %s <checks>  (fresh worktree of /repo HEAD + patch.diff; cmake RelWithDebInfo build with tests; ctest -j8 then failed tests re-run alone; run.sh on the patched build and on /repo/_build; bin/check <id> quick with VERIF_REPO/VERIF_BUILD on the patched tree)' % os.path.basename(d)}
    if os.path.exists(vl):
        txt = open(vl).read()
        ver['compile'] = 'ok' if 'RESULT compile=ok' in txt else 'FAIL'
        m = re.search(r'RESULT stable_tests=(\S+) failing=(.*)', txt); ver['stable_tests'] = m.group(1) if m else None
        m = re.search(r'RESULT demo_with_change_exit=(\d+) demo_without_change_exit=(\d+)', txt)
        if m: ver['demo_with_change_exit'], ver['demo_without_change_exit'] = int(m.group(1)), int(m.group(2))
        ver['checks'] = {}
        for m in re.finditer(r'RESULT check=(\S+) exit=(\d+) violations=(\d+)', txt):
            keys = []
            cl = os.path.join(d, 'check_%s.log' % m.group(1))
            if os.path.exists(cl):
                keys = re.findall(r'violation detail \[([^\]]+)\]', open(cl).read())[:8]
            ver['checks'][m.group(1)] = {'exit': int(m.group(2)), 'violations': int(m.group(3)), 'keys': keys}
    rl = os.path.join(d, 'recheck.log')
    if os.path.exists(rl):
        txt = open(rl).read(); rc = {'ran': 'RECHECK_ONLY=1 bin/verify_seed.sh %s <checks>  (after the check was strengthened: fresh worktree of /repo HEAD + patch.diff, checks only)' % os.path.basename(d), 'checks': {}}
        for m in re.finditer(r'RESULT check=(\S+) exit=(\d+) violations=(\d+)', txt):
            rc['checks'][m.group(1)] = {'exit': int(m.group(2)), 'violations': int(m.group(3)), 'keys': re.findall(r'violation detail \[([^\]]+)\]', txt)[:8]}
        ver['recheck_after_strengthening'] = rc
    meta['coordinator_verification'] = ver
    meta.setdefault('breaks_property', meta.get('property'))
    json.dump(meta, open(mj, 'w'), indent=1)
    caught = [k for k, v in ver.get('checks', {}).items() if v['violations'] > 0]
    if not caught and ver.get('recheck_after_strengthening'):
        caught = ['%s(after strengthening)' % k for k, v in ver['recheck_after_strengthening']['checks'].items() if v['violations'] > 0]
    rows.append((os.path.basename(d), meta.get('property'), ver.get('compile'), ver.get('stable_tests'), ver.get('demo_with_change_exit'), ver.get('demo_without_change_exit'), ','.join(caught) or ('MISSED' if ver.get('checks') else 'not run')))
for r in rows: print(' | '.join(str(x) for x in r))

#!/bin/bash
# Build (or incrementally rebuild) libgstlearn.so from the CURRENT working tree of $VERIF_REPO
# with the verification hooks enabled (-DGSTLEARN_VERIF), -O1, assertions on (no NDEBUG).
# Usage: buildlib.sh [asan]
set -u
VERIF=${VERIF_ROOT:-/verif}
REPO=${VERIF_REPO:-/repo}
FLAVOR=${1:-lib}
B=${VERIF_BUILD:-$VERIF/build}/$FLAVOR
mkdir -p "$B"
exec 9>"$B/.lock"; flock 9
FLAGS="-O1 -g0 -DGSTLEARN_VERIF -Wno-error -w"
LD=""
if [ "$FLAVOR" = asan ]; then FLAGS="-O1 -g1 -fno-omit-frame-pointer -fsanitize=address -DGSTLEARN_VERIF -w"; LD="-fsanitize=address"; fi
if [ ! -f "$B/build.ninja" ] || [ "$(cat $B/.src 2>/dev/null)" != "$REPO" ]; then
  rm -rf "$B"/CMakeCache.txt "$B"/CMakeFiles
  cmake -S "$REPO" -B "$B" -G Ninja -DCMAKE_BUILD_TYPE=Verif \
    -DCMAKE_CXX_FLAGS_VERIF="$FLAGS" -DCMAKE_C_FLAGS_VERIF="$FLAGS" \
    -DCMAKE_SHARED_LINKER_FLAGS="$LD" -DCMAKE_EXE_LINKER_FLAGS="$LD" \
    -DBUILD_TESTING=OFF -DBUILD_PYTHON=OFF -DBUILD_R=OFF -DCMAKE_POLICY_VERSION_MINIMUM=3.5 \
    > "$B/configure.log" 2>&1 || { echo "buildlib: cmake configure failed, see $B/configure.log"; tail -20 "$B/configure.log"; exit 2; }
  echo "$REPO" > "$B/.src"
fi
cmake --build "$B" --target shared -j"$(nproc)" > "$B/build.log" 2>&1 || { echo "buildlib: build failed, see $B/build.log"; grep -E "error|Error" "$B/build.log" | head -20; exit 2; }
ls "$B"/Verif/libgstlearn.so >/dev/null 2>&1 || { echo "buildlib: libgstlearn.so missing"; exit 2; }
exit 0

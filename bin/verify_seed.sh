#!/bin/bash
# verify_seed.sh <seed-dir> <check-id>[,<check-id>...]
# Independent confirmation of a seeded breaking change: (1) applies patch.diff to a fresh worktree of /repo HEAD,
# (2) builds it with the repository's tests and runs the stable test-suite, (3) runs the seed's demonstration against
# the patched build (must fail) and against /repo/_build (must pass), (4) runs the named checks against the patched
# tree (VERIF_REPO / VERIF_BUILD) and records whether they report a VIOLATION. Everything is removed afterwards.
SEED=$(realpath "$1"); IDS=${2//,/ }
NAME=$(basename "$SEED"); WT=/tmp/vs_$NAME; VB=/tmp/vsb_$NAME; LOG=$SEED/verify.log; [ -n "${RECHECK_ONLY:-}" ] && LOG=$SEED/recheck.log
exec > >(tee "$LOG") 2>&1
set -u
git -C /repo worktree remove --force $WT 2>/dev/null; rm -rf $WT $VB
git -C /repo worktree add --detach $WT HEAD > /dev/null || exit 2
git -C $WT apply "$SEED/patch.diff" 2>/dev/null || git -C $WT apply -C1 "$SEED/patch.diff" 2>/dev/null || git -C $WT apply --3way "$SEED/patch.diff" || { echo "RESULT patch-does-not-apply"; git -C /repo worktree remove --force $WT; exit 2; }
if [ -z "${RECHECK_ONLY:-}" ]; then   # RECHECK_ONLY=1: only re-run the checks against the patched tree (after a check was strengthened)
echo "== build with tests"
cmake -S $WT -B $WT/_build -G Ninja -DCMAKE_BUILD_TYPE=RelWithDebInfo -DBUILD_TESTING=ON -DCMAKE_POLICY_VERSION_MINIMUM=3.5 -DCMAKE_CXX_FLAGS=-Wno-error -DCMAKE_C_FLAGS=-Wno-error > $WT/conf.log 2>&1 \
  && cmake --build $WT/_build -j"$(nproc)" > $WT/build.log 2>&1 || { echo "RESULT compile=FAIL"; tail -5 $WT/build.log; git -C /repo worktree remove --force $WT; exit 1; }
echo "RESULT compile=ok"
echo "== stable test-suite"
ctest --test-dir $WT/_build -j8 --timeout 900 --output-junit $WT/junit.xml > $WT/ctest.log 2>&1
ctest --test-dir $WT/_build --rerun-failed -j1 --timeout 900 --output-junit $WT/junit2.xml > $WT/ctest2.log 2>&1
python3 - "$WT" <<'PY'
import json, sys, xml.etree.ElementTree as ET
wt = sys.argv[1]
b = json.load(open('/root/.vp/BASELINE.json'))
def load(p):
    try: return {tc.get('name'): (tc.find('failure') is None and tc.get('status', 'run') != 'fail') for tc in ET.parse(p).getroot().iter('testcase')}
    except Exception: return {}
r = load(wt + '/junit.xml'); r2 = load(wt + '/junit2.xml')
for k, v in r2.items():
    if v: r[k] = True
bad = [s for s in b['stable_pass'] if not r.get(s.split('::')[0], False)]
print('RESULT stable_tests=%s failing=%s' % ('ok' if not bad else 'FAIL', bad))
PY
echo "== demonstration"
if [ -x "$SEED/run.sh" ] || [ -f "$SEED/run.sh" ]; then
  ( cd "$SEED" && bash ./run.sh $WT $WT/_build ) > $WT/demo_with.log 2>&1; A=$?
  ( cd "$SEED" && bash ./run.sh /repo /repo/_build ) > $WT/demo_without.log 2>&1; B=$?
  echo "RESULT demo_with_change_exit=$A demo_without_change_exit=$B"; tail -3 $WT/demo_with.log
fi
fi
echo "== checks against the patched tree"
for id in $IDS; do
  VERIF_REPO=$WT VERIF_BUILD=$VB timeout 3000 /verif/bin/check $id quick > $WT/check_$id.log 2>&1; rc=$?
  nv=$(grep -c '^VIOLATION' $WT/check_$id.log)
  echo "RESULT check=$id exit=$rc violations=$nv"; grep -E '^VIOLATION|violation detail' $WT/check_$id.log | head -6
  cp $WT/check_$id.log "$SEED/check_$id.log"
done
git -C /repo worktree remove --force $WT; rm -rf $VB

echo "== done"

#!/usr/bin/env python3
"""Rewrites the table between <!--COUNTS-BEGIN--> and <!--COUNTS-END--> in DESIGN.md from evidence/*.json and KNOWN_FINDINGS.txt."""
import json, glob, re, collections
root = '/verif'
kf = collections.Counter(); fx = collections.Counter()
for l in open(root + '/KNOWN_FINDINGS.txt'):
    m = re.match(r'(finding|fixed): property=(C\d+)', l)
    if m: (kf if m.group(1) == 'finding' else fx)[m.group(2)] += 1
rows = ['| id | obligations re-checked on every run | closed under the global context | with standard-library axioms | known findings listed | defects repaired (`fix:` commits) |', '|---|---|---|---|---|---|']
tot = [0, 0, 0]
for f in sorted(glob.glob(root + '/evidence/C*.json')):
    d = json.load(open(f)); c = d['coverage']; pid = d['property_id']
    pa = c.get('print_assumptions', {}); v = list(pa.values())[0] if pa else {}
    n = c.get('obligations') or 0; cl = v.get('all_obligations_closed', v.get('closed_under_global_context'))
    ax = v.get('all_obligations_with_axioms', (n - cl) if isinstance(cl, int) else '?')
    rows.append('| %s | %s | %s | %s | %d | %d |' % (pid, n, cl, ax, kf[pid], fx[pid]))
    tot[0] += n; tot[1] += kf[pid]; tot[2] += fx[pid]
rows.append('| total | %d | | | %d | %d |' % tuple(tot))
s = open(root + '/DESIGN.md').read()
b, e = '<!--COUNTS-BEGIN-->', '<!--COUNTS-END-->'
s = s[:s.index(b) + len(b)] + '\n' + '\n'.join(rows) + '\n' + s[s.index(e):]
open(root + '/DESIGN.md', 'w').write(s)
print('\n'.join(rows))

# ---- list of known findings (section 11) ----
b2, e2 = '<!--FINDINGS-BEGIN-->', '<!--FINDINGS-END-->'
s = open(root + '/DESIGN.md').read()
if b2 in s:
    items = []
    for l in open(root + '/KNOWN_FINDINGS.txt'):
        m = re.match(r'finding: property=(C\d+) key=(\S+) (.*)', l.strip())
        if m: items.append('* **%s** `%s` — %s' % (m.group(1), m.group(2), m.group(3)))
    s = s[:s.index(b2) + len(b2)] + '\n' + '\n'.join(items) + '\n' + s[s.index(e2):]
    open(root + '/DESIGN.md', 'w').write(s)
    print('known findings listed:', len(items))

#!/bin/bash
# setup_cmd: builds everything the checks need, offline, from files on disk only.
cd "$(dirname "$0")/.." || exit 2
export VERIF_ROOT=$(pwd)
mkdir -p build evidence replays
echo "[setup] building libgstlearn (hooks on, -O1, assertions on)"; bin/buildlib.sh lib || exit 2
echo "[setup] building libgstlearn with AddressSanitizer (used by C09, C18)"; bin/buildlib.sh asan || echo "[setup] ASan build failed (the checks that need it will report ERROR)"
echo "[setup] building the Coq development (full .vo build)"; bin/coqbuild.sh > build/coq_setup.log 2>&1 || { echo "[setup] coq build reported errors (checks will report them)"; tail -20 build/coq_setup.log; }
echo "[setup] done"

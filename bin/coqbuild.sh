#!/bin/bash
# (Re)generate coq/_CoqProject + Makefile and build the given targets (default: all) with a full .vo build.
# Usage: coqbuild.sh [make args / targets relative to coq/]
VERIF=${VERIF_ROOT:-/verif}
cd "$VERIF/coq" || exit 2
exec 9>"$VERIF/coq/.lock"; flock 9
{ echo "-Q . Gst"; find . -name '*.v' ! -name 'Extract*.v' ! -path './scratch/*' | sed 's#^\./##' | sort; } > _CoqProject.new
if ! cmp -s _CoqProject.new _CoqProject || [ ! -f Makefile.coq ]; then
  mv _CoqProject.new _CoqProject
  coq_makefile -f _CoqProject -o Makefile.coq > /dev/null 2>&1 || exit 2
else rm -f _CoqProject.new; fi
timeout ${COQ_TIMEOUT:-1500} make -f Makefile.coq -k -j"$(nproc)" "$@"

#!/bin/bash
# Runs the repository's own test-suite with the verification guard OFF (plain /repo/_build, no -DGSTLEARN_VERIF).
set -o pipefail
B=/repo/_build
[ -f $B/build.ninja ] || cmake -S /repo -B $B -G Ninja -DCMAKE_BUILD_TYPE=RelWithDebInfo -DBUILD_TESTING=ON -DCMAKE_POLICY_VERSION_MINIMUM=3.5 -DCMAKE_CXX_FLAGS=-Wno-error -DCMAKE_C_FLAGS=-Wno-error > /tmp/baseline_conf.log 2>&1
cmake --build $B -j"$(nproc)" -- -k0 > /tmp/baseline_build.log 2>&1 || { echo "baseline build failed"; tail -30 /tmp/baseline_build.log; exit 1; }
ctest --test-dir $B -j8 --timeout 900 --output-junit /tmp/baseline_junit.xml 2>&1 | tail -40

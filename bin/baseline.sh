#!/bin/bash
# Runs the repository's own test-suite with the verification guard OFF (plain /repo/_build, no -DGSTLEARN_VERIF).
set -o pipefail
R=${BASELINE_REPO:-/repo}   # another tree (scratch worktree with candidate fixes) can be tested with BASELINE_REPO=<dir>
B=$R/_build
[ -f $B/build.ninja ] || cmake -S $R -B $B -G Ninja -DCMAKE_BUILD_TYPE=RelWithDebInfo -DBUILD_TESTING=ON -DCMAKE_POLICY_VERSION_MINIMUM=3.5 -DCMAKE_CXX_FLAGS=-Wno-error -DCMAKE_C_FLAGS=-Wno-error > /tmp/baseline_conf.log 2>&1
cmake --build $B -j"$(nproc)" -- -k0 > /tmp/baseline_build.log 2>&1 || { echo "baseline build failed"; tail -30 /tmp/baseline_build.log; exit 1; }
ctest --test-dir $B -j8 --timeout 900 --output-junit /tmp/baseline_junit.xml 2>&1 | tail -40
# the *_cmp tests diff an output file that their companion test writes; under -j8 on a loaded machine the diff can run
# before the file is complete. Tests that failed are re-run once, sequentially (results merged below).
ctest --test-dir $B --rerun-failed -j1 --timeout 900 --output-junit /tmp/baseline_junit_rerun.xml > /tmp/baseline_rerun.log 2>&1
python3 - <<'PY'
import json, sys, xml.etree.ElementTree as ET
b = json.load(open('/root/.vp/BASELINE.json')) if __import__('os').path.exists('/root/.vp/BASELINE.json') else None
t = ET.parse('/tmp/baseline_junit.xml').getroot()
res = {tc.get('name'): (tc.find('failure') is None and tc.get('status', 'run') != 'fail') for tc in t.iter('testcase')}
try:
    t2 = ET.parse('/tmp/baseline_junit_rerun.xml').getroot()
    for tc in t2.iter('testcase'):
        ok = (tc.find('failure') is None and tc.get('status', 'run') != 'fail')
        if ok and not res.get(tc.get('name'), True):
            print('baseline: %s failed under -j8 but passes when re-run alone' % tc.get('name')); res[tc.get('name')] = True
except Exception: pass
if b is None:
    bad = [k for k, v in res.items() if not v]
else:
    bad = [s for s in b['stable_pass'] if not res.get(s.split('::')[0], False)]
print('baseline: %d tests run, %d passed; stable tests failing: %s' % (len(res), sum(res.values()), bad))
sys.exit(1 if bad and b is not None else 0)
PY
